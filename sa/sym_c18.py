"""Runs under the tooling interpreter (python3-vt, sympy): reads the law
expressions extracted from the AST by sa/props/c18.py (JSON on stdin) and
decides the derivative identities.  sympy is used as a term rewriting engine
(diff, together, expand); an identity that does not reach the normal form 0 is
evaluated at random rational points with 60-digit arithmetic: non-zero =>
definite violation, zero at all points => pass 'by randomised identity test'."""

import json
import random
import sys

import sympy as sp
from sympy import Rational, exp, log, sqrt, symbols, Symbol

INV = ["I1", "I2", "I3", "I4", "I6", "I8"]


def main():
    data = json.load(sys.stdin)
    seed = data.get("seed", 0)
    npts = data.get("points", 40)
    rnd = random.Random(seed)
    out = {"laws": {}}
    t = Symbol("t", positive=True)
    for law, d in data["laws"].items():
        names = set()
        loc = {"Rational": Rational, "exp": exp, "log": log, "sqrt": sqrt}
        def parse(s):
            e = sp.sympify(s, locals=loc)
            return e
        res = []
        W = parse(d["W"])
        syms = {str(s): s for s in W.free_symbols}
        for coefs in list(d["dW"].values()) + list(d["d2W"].values()):
            for s in parse(coefs).free_symbols:
                syms.setdefault(str(s), s)
        I = {k: syms.get(k, Symbol(k)) for k in INV}

        def zero(e, label):
            e = e.subs(I["I3"], t**6)
            e = sp.powsimp(sp.powdenest(e, force=True), force=True)
            method = "normal form"
            try:
                z = sp.simplify(sp.expand(sp.numer(sp.together(e))))
            except Exception:
                z = e
            if z == 0:
                return True, method, None
            # randomised identity test
            free = sorted(e.free_symbols, key=str)
            worst = 0
            for _ in range(npts):
                env = {}
                for s in free:
                    if str(s) == "t":
                        env[s] = Rational(rnd.randint(60, 160), 100)
                    elif str(s).startswith("I"):
                        env[s] = Rational(rnd.randint(50, 400), 100)
                    else:
                        env[s] = Rational(rnd.randint(10, 300), 100)
                val = sp.N(e.subs(env), 60)
                scale = sp.N(sum(abs(sp.N(a.subs(env), 60)) for a in sp.Add.make_args(e)), 60) or 1
                rel = abs(val) / (scale if scale != 0 else 1)
                worst = max(worst, rel)
                if rel > sp.Float("1e-40"):
                    return False, "randomised evaluation", {str(k): str(v) for k, v in env.items()}
            return True, "randomised identity test (%d points, 60 digits)" % npts, None

        # first derivatives: dW = 2 sum_k dWdIk dIk
        used = [k for k in INV if I[k] in W.free_symbols]
        for k in INV:
            want = 2 * sp.diff(W, I[k])
            got = parse(d["dW"].get("d" + k, "0"))
            ok, how, wit = zero(got - want, f"dW/d{k}")
            res.append({"ob": f"coefficient of d{k}dC in dW == 2 dW/d{k}", "ok": ok, "how": how, "witness": wit})
        for k in INV:
            want = 4 * sp.diff(W, I[k])
            if ("d2" + k) in data.get("zero_atoms", []) and ("d2" + k) not in d["d2W"]:
                res.append({"ob": f"d2{k}dC is identically zero in the state class: term may be omitted", "ok": True, "how": "structural", "witness": None})
                continue
            got = parse(d["d2W"].get("d2" + k, "0"))
            ok, how, wit = zero(got - want, f"d2 {k}")
            res.append({"ob": f"coefficient of d2{k}dC in d2W == 4 dW/d{k}", "ok": ok, "how": how, "witness": wit})
        for a in INV:
            for b in INV:
                want = 4 * sp.diff(W, I[a], I[b])
                got = parse(d["d2W"].get(f"TP(d{a},d{b})", "0"))
                ok, how, wit = zero(got - want, f"d2W/d{a}d{b}")
                res.append({"ob": f"coefficient of d{a}dC (x) d{b}dC in d2W == 4 d2W/d{a}d{b}", "ok": ok, "how": how, "witness": wit})
        # reference state
        ref = {I["I1"]: 3, I["I2"]: 3, I["I3"]: 1, I["I4"]: 1, I["I6"]: 1, I["I8"]: 0}
        w0 = sp.simplify(W.subs(ref))
        res.append({"ob": "W vanishes in the reference configuration", "ok": w0 == 0, "how": "substitution", "witness": str(w0) if w0 != 0 else None})
        s0 = sp.simplify((sp.diff(W, I["I1"]) + 2 * sp.diff(W, I["I2"]) + sp.diff(W, I["I3"])).subs(ref))
        res.append({"ob": "isotropic stress vanishes at C = I: W_1 + 2 W_2 + W_3 == 0", "ok": s0 == 0, "how": "substitution", "witness": str(s0) if s0 != 0 else None})
        for k in ("I4", "I6", "I8"):
            f0 = sp.simplify(sp.diff(W, I[k]).subs(ref))
            res.append({"ob": f"fibre stress term dW/d{k} vanishes in the reference configuration", "ok": f0 == 0, "how": "substitution", "witness": str(f0) if f0 != 0 else None})
        out["laws"][law] = res
    json.dump(out, sys.stdout)


if __name__ == "__main__":
    main()
