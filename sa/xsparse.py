"""Exact model of ``scipy.sparse`` as far as the repository's solve path uses it (trusted scipy semantics, independent of
the repository): matrices are dictionaries ``(i, j) -> exact value`` with a shape.  The COO constructor sums duplicates;
``A[rows]``, ``A[:, cols]``, ``A[rows, :][:, cols]``, ``A.T``, ``A @ x``, ``A @ B``, ``A + B``, ``c * A``, ``A.toarray()``,
``A.diagonal()``, ``tolil / tocsr / tocsc / tocoo / copy``, ``sparse.eye / diags / vstack / hstack / bmat / find`` and the
direct solver (exact Gaussian elimination over the fraction field of the entries).

Used by the end-to-end scenarios (sa/e2e.py).  ``XSp`` is deliberately separate from ``sa.props.c03.XCsr`` (which also
models the canonical-format bookkeeping the cached-pattern assembly relies on): both accept the same constructor forms.
"""

from __future__ import annotations

from fractions import Fraction

from .alg import Poly, Rat, is_zero
from .repo import AnalysisError
from .xarray import XArray


def _ex(x):
    from .xeval import exact

    x = exact(x)
    if isinstance(x, Poly) and x.is_const():
        x = x.const_value()
    if isinstance(x, Rat) and x.is_poly():
        x = x.as_poly()
        if x.is_const():
            x = x.const_value()
    return x


def _iszero(v):
    if isinstance(v, (int, Fraction)):
        return v == 0
    try:
        return is_zero(v)
    except Exception:
        return False


def _ints(x, n=None):
    if isinstance(x, slice):
        return list(range(*x.indices(n)))
    if isinstance(x, (int, Fraction)):
        return [int(x)]
    a = XArray.from_nested(x)
    if a.kind == "b" if hasattr(a, "kind") else False:
        return [k for k, v in enumerate(a.data) if v]
    return [int(_ex(v)) for v in a.data]


class XSp:
    _xeval_open = True

    def __init__(self, arg=None, shape=None, dtype=None, copy=False):
        from .xeval import XRaise

        self.dtype = dtype
        if isinstance(arg, XSp):
            self.shape, self.entries = arg.shape, dict(arg.entries)
            return
        if isinstance(arg, tuple) and len(arg) == 2 and all(isinstance(x, (int, Fraction)) for x in arg) and shape is None:
            shape, arg = arg, None
        dense = None
        if shape is None and isinstance(arg, (XArray, list)):
            a = XArray.from_nested(arg)
            if a.ndim == 1:
                a = a.reshape(1, -1)
            dense, shape, arg = a, a.shape, None
        if shape is None:
            raise AnalysisError("sparse constructor form not modelled (no shape)")
        self.shape = tuple(int(_ex(x)) for x in shape)
        e = {}
        if dense is not None:
            for i in range(self.shape[0]):
                for j in range(self.shape[1]):
                    v = dense[i, j]
                    if not _iszero(v):
                        e[(i, j)] = v
        elif arg is None:
            pass
        elif len(arg) == 2:
            vals, (rows, cols) = arg
            vals = list(XArray.from_nested(vals).data)
            rows, cols = _ints(rows), _ints(cols)
            if not (len(vals) == len(rows) == len(cols)):
                raise XRaise("ValueError", "row, column, and data arrays must be the same length")
            for v, i, j in zip(vals, rows, cols):
                e[(i, j)] = e.get((i, j), 0) + v
        elif len(arg) == 3:
            data, indices, indptr = (list(XArray.from_nested(v).data) for v in arg)
            for i in range(self.shape[0]):
                for k in range(int(indptr[i]), int(indptr[i + 1])):
                    key = (i, int(indices[k]))
                    e[key] = e.get(key, 0) + data[k]
        else:
            raise AnalysisError("sparse constructor form not modelled")
        for (i, j) in e:
            if not (0 <= i < self.shape[0] and 0 <= j < self.shape[1]):
                raise XRaise("ValueError", f"index ({i}, {j}) out of the matrix shape {self.shape}")
        self.entries = e

    # ---- views of the storage -------------------------------------------------------------------------------------
    def _keys(self):
        return sorted(k for k, v in self.entries.items())

    @property
    def nnz(self):
        return len(self.entries)

    @property
    def data(self):
        return XArray((self.nnz,), [self.entries[k] for k in self._keys()])

    @property
    def indices(self):
        return XArray((self.nnz,), [j for _, j in self._keys()], "i")

    @property
    def indptr(self):
        ptr, keys = [0], self._keys()
        for i in range(self.shape[0]):
            ptr.append(ptr[-1] + sum(1 for a, _ in keys if a == i))
        return XArray((len(ptr),), ptr, "i")

    @property
    def T(self):
        out = XSp((self.shape[1], self.shape[0]))
        out.entries = {(j, i): v for (i, j), v in self.entries.items()}
        return out

    def transpose(self):
        return self.T

    @property
    def ndim(self):
        return 2

    @property
    def size(self):
        return self.nnz

    has_canonical_format = True

    def sort_indices(self):
        return None

    def sum_duplicates(self):
        return None

    def eliminate_zeros(self):
        self.entries = {k: v for k, v in self.entries.items() if not _iszero(v)}

    def tolil(self, copy=False):
        return self

    def tocsr(self, copy=False):
        return self

    def tocsc(self, copy=False):
        return self

    def tocoo(self, copy=False):
        return self

    def asformat(self, *a, **k):
        return self

    def copy(self):
        return XSp(self)

    def astype(self, *a, **k):
        return XSp(self)

    def toarray(self):
        return XArray(self.shape, [self.entries.get((i, j), Fraction(0)) for i in range(self.shape[0]) for j in range(self.shape[1])])

    todense = toarray

    def diagonal(self):
        n = min(self.shape)
        return XArray((n,), [self.entries.get((i, i), Fraction(0)) for i in range(n)])

    def nonzero(self):
        keys = sorted(k for k, v in self.entries.items() if not _iszero(v))
        return XArray((len(keys),), [i for i, _ in keys], "i"), XArray((len(keys),), [j for _, j in keys], "i")

    def count_nonzero(self):
        return sum(1 for v in self.entries.values() if not _iszero(v))

    # ---- indexing -------------------------------------------------------------------------------------------------
    def __getitem__(self, key):
        from .xeval import XRaise

        if not isinstance(key, tuple):
            key = (key, slice(None))
        ri, ci = key
        scalar_r, scalar_c = isinstance(ri, (int, Fraction)), isinstance(ci, (int, Fraction))
        rows, cols = _ints(ri, self.shape[0]), _ints(ci, self.shape[1])
        for idx, n in ((rows, self.shape[0]), (cols, self.shape[1])):
            for k in idx:
                if not -n <= k < n:
                    raise XRaise("IndexError", f"index {k} out of range")
        rows = [r % self.shape[0] for r in rows]
        cols = [c % self.shape[1] for c in cols]
        if scalar_r and scalar_c:
            return self.entries.get((rows[0], cols[0]), Fraction(0))
        if not isinstance(ri, slice) and not isinstance(ci, slice) and not scalar_r and not scalar_c:
            # A[rows, cols] with two index arrays: element-wise pairs (numpy fancy indexing)
            a, b = XArray.from_nested(ri), XArray.from_nested(ci)
            if a.ndim == 1 and b.ndim == 1:
                if len(rows) != len(cols):
                    raise XRaise("IndexError", "shape mismatch: indexing arrays could not be broadcast together")
                return XArray((1, len(rows)), [self.entries.get((r, c), Fraction(0)) for r, c in zip(rows, cols)])
        out = XSp((len(rows), len(cols)))
        rmap, cmap = {}, {}
        for k, r in enumerate(rows):
            rmap.setdefault(r, []).append(k)
        for k, c in enumerate(cols):
            cmap.setdefault(c, []).append(k)
        for (i, j), v in self.entries.items():
            if i in rmap and j in cmap:
                for a in rmap[i]:
                    for b in cmap[j]:
                        out.entries[(a, b)] = v
        return out

    def __setitem__(self, key, value):
        if not isinstance(key, tuple):
            key = (key, slice(None))
        ri, ci = key
        rows, cols = _ints(ri, self.shape[0]), _ints(ci, self.shape[1])
        two_arrays = not isinstance(ri, (slice, int, Fraction)) and not isinstance(ci, (slice, int, Fraction))
        if isinstance(value, XSp):
            value = value.toarray()
        if isinstance(value, (list, tuple, XArray)):
            va = XArray.from_nested(value)
        else:
            va = None
        if two_arrays and len(rows) == len(cols) and XArray.from_nested(ri).ndim == 1:
            pairs = list(zip(rows, cols))
            vals = list(va.data) if va is not None and va.size == len(pairs) else [value if va is None else va.data[0]] * len(pairs)
            for (r, c), v in zip(pairs, vals):
                self._put(r, c, v)
            return
        n = len(rows) * len(cols)
        if va is None:
            vals = [value] * n
        elif va.size == n:
            vals = list(va.data)
        elif va.size == len(cols):
            vals = list(va.data) * len(rows)
        elif va.size == 1:
            vals = [va.data[0]] * n
        else:
            raise AnalysisError(f"sparse store of {va.shape} into a block {len(rows)} x {len(cols)} is not modelled")
        k = 0
        for r in rows:
            for c in cols:
                self._put(r, c, vals[k])
                k += 1

    def _put(self, r, c, v):
        r %= self.shape[0]
        c %= self.shape[1]
        v = _ex(v)
        if _iszero(v):
            self.entries.pop((r, c), None)
        else:
            self.entries[(r, c)] = v

    # ---- arithmetic -----------------------------------------------------------------------------------------------
    def _lin(self, o, sign):
        from .xeval import XRaise

        if isinstance(o, XSp):
            if o.shape != self.shape:
                raise XRaise("ValueError", f"inconsistent shapes {self.shape} and {o.shape}")
            out = XSp(self)
            for k, v in o.entries.items():
                w = out.entries.get(k, 0) + sign * v
                if _iszero(w):
                    out.entries.pop(k, None)
                else:
                    out.entries[k] = w
            return out
        if isinstance(o, (int, Fraction)) and o == 0:
            return XSp(self)
        if isinstance(o, XArray):
            a = self.toarray()
            return a + o if sign == 1 else a - o
        return NotImplemented

    def __add__(self, o):
        return self._lin(o, 1)

    def __radd__(self, o):
        return self._lin(o, 1)

    def __sub__(self, o):
        return self._lin(o, -1)

    def __rsub__(self, o):
        r = (-self)._lin(o, 1)
        return r

    def __neg__(self):
        out = XSp(self.shape)
        out.entries = {k: -v for k, v in self.entries.items()}
        return out

    def _scale(self, c):
        c = _ex(c)
        if isinstance(c, XArray):
            if c.size == 1:
                c = c.data[0]
            else:
                raise AnalysisError("element-wise product of a sparse matrix and an array is not modelled")
        out = XSp(self.shape)
        if not _iszero(c):
            out.entries = {k: v * c for k, v in self.entries.items()}
        return out

    def __mul__(self, o):
        if isinstance(o, XSp):
            return self @ o
        if isinstance(o, XArray) and o.size > 1:
            return self @ o
        return self._scale(o)

    def __rmul__(self, o):
        return self._scale(o)

    def multiply(self, o):
        if isinstance(o, XSp):
            out = XSp(self.shape)
            out.entries = {k: v * o.entries[k] for k, v in self.entries.items() if k in o.entries}
            return out
        return self._scale(o)

    def __truediv__(self, o):
        c = _ex(o)
        out = XSp(self.shape)
        out.entries = {k: v / c for k, v in self.entries.items()}
        return out

    def __matmul__(self, o):
        from .xeval import XRaise

        if isinstance(o, XSp):
            if self.shape[1] != o.shape[0]:
                raise XRaise("ValueError", f"dimension mismatch {self.shape} @ {o.shape}")
            out = XSp((self.shape[0], o.shape[1]))
            byrow = {}
            for (k, j), w in o.entries.items():
                byrow.setdefault(k, []).append((j, w))
            for (i, k), v in self.entries.items():
                for j, w in byrow.get(k, ()):
                    out.entries[(i, j)] = out.entries.get((i, j), 0) + v * w
            out.eliminate_zeros()
            return out
        a = XArray.from_nested(o)
        if a.shape[0] != self.shape[1]:
            raise XRaise("ValueError", f"dimension mismatch {self.shape} @ {a.shape}")
        if a.ndim == 1:
            res = [Fraction(0)] * self.shape[0]
            for (i, j), v in self.entries.items():
                res[i] = res[i] + v * a.data[j]
            return XArray((self.shape[0],), res)
        m = a.shape[1]
        res = [Fraction(0)] * (self.shape[0] * m)
        for (i, j), v in self.entries.items():
            for c in range(m):
                res[i * m + c] = res[i * m + c] + v * a[j, c]
        return XArray((self.shape[0], m), res)

    def dot(self, o):
        return self @ o

    def __rmatmul__(self, o):
        a = XArray.from_nested(o)
        if a.ndim == 1:
            return self.T @ a
        return (self.T @ a.T).T

    def sum(self, axis=None):
        if axis is None:
            return sum(self.entries.values(), Fraction(0))
        n = self.shape[1 - axis]
        res = [Fraction(0)] * n
        for (i, j), v in self.entries.items():
            k = j if axis == 0 else i
            res[k] = res[k] + v
        return XArray((1, n) if axis == 0 else (n, 1), res)

    def max(self):
        vals = list(self.entries.values())
        if len(vals) < self.shape[0] * self.shape[1]:
            vals.append(Fraction(0))
        return max(vals)

    def __abs__(self):
        out = XSp(self.shape)
        out.entries = {k: abs(v) for k, v in self.entries.items()}
        return out

    def __repr__(self):
        return f"<XSp {self.shape} nnz={self.nnz}>"


# ---- module-level functions --------------------------------------------------------------------------------------
def eye(n, m=None, k=0, dtype=None, format=None):
    n = int(_ex(n))
    m = n if m is None else int(_ex(m))
    out = XSp((n, m))
    for i in range(n):
        if 0 <= i + k < m:
            out.entries[(i, i + k)] = Fraction(1)
    return out


def diags(d, offsets=0, shape=None, format=None, dtype=None):
    a = XArray.from_nested(d)
    if a.ndim != 1 or offsets != 0:
        raise AnalysisError("sparse.diags: only one main diagonal is modelled")
    n = a.shape[0]
    out = XSp((n, n) if shape is None else tuple(shape))
    for i, v in enumerate(a.data):
        if not _iszero(v):
            out.entries[(i, i)] = v
    return out


def _as_sp(b):
    return b if isinstance(b, XSp) else XSp(b)


def vstack(blocks, format=None, dtype=None):
    from .xeval import XRaise

    blocks = [_as_sp(b) for b in blocks]
    m = blocks[0].shape[1]
    out, off = XSp((sum(b.shape[0] for b in blocks), m)), 0
    for b in blocks:
        if b.shape[1] != m:
            raise XRaise("ValueError", "incompatible dimensions for vstack")
        for (i, j), v in b.entries.items():
            out.entries[(i + off, j)] = v
        off += b.shape[0]
    return out


def hstack(blocks, format=None, dtype=None):
    return vstack([_as_sp(b).T for b in blocks]).T


def bmat(rows, format=None, dtype=None):
    out_rows = []
    for row in rows:
        ref = next(b for b in row if b is not None)
        nr = _as_sp(ref).shape[0]
        blocks = []
        for k, b in enumerate(row):
            if b is None:
                nc = next(_as_sp(r[k]).shape[1] for r in rows if r[k] is not None)
                b = XSp((nr, nc))
            blocks.append(b)
        out_rows.append(hstack(blocks))
    return vstack(out_rows)


def find(A):
    A = _as_sp(A)
    keys = sorted((k for k, v in A.entries.items() if not _iszero(v)), key=lambda k: (k[1], k[0]))
    return (XArray((len(keys),), [i for i, _ in keys], "i"), XArray((len(keys),), [j for _, j in keys], "i"), XArray((len(keys),), [A.entries[k] for k in keys]))


def issparse(x):
    return isinstance(x, XSp)


def _field(v):
    """entries as elements of a field (Fraction, or Rat over the symbols)"""
    v = _ex(v)
    if isinstance(v, (int, Fraction)):
        return Fraction(v)
    return v


def solve_dense(A, b):
    """Exact Gaussian elimination with pivoting on structural non-zeros.  ``A`` list of rows, ``b`` list (vector) or list of
    rows (several right-hand sides).  Raises ``SingularSystem`` when no pivot is left."""
    n = len(A)
    A = [[_field(v) for v in row] for row in A]
    multi = n > 0 and isinstance(b[0], list)
    B = [[_field(v) for v in (row if multi else [row])] for row in b]
    for c in range(n):
        p = next((r for r in range(c, n) if not _iszero(A[r][c])), None)
        if p is None:
            raise SingularSystem(f"no pivot in column {c}")
        A[c], A[p], B[c], B[p] = A[p], A[c], B[p], B[c]
        piv = A[c][c]
        for r in range(c + 1, n):
            if _iszero(A[r][c]):
                continue
            f = _div(A[r][c], piv)
            for k in range(c, n):
                if not _iszero(A[c][k]):
                    A[r][k] = A[r][k] - f * A[c][k]
            for k in range(len(B[r])):
                B[r][k] = B[r][k] - f * B[c][k]
    X = [[Fraction(0)] * len(B[0]) for _ in range(n)] if n else []
    for r in range(n - 1, -1, -1):
        for k in range(len(B[r])):
            s = B[r][k]
            for c in range(r + 1, n):
                if not _iszero(A[r][c]):
                    s = s - A[r][c] * X[c][k]
            X[r][k] = _ex(_div(s, A[r][r]))
    return X if multi else [row[0] for row in X]


def _div(a, b):
    if isinstance(a, Fraction) and isinstance(b, Fraction):
        return a / b
    if isinstance(b, Fraction):
        return a * (1 / b)
    return Rat.of(a) / Rat.of(b) if hasattr(Rat, "of") else a / b


class SingularSystem(AnalysisError):
    pass


def spsolve(A, b, **kw):
    from .xeval import XRaise

    A = _as_sp(A)
    n = A.shape[0]
    if A.shape[0] != A.shape[1]:
        raise XRaise("ValueError", f"matrix must be square (has shape {A.shape})")
    if isinstance(b, XSp):
        b = b.toarray()
    bb = XArray.from_nested(b)
    if bb.shape[0] != n:
        raise XRaise("ValueError", f"matrix - rhs dimension mismatch ({A.shape} - {bb.shape[0]})")
    vec = bb.ndim == 1 or (bb.ndim == 2 and bb.shape[1] == 1)
    dense = A.toarray()
    rows = [[dense[i, j] for j in range(n)] for i in range(n)]
    if vec:
        x = solve_dense(rows, list(bb.data))
        return XArray((n,), x)
    x = solve_dense(rows, [[bb[i, k] for k in range(bb.shape[1])] for i in range(n)])
    return XArray((n, bb.shape[1]), [v for row in x for v in row])


class _LU:
    """scipy.sparse.linalg.splu(A): a factorisation object; solve(b) returns the solution of A x = b (exact)"""

    _xeval_open = True

    def __init__(self, A, **kw):
        self.A = XSp(_as_sp(A))
        self.shape = self.A.shape

    def solve(self, b, trans="N"):
        return spsolve(self.A if trans == "N" else self.A.T, b)


def factorized(A):
    lu = _LU(A)
    return lambda b: lu.solve(b)


MODULE = {
    "csr_matrix": XSp,
    "csc_matrix": XSp,
    "coo_matrix": XSp,
    "lil_matrix": XSp,
    "csr_array": XSp,
    "eye": eye,
    "identity": eye,
    "diags": diags,
    "vstack": vstack,
    "hstack": hstack,
    "bmat": bmat,
    "find": find,
    "issparse": issparse,
    "isspmatrix": issparse,
    "linalg.spsolve": spsolve,
    "linalg.splu": _LU,
    "linalg.spilu": _LU,
    "linalg.factorized": factorized,
}


def sparse_hook(fn, args, kwargs):
    """call hook: ``scipy.sparse.<name>`` / ``scipy.sparse.linalg.<name>`` reached through any import alias"""
    from .xeval import Opaque

    if isinstance(fn, Opaque) and fn.tag.startswith("import:scipy.sparse"):
        name = fn.tag[len("import:scipy.sparse") :].lstrip(".")
        f = MODULE.get(name)
        if f is None and name.startswith("linalg."):
            f = MODULE.get(name)
        if f is not None:
            return f(*args, **kwargs)
    return NotImplemented
