"""E4 -- AST -> exact-algebra interpreter for the *table code* of the repository.

It reads straight-line arithmetic / table-building functions (shape-function
lambdas, quadrature tables, constitutive matrix literals, closed-form
determinants, time-scheme case tables) and produces exact values of ``sa.alg``
(Fraction, MQ, Poly, Rat, Lin) or ``XArray`` tables of them.  Anything outside
the grammar raises ``Uninterpretable`` with file:line -- the caller reports an
ANALYSIS-ERROR (exit 2), never a guessed verdict.

Control flow is followed only where the test folds to a constant on the given
environment (finite-domain constant propagation: enum members, literal ints,
strings).
"""

from __future__ import annotations

import ast
from fractions import Fraction
from types import SimpleNamespace

from .alg import MQ, Poly, Rat, Lin, AlgError, to_q, Q
from .xarray import XArray, XArrayError, einsum as x_einsum
from .repo import AnalysisError, dotted, ClassInfo, FuncInfo, ModuleInfo


class Uninterpretable(AnalysisError):
    def __init__(self, msg, node=None, file=None):
        self.node = node
        self.file = file
        loc = ""
        if node is not None and hasattr(node, "lineno"):
            loc = f"{file or '?'}:{node.lineno}: "
        super().__init__(f"{loc}{msg}")


class XRaise(Exception):
    """The interpreted code executed a ``raise`` statement."""

    def __init__(self, exc_name, msg=""):
        self.exc_name = exc_name
        self.msg = msg
        super().__init__(f"{exc_name}: {msg}")


class _Return(Exception):
    def __init__(self, value):
        self.value = value


class _Break(Exception):
    pass


class _Continue(Exception):
    pass


class Closure:
    """A lambda or def with its defining environment."""

    def __init__(self, node, env, interp, file, self_obj=None, finfo=None):
        self.node = node
        self.env = env
        self.interp = interp
        self.file = file
        self.self_obj = self_obj
        self.finfo = finfo

    def __call__(self, *args, **kwargs):
        return self.interp.call_closure(self, list(args), dict(kwargs))

    def __repr__(self):
        return f"<closure {getattr(self.node, 'name', 'lambda')} {self.file}:{self.node.lineno}>"


class XObj:
    """Instance of a repository class (``self``) with explicit attributes."""

    def __init__(self, cls: ClassInfo, attrs=None):
        self.cls = cls
        self.attrs = dict(attrs or {})

    def __repr__(self):
        return f"<XObj {self.cls.name}>"


class EnumVal:
    """Member of a str-Enum of the repository: compares equal to its value."""

    def __init__(self, cls: ClassInfo, name: str, value):
        self.cls, self.name, self.value = cls, name, value

    def __eq__(self, o):
        if isinstance(o, EnumVal):
            return self.cls is o.cls and self.name == o.name
        if isinstance(o, str) and isinstance(self.value, str):
            return self.value == o
        return NotImplemented

    def __hash__(self):
        return hash((self.cls.qualname, self.name)) if not isinstance(self.value, str) else hash(self.value)

    def __lt__(self, o):
        # (str, Enum) members order like their string values
        return str(self.value) < str(o.value if isinstance(o, EnumVal) else o)

    def __gt__(self, o):
        return str(self.value) > str(o.value if isinstance(o, EnumVal) else o)

    def __str__(self):
        return self.name

    def __repr__(self):
        return f"{self.cls.name}.{self.name}"

    # str-enum behaviours used by the repo
    def startswith(self, s):
        return str(self.value).startswith(str(s.value) if isinstance(s, EnumVal) else s)

    def __contains__(self, s):
        return s in self.value


class NpModule:
    pass


NP = NpModule()


class Opaque:
    """A value the interpreter carries around without looking inside."""

    def __init__(self, tag):
        self.tag = tag

    def __repr__(self):
        return f"<opaque {self.tag}>"


IMAG = Poly.var("__I__")


def cx_parts(v):
    """(real, imaginary) parts of a value written with the formal imaginary unit IMAG, powers reduced by I^2 = -1"""
    v = exact(v)
    if isinstance(v, XArray):
        parts = [cx_parts(x) for x in v.data]
        return XArray(v.shape, [p[0] for p in parts]), XArray(v.shape, [p[1] for p in parts])
    if not isinstance(v, Poly):
        return v, Q(0)
    re, im = Poly(), Poly()
    k, cur = 0, v
    while True:
        c0 = cur.subs({"__I__": Poly()})
        if k % 4 == 0:
            re = re + c0
        elif k % 4 == 1:
            im = im + c0
        elif k % 4 == 2:
            re = re - c0
        else:
            im = im - c0
        cur = cur.diff("__I__")
        k += 1
        if cur.is_zero() if hasattr(cur, "is_zero") else not cur.t:
            break
        # d/dI of c_k I^k is k c_k I^(k-1): divide the running factorial out
        cur = cur * Q(1, k)
    return re, im


def is_complex_value(v):
    v = exact(v)
    if isinstance(v, XArray):
        return v.dtype == "c" or any(is_complex_value(x) for x in v.data)
    return isinstance(v, Poly) and "__I__" in v.vars()


class PiMul:
    """q . pi with q rational: angles of the Chebyshev / Clenshaw-Curtis constructions.  Closed under + - and scaling by
    rationals; cos / sin are exact (multi-quadratic) for denominators 1, 2, 3, 4, 5, 6, 10, 12."""

    _xeval_open = True

    def __init__(self, q):
        self.q = Fraction(q)

    def _sc(self, o):
        o = exact(o)
        if isinstance(o, (int, Fraction)) and not isinstance(o, bool):
            return PiMul(self.q * o)
        if isinstance(o, Poly) and o.is_const():
            return PiMul(self.q * o.const_value())
        return NotImplemented

    __mul__ = __rmul__ = _sc

    def __truediv__(self, o):
        o = exact(o)
        if isinstance(o, (int, Fraction)) and not isinstance(o, bool):
            return PiMul(self.q / o)
        return NotImplemented

    def __add__(self, o):
        return PiMul(self.q + o.q) if isinstance(o, PiMul) else NotImplemented

    def __sub__(self, o):
        return PiMul(self.q - o.q) if isinstance(o, PiMul) else NotImplemented

    def __neg__(self):
        return PiMul(-self.q)

    def __repr__(self):
        return f"{self.q}*pi"

    _PI_LO, _PI_HI = Fraction(314159265358979, 10**14), Fraction(314159265358980, 10**14)

    def _cmp(self, o):
        """-1 / 0 / +1 for self vs o (a PiMul or a rational); undecided inside the interval of pi is an error"""
        if isinstance(o, PiMul):
            d = self.q - o.q
            return (d > 0) - (d < 0)
        o = exact(o)
        if isinstance(o, Poly) and o.is_const():
            o = o.const_value()
        if isinstance(o, MQ) and o.is_rational():
            o = o.rational()
        if not isinstance(o, (int, Fraction)) or isinstance(o, bool):
            raise TypeError("comparison of a multiple of pi with a non-number")
        if self.q == 0:
            return (0 > o) - (0 < o)
        lo, hi = sorted((self.q * self._PI_LO, self.q * self._PI_HI))
        if o < lo:
            return 1
        if o > hi:
            return -1
        raise AlgError("comparison of a multiple of pi with a number inside the error interval of pi")

    def __eq__(self, o):
        try:
            return self._cmp(o) == 0
        except (TypeError, AlgError):
            return False

    def __hash__(self):
        return hash(("pi", self.q))

    def __lt__(self, o):
        return self._cmp(o) < 0

    def __le__(self, o):
        return self._cmp(o) <= 0

    def __gt__(self, o):
        return self._cmp(o) > 0

    def __ge__(self, o):
        return self._cmp(o) >= 0

    def __rsub__(self, o):
        return NotImplemented

    def cos(self):
        q = self.q % 2  # cos is 2 pi periodic
        if q > 1:
            q = 2 - q  # cos(2 pi - t) = cos t
        sign = 1
        if q > Fraction(1, 2):
            q, sign = 1 - q, -1  # cos(pi - t) = -cos t
        s = MQ.sqrt
        table = {
            Fraction(0): MQ.of(1), Fraction(1, 2): MQ.of(0), Fraction(1, 3): MQ.of(Fraction(1, 2)), Fraction(1, 4): s(2) * Fraction(1, 2), Fraction(1, 6): s(3) * Fraction(1, 2),
            Fraction(1, 5): (MQ.of(1) + s(5)) * Fraction(1, 4), Fraction(2, 5): (s(5) - MQ.of(1)) * Fraction(1, 4),
            Fraction(1, 12): (s(6) + s(2)) * Fraction(1, 4), Fraction(5, 12): (s(6) - s(2)) * Fraction(1, 4),
        }
        if q not in table:
            raise AlgError(f"cos({self.q} pi) is outside the exact (multi-quadratic) domain")
        v = table[q] * sign
        return v.rational() if v.is_rational() else v

    def sin(self):
        return PiMul(Fraction(1, 2) - self.q).cos()


class Sink:
    """Absorbs attribute access and calls (timers, loggers, printers)."""

    def __getattr__(self, name):
        return self

    def __call__(self, *a, **k):
        return self

    def __repr__(self):
        return "<sink>"


def _is_num(x):
    return isinstance(x, (int, float, Fraction, MQ, Poly, Rat, Lin)) and not isinstance(x, bool)


def exact(x):
    """Floats become exact rationals as soon as they enter arithmetic."""
    if isinstance(x, float):
        return to_q(x)
    if isinstance(x, Rat) and x.d.is_const() and x.n.is_const():
        return x.n.const_value() / x.d.const_value()  # a number that went through rational-function arithmetic
    return x


class Interp:
    MAX_DEPTH = 40

    def __init__(self, repo, number=None, extra_builtins=None, max_steps=5_000_000):
        self.repo = repo
        _ENUM_REPO[0] = repo
        self.extra = dict(extra_builtins or {})
        self.depth = 0
        self.steps = 0
        self.max_steps = max_steps
        self.trace_funcs = set()  # qualnames interpreted (evidence)
        self.approx_literals = []  # (file, line, text) float literals with >= 10 significant digits
        self.attr_hook = None  # f(obj, attr) -> value or NotImplemented
        self.call_hook = None  # f(name, args, kwargs) -> value or NotImplemented
        self.super_hook = None  # f(cls, selfobj, method, args, kwargs) for super() calls on a non-XObj self

    # ------------------------------------------------------------------
    # entry points
    def call_function(self, finfo: FuncInfo, args=(), kwargs=None, self_obj=None):
        clo = Closure(finfo.node, {}, self, finfo.file, self_obj=self_obj, finfo=finfo)
        a = list(args)
        if self_obj is not None and not finfo.is_static():
            a = [self_obj] + a
        return self.call_closure(clo, a, dict(kwargs or {}))

    def run_statements(self, stmts, env, mi, returns, cls=None, name="_fragment"):
        """Interpret a list of statements taken from a function of module `mi`
        (class `cls`) in the environment `env`; returns the values of the names in
        `returns`."""
        import copy as _copy

        ret = ast.Return(value=ast.Tuple(elts=[ast.Name(id=n, ctx=ast.Load()) for n in returns], ctx=ast.Load()))
        fn = ast.FunctionDef(name=name, args=ast.arguments(posonlyargs=[], args=[ast.arg(arg=k) for k in env], kwonlyargs=[], kw_defaults=[], defaults=[]), body=list(stmts) + [ret], decorator_list=[], returns=None, type_comment=None)
        if hasattr(fn, "type_params"):
            fn.type_params = []
        ast.fix_missing_locations(fn)
        for n in ast.walk(fn):
            if not hasattr(n, "lineno"):
                n.lineno = getattr(stmts[0], "lineno", 0)
        finfo = FuncInfo(f"{mi.name}.{name}", mi, cls, fn, [])
        clo = Closure(fn, {}, self, mi.relpath, finfo=finfo)
        return self.call_closure(clo, list(env.values()), {})

    def module_env(self, mi: ModuleInfo):
        return _ModEnv(self, mi)

    def eval_expr(self, node, env, file="?", mi=None):
        fr = _Frame(self, env, file, mi, None)
        return fr.ev(node)

    def descriptor_for(self, ci, name):
        """opt-in (model_descriptors): the data descriptor object behind the class attribute `name` (a class-level
        `name = SomeClass(...)` whose class defines __set__), built once per class attribute by interpreting its constructor
        and __set_name__; None when the attribute is not a descriptor"""
        cache = self.__dict__.setdefault("_descriptors", {})
        ce, owner = self.repo.class_attr(ci, name)
        if ce is None or not isinstance(ce, ast.Call):
            return None
        key = (owner.qualname, name)
        if key in cache:
            return cache[key]
        cache[key] = None
        try:
            fr = self.class_frame(owner, ce)
            cls = fr.ev(ce.func)
        except Uninterpretable:
            return None
        if not isinstance(cls, ClassInfo) or self.repo.lookup_method(cls, "__set__") is None:
            return None
        desc = XObj(cls, {})
        init = self.repo.lookup_method(cls, "__init__")
        fr = self.class_frame(owner, ce)
        args = [fr.ev(a) for a in ce.args]
        kwargs = {k.arg: fr.ev(k.value) for k in ce.keywords}
        if init is not None:
            self.call_function(init, args, kwargs, self_obj=desc)
        sn = self.repo.lookup_method(cls, "__set_name__")
        if sn is not None:
            self.call_function(sn, [owner, name], {}, self_obj=desc)
        cache[key] = desc
        return desc

    def class_frame(self, owner, node=None):
        """the value of a class-level assignment; bare names in it that are sibling class attributes (a table derived from
        another table of the class body) resolve to those attributes"""
        interp = self

        class _ClassEnv:
            def get(self_, name):
                ce, own = interp.repo.class_attr(owner, name)
                if ce is None or ce is node:
                    # a function defined earlier in the class body, referred to by its bare name (`partialmethod(__check)`)
                    for nm in (name, owner.mangle(name) if name.startswith("__") and not name.endswith("__") else name):
                        f = owner.methods.get(nm)
                        if f is not None:
                            return f
                    nc = interp.repo.nested_class(owner, name)
                    if nc is not None:
                        return nc
                    raise KeyError(name)
                return interp.eval_class_attr(own, ce)

        return _Frame(self, _ChainEnv({}, _ClassEnv()), owner.file, owner.module, None)

    def eval_class_attr(self, owner, node):
        # a class-level container literal is ONE object shared by every instance for the life of the program (of this
        # interpreter): an entry stored through one instance is seen through the next
        if isinstance(node, (ast.Dict, ast.List, ast.Set)):
            memo = self.__dict__.setdefault("_class_literals", {})
            key = (owner.qualname, id(node))
            if key not in memo:
                memo[key] = self.class_frame(owner, node).ev(node)
            return memo[key]
        return self.class_frame(owner, node).ev(node)

    # ------------------------------------------------------------------
    def call_closure(self, clo: Closure, args, kwargs):
        self.depth += 1
        if self.depth > self.MAX_DEPTH:
            self.depth -= 1
            raise Uninterpretable("call depth exceeded", clo.node, clo.file)
        try:
            node = clo.node
            a = node.args
            names = [x.arg for x in a.posonlyargs + a.args]
            env = {}
            if len(args) > len(names) and a.vararg is None:
                raise Uninterpretable(f"too many positional arguments for {getattr(node, 'name', 'lambda')}", node, clo.file)
            for n, v in zip(names, args):
                env[n] = v
            if a.vararg is not None:
                env[a.vararg.arg] = tuple(args[len(names) :])
            if a.kwarg is not None:
                env[a.kwarg.arg] = {}
            kwonly = [x.arg for x in a.kwonlyargs]
            for k, v in kwargs.items():
                if k in names or k in kwonly:
                    if k in env:
                        raise Uninterpretable(f"duplicate argument {k}", node, clo.file)
                    env[k] = v
                elif a.kwarg is not None:
                    env.setdefault(a.kwarg.arg, {})[k] = v
                else:
                    raise Uninterpretable(f"unexpected keyword {k}", node, clo.file)
            mi = clo.finfo.module if clo.finfo is not None else getattr(clo, "mi", None)
            outer = _ChainEnv(env, clo.env)
            fr = _Frame(self, outer, clo.file, mi, clo)
            # defaults
            def _default(d):
                # defaults are evaluated where the function is DEFINED: for a method, names of the class body are in scope
                try:
                    return fr.ev(d)
                except Uninterpretable:
                    if clo.finfo is not None and clo.finfo.cls is not None:
                        return self.class_frame(clo.finfo.cls, d).ev(d)
                    raise

            nd = len(a.defaults)
            for i, d in enumerate(a.defaults):
                n = names[len(names) - nd + i]
                if n not in env:
                    env[n] = _default(d)
            for n, d in zip(kwonly, a.kw_defaults):
                if n not in env and d is not None:
                    env[n] = _default(d)
            for n in names + kwonly:
                if n not in env:
                    raise Uninterpretable(f"missing argument {n} for {getattr(node, 'name', 'lambda')}", node, clo.file)
            if isinstance(node, ast.Lambda):
                return fr.ev(node.body)
            if clo.finfo is not None:
                self.trace_funcs.add(clo.finfo.qualname)
            try:
                fr.run_block(node.body)
            except _Return as r:
                return r.value
            return None
        finally:
            self.depth -= 1


class _ChainEnv:
    def __init__(self, local, outer):
        self.local = local
        self.outer = outer

    def get(self, name):
        if name in self.local:
            return self.local[name]
        if self.outer is None:
            raise KeyError(name)
        if isinstance(self.outer, dict):
            return self.outer[name]
        return self.outer.get(name)

    def has(self, name):
        try:
            self.get(name)
            return True
        except KeyError:
            return False

    def set(self, name, value):
        self.local[name] = value


class _ModEnv:
    """Names of a module: classes, functions, imports, module-level literals."""

    def __init__(self, interp, mi):
        self.interp = interp
        self.mi = mi

    def get(self, name):
        raise KeyError(name)


_BUILTIN_NAMES = {}


class _Frame:
    def __init__(self, interp: Interp, env, file, mi, clo):
        self.I = interp
        self.env = env if isinstance(env, _ChainEnv) else _ChainEnv(env if isinstance(env, dict) else {}, None)
        self.file = file
        self.mi = mi
        self.clo = clo

    # -- helpers --------------------------------------------------------
    def bad(self, msg, node):
        return Uninterpretable(msg, node, self.file)

    def tick(self, node):
        self.I.steps += 1
        if self.I.steps > self.I.max_steps:
            raise self.bad("step budget exceeded", node)

    # -- statements -----------------------------------------------------
    def run_block(self, body):
        for st in body:
            self.run(st)

    def run(self, st):
        self.tick(st)
        m = getattr(self, "s_" + type(st).__name__, None)
        if m is None:
            raise self.bad(f"statement {type(st).__name__} outside the interpreter grammar", st)
        return m(st)

    def s_Pass(self, st):
        pass

    def s_Expr(self, st):
        if isinstance(st.value, ast.Constant):
            return  # docstring
        self.ev(st.value)

    def s_Return(self, st):
        raise _Return(self.ev(st.value) if st.value is not None else None)

    def s_Raise(self, st):
        name, msg = "Exception", ""
        if st.exc is not None:
            e = st.exc
            if isinstance(e, ast.Call):
                name = dotted(e.func) or "Exception"
                if e.args and isinstance(e.args[0], ast.Constant):
                    msg = str(e.args[0].value)
            else:
                name = dotted(e) or "Exception"
        raise XRaise(name, msg)

    def s_Assert(self, st):
        try:
            ok = self.ev(st.test)
        except Uninterpretable:
            return  # assertions about runtime shapes/types are outside the tables
        if isinstance(ok, (bool, int)) and not ok:
            raise XRaise("AssertionError", ast.unparse(st.test))

    def s_Import(self, st):
        pass

    def s_ImportFrom(self, st):
        pass

    def s_Assign(self, st):
        v = self.ev(st.value)
        for t in st.targets:
            self.assign(t, v)

    def s_AnnAssign(self, st):
        if st.value is not None:
            self.assign(st.target, self.ev(st.value))

    def s_AugAssign(self, st):
        cur = self.ev(_load(st.target))
        v = self.ev(st.value)
        try:
            res = self.binop(type(st.op), cur, v, st)
        except XArrayError as e:
            if "do not broadcast" in str(e):
                raise XRaise("ValueError", f"operands could not be broadcast together ({e})")
            raise
        if isinstance(cur, XArray) and isinstance(res, XArray) and res.shape == cur.shape and not isinstance(st.target, ast.Subscript) and not isinstance(st.op, ast.MatMult):
            # numpy semantics: `a += b` on an ndarray writes INTO a (every other name bound to that array sees the change)
            try:
                for x in res.data:
                    cur._check_kind(x)
            except XArrayError:
                raise
            flat = res.ravel().data if res.order is not None else res.data
            if cur.order is None:
                cur.data[:] = list(flat)
                self.assign(st.target, cur)
                return
        self.assign(st.target, res)

    def s_If(self, st):
        t = self.truth(self.ev(st.test), st.test)
        self.run_block(st.body if t else st.orelse)

    def s_For(self, st):
        it = self.ev(st.iter)
        if type(it) is list:
            # a Python list is iterated LIVE (by position): removing / inserting in the body shifts what the loop sees next,
            # exactly as in the program
            def live(lst):
                i = 0
                while i < len(lst):
                    yield lst[i]
                    i += 1
                    if i > 1_000_000:
                        raise self.bad("for loop bound exceeded", st)

            seq = live(it)
        else:
            try:
                seq = list(it)
            except TypeError:
                raise self.bad("for over a non-iterable value", st)
        for x in seq:
            self.assign(st.target, x)
            try:
                self.run_block(st.body)
            except _Break:
                break
            except _Continue:
                continue
        else:
            self.run_block(st.orelse)

    def s_While(self, st):
        n = 0
        while self.truth(self.ev(st.test), st.test):
            n += 1
            if n > 10000:
                raise self.bad("while loop bound exceeded", st)
            try:
                self.run_block(st.body)
            except _Break:
                break
            except _Continue:
                continue

    def s_Break(self, st):
        raise _Break()

    def s_Continue(self, st):
        raise _Continue()

    def s_FunctionDef(self, st):
        c = Closure(st, self.env, self.I, self.file)
        c.mi = self.mi
        v = c
        if getattr(self.I, "model_decorators", False) and st.decorator_list:
            # opt-in: a local function decorated with a class of the repository (`@BiLinearForm def f(u, v): ...`) or with a
            # function is what the decorator returns; functools.wraps and the like leave the function as it is
            for d in reversed(st.decorator_list):
                name = (dotted(d.func) if isinstance(d, ast.Call) else dotted(d)) or ""
                if name.split(".")[-1] in ("wraps", "staticmethod", "classmethod", "lru_cache", "cache"):
                    continue
                dv = self.ev(d)
                if isinstance(dv, (ClassInfo, Closure, FuncInfo, _Bound)):
                    v = self.call(dv, [v], {}, d)
        self.env.set(st.name, v)

    def s_With(self, st):
        for item in st.items:
            if item.optional_vars is not None:
                try:
                    v = self.ev(item.context_expr)
                except Uninterpretable:
                    v = Sink()
                self.assign(item.optional_vars, v)
        self.run_block(st.body)

    def s_Try(self, st):
        # the lazy-creation idiom `try: self.__x ... except AttributeError: self.__x = <initial>`: inside such a body a private
        # attribute the model does not hold yet does not exist yet (the program raises AttributeError there)
        lazy = any(h.type is not None and "AttributeError" in (dotted(h.type) or ast.unparse(h.type)) for h in st.handlers)
        if lazy:
            self.I.attr_try_depth = getattr(self.I, "attr_try_depth", 0) + 1
        try:
            try:
                self.run_block(st.body)
            finally:
                if lazy:
                    self.I.attr_try_depth -= 1
        except XRaise as e:
            for h in st.handlers:
                hn = dotted(h.type) if h.type is not None else None
                if hn is None or hn == e.exc_name or hn == "Exception":
                    self.run_block(h.body)
                    break
            else:
                raise
        else:
            self.run_block(st.orelse)
        finally:
            self.run_block(st.finalbody)

    def s_Delete(self, st):
        pass

    # -- assignment targets --------------------------------------------
    def assign(self, t, v):
        if isinstance(t, ast.Name):
            self.env.set(t.id, v)
        elif isinstance(t, (ast.Tuple, ast.List)):
            try:
                vals = list(v)
            except TypeError:
                raise self.bad("cannot unpack a non-sequence", t)
            star = [i for i, e in enumerate(t.elts) if isinstance(e, ast.Starred)]
            if star:
                i = star[0]
                n_after = len(t.elts) - i - 1
                for e, x in zip(t.elts[:i], vals[:i]):
                    self.assign(e, x)
                self.assign(t.elts[i].value, vals[i : len(vals) - n_after])
                for e, x in zip(t.elts[i + 1 :], vals[len(vals) - n_after :]):
                    self.assign(e, x)
                return
            if len(vals) != len(t.elts):
                raise self.bad(f"unpacking {len(vals)} values into {len(t.elts)} targets", t)
            for e, x in zip(t.elts, vals):
                self.assign(e, x)
        elif isinstance(t, ast.Subscript):
            obj = self.ev(t.value)
            key = self.ev_index(t.slice)
            try:
                obj[key] = exact_tree(v)
            except (XArrayError, IndexError, TypeError, KeyError) as e:
                raise self.bad(f"subscript store failed: {e}", t)
        elif isinstance(t, ast.Attribute):
            obj = self.ev(t.value)
            if isinstance(obj, XObj):
                name = self.mangle(obj, t.attr)
                if getattr(self.I, "model_descriptors", False) and not name.startswith("__"):
                    d = self.I.descriptor_for(obj.cls, name)
                    if d is not None:
                        self.I.call_function(self.I.repo.lookup_method(d.cls, "__set__"), [obj, v], {}, self_obj=d)
                        return
                setter = self.I.repo.lookup_setter(obj.cls, name) if name not in obj.attrs else None
                if setter is not None:
                    # a property with a setter is a data descriptor: the assignment runs the setter
                    # (an attribute the rule placed on the object itself stands in for the property and is simply replaced)
                    self.I.call_function(setter, [v], self_obj=obj)
                else:
                    obj.attrs[name] = v
            elif isinstance(obj, ClassInfo):
                # a class-level variable re-bound at run time (instance counters)
                self.I.__dict__.setdefault("_class_vars", {})[(obj.qualname, self._cv_key(obj, t.attr))] = v
            elif isinstance(obj, Closure):
                pass  # f.__name__ = ..., f.__doc__ = ...: metadata of a generated function
            elif getattr(type(obj), "_xeval_open", False):
                setattr(obj, t.attr, v)
            else:
                raise self.bad("attribute store on a non-object", t)
        else:
            raise self.bad(f"assignment target {type(t).__name__}", t)

    def mangle(self, obj, attr):
        if attr.startswith("__") and not attr.endswith("__") and self.clo is not None and self.clo.finfo is not None and self.clo.finfo.cls is not None:
            return self.clo.finfo.cls.mangle(attr)
        return attr

    # -- expressions ------------------------------------------------------
    def ev(self, node):
        self.tick(node)
        m = getattr(self, "e_" + type(node).__name__, None)
        if m is None:
            raise self.bad(f"expression {type(node).__name__} outside the interpreter grammar", node)
        try:
            return m(node)
        except (AlgError, XArrayError) as e:
            raise self.bad(f"{type(e).__name__}: {e}", node)
        except ZeroDivisionError as e:
            raise self.bad(f"division by zero: {e}", node)

    def truth(self, v, node):
        if isinstance(v, (bool, int, str, list, tuple, dict, set, frozenset, type(None))):
            return bool(v)
        if isinstance(v, (Fraction, MQ)):
            return v != 0
        if isinstance(v, EnumVal):
            return True
        if isinstance(v, XArray) and v.size == 1:
            # numpy: the truth of a one-entry array is the truth of its entry
            return self.truth(v.data[0], node)
        if isinstance(v, Poly) and v.is_const():
            return self.truth(v.const_value(), node)
        if getattr(type(v), "_xeval_truth", False):
            return bool(v)  # an analysis-side value that states its own truth (the rule that supplies it runs both ways)
        raise self.bad(f"branch condition does not fold to a constant ({type(v).__name__})", node)

    def e_Constant(self, n):
        v = n.value
        if isinstance(v, float):
            digits = repr(v).replace("-", "").replace(".", "").lstrip("0")
            if "e" not in digits and len(digits) >= 10:
                self.I.approx_literals.append((self.file, n.lineno, repr(v)))
            return to_q(v)
        if isinstance(v, complex):
            return Poly.const(to_q(v.real)) + IMAG * to_q(v.imag)  # the formal imaginary unit (I^2 = -1 on splitting)
        sl = getattr(self.I, "size_literal", None)
        if sl is not None and type(v) is int and not getattr(self, "_in_literal", 0):
            return sl(v)
        return v

    def e_Name(self, n):
        name = n.id
        try:
            return self.env.get(name)
        except KeyError:
            pass
        v = self.global_name(name, n)
        return v

    def global_name(self, name, n):
        if name in self.I.extra:
            return self.I.extra[name]
        if self.mi is not None:
            mi = self.mi
            if name in mi.classes:
                return mi.classes[name]
            if name in mi.functions:
                return mi.functions[name]
            if name in mi.imports:
                tgt = mi.imports[name]
                if tgt == "numpy":
                    return NP
                r = self.I.repo.resolve_name(mi, name)
                if r is not None:
                    return r
                return Opaque(f"import:{tgt}")
            if name in mi.assigns:
                return self.I.eval_expr(mi.assigns[name], {}, mi.relpath, mi)
        if name in _PY_BUILTINS:
            return _PY_BUILTINS[name]
        raise self.bad(f"unbound name {name}", n)

    def e_Tuple(self, n):
        return tuple(self.elts(n.elts))

    def e_List(self, n):
        return list(self.elts(n.elts))

    def e_Set(self, n):
        return set(self.elts(n.elts))

    def elts(self, elts):
        out = []
        for e in elts:
            if isinstance(e, ast.Starred):
                out.extend(self.ev(e.value))
            else:
                out.append(self.ev(e))
        return out

    def e_Dict(self, n):
        d = {}
        for k, v in zip(n.keys, n.values):
            if k is None:
                d.update(self.ev(v))
            else:
                d[self.ev(k)] = self.ev(v)
        return d

    def e_Lambda(self, n):
        c = Closure(n, self.env, self.I, self.file)
        c.mi = self.mi
        if self.clo is not None:
            c.finfo_outer = self.clo.finfo
        return c

    def e_IfExp(self, n):
        return self.ev(n.body) if self.truth(self.ev(n.test), n.test) else self.ev(n.orelse)

    def e_JoinedStr(self, n):
        out = []
        for v in n.values:
            if isinstance(v, ast.Constant):
                out.append(str(v.value))
            else:
                out.append(str(self.ev(v.value)))
        return "".join(out)

    def e_UnaryOp(self, n):
        v = self.ev(n.operand)
        if isinstance(n.op, ast.USub):
            return -exact(v)
        if isinstance(n.op, ast.UAdd):
            return exact(v)
        if isinstance(n.op, ast.Not):
            return not self.truth(v, n)
        if isinstance(n.op, ast.Invert) and getattr(type(v), "_xeval_open", False):
            return ~v
        if isinstance(n.op, ast.Invert) and isinstance(v, XArray) and all(isinstance(x, bool) for x in v.data):
            return XArray(v.shape, [not x for x in v.data])
        raise self.bad("unary operator", n)

    def e_BinOp(self, n):
        sl = getattr(self.I, "size_literal", None)
        if sl is not None and _literal_only(n):
            # a magnitude written in the source (block / buffer / batch size): re-interpreted at another scale
            v = self.binop(type(n.op), self.ev(n.left), self.ev(n.right), n)
            return sl(v) if type(v) is int else v
        try:
            return self.binop(type(n.op), self.ev(n.left), self.ev(n.right), n)
        except XArrayError as e:
            if "do not broadcast" in str(e):
                raise XRaise("ValueError", f"operands could not be broadcast together ({e})")  # numpy raises here too
            raise

    _DUNDER = {ast.Add: "add", ast.Sub: "sub", ast.Mult: "mul", ast.Div: "truediv", ast.MatMult: "matmul", ast.Pow: "pow"}

    def binop(self, op, a, b, n):
        a, b = exact(a), exact(b)
        if (isinstance(a, XObj) or isinstance(b, XObj)) and op in self._DUNDER:
            nm = self._DUNDER[op]
            if isinstance(a, XObj):
                f = self.I.repo.lookup_method(a.cls, f"__{nm}__")
                if f is not None:
                    return self.I.call_function(f, [b], self_obj=a)
            if isinstance(b, XObj):
                f = self.I.repo.lookup_method(b.cls, f"__r{nm}__")
                if f is not None:
                    return self.I.call_function(f, [a], self_obj=b)
            raise self.bad(f"operator {nm} is not defined by the operand classes", n)
        try:
            if op is ast.Add:
                return a + b
            if op is ast.Sub:
                return a - b
            if op is ast.Mult:
                return a * b
            if op is ast.Div:
                if isinstance(a, int) and isinstance(b, int) and not isinstance(a, bool):
                    return Q(a, b)
                return a / b
            if op is ast.Pow:
                if isinstance(a, int) and isinstance(b, int) and b < 0:
                    return Q(a) ** b
                if isinstance(b, Fraction) and b.denominator != 1:
                    if b == Q(1, 2):
                        return MQ.sqrt(a) if isinstance(a, (int, Fraction, MQ)) else a**b
                    if b == Q(-1, 2) and isinstance(a, (int, Fraction)):
                        return 1 / MQ.sqrt(a)
                    if isinstance(a, Poly) or getattr(type(a), "_xeval_open", False):
                        return a**b
                    if b.denominator == 2 and isinstance(a, (int, Fraction, MQ, XArray)):
                        # a ** (k/2) = sqrt(a) ** k  (exact when the square roots are in the multi-quadratic domain)
                        root = _np_sqrt(a)
                        k = b.numerator
                        if isinstance(root, XArray):
                            return XArray(root.shape, [(x ** k) if k >= 0 else 1 / (x ** -k) for x in root.data])
                        return root ** k if k >= 0 else 1 / (root ** -k)
                    raise self.bad(f"non-integer power {b}", n)
                if isinstance(a, Fraction) and isinstance(b, Fraction):
                    return a ** int(b)
                return a**b
            if op is ast.MatMult:
                try:
                    return a @ b
                except XArrayError as e:
                    if "shape mismatch" in str(e):
                        raise XRaise("ValueError", f"matmul: dimension mismatch ({e})")  # numpy raises here too
                    raise
            if op in (ast.FloorDiv, ast.Mod) and type(a) is int and type(b) is int and b == 0:
                # Python integers (sizes, lengths): the program itself raises here
                raise XRaise("ZeroDivisionError", "integer modulo by zero" if op is ast.Mod else "integer division or modulo by zero")
            if op is ast.FloorDiv:
                return a // b
            if op is ast.Mod:
                return a % b
            if op in (ast.LShift, ast.RShift) and type(a) is int and type(b) is int:
                if b < 0:
                    raise XRaise("ValueError", "negative shift count")
                return a << b if op is ast.LShift else a >> b
            if op in (ast.BitAnd, ast.BitOr, ast.BitXor, ast.Sub) and isinstance(a, (set, frozenset)) and isinstance(b, (set, frozenset)):
                return a & b if op is ast.BitAnd else a | b if op is ast.BitOr else a ^ b if op is ast.BitXor else a - b
            if op in (ast.BitAnd, ast.BitOr):
                comb = (lambda x, y: x and y) if op is ast.BitAnd else (lambda x, y: x or y)

                def bools(v):
                    vals = v.data if isinstance(v, XArray) else [v]
                    if not all(isinstance(x, bool) for x in vals):
                        raise TypeError("& / | of values that are not decided booleans")
                    return v

                a, b = bools(a), bools(b)
                if isinstance(a, XArray) or isinstance(b, XArray):
                    A = a if isinstance(a, XArray) else XArray((), [a])
                    B = b if isinstance(b, XArray) else XArray((), [b])
                    sh = XArray._bshape(A.shape, B.shape)
                    return XArray(sh, [comb(x, y) for x, y in zip(A.broadcast_to(sh).data, B.broadcast_to(sh).data)])
                return comb(a, b)
        except TypeError as e:
            raise self.bad(f"arithmetic on unsupported operands ({type(a).__name__}, {type(b).__name__}): {e}", n)
        raise self.bad(f"binary operator {op.__name__}", n)

    def e_BoolOp(self, n):
        if isinstance(n.op, ast.And):
            v = True
            for e in n.values:
                v = self.ev(e)
                if not self.truth(v, e):
                    return v
            return v
        v = False
        for e in n.values:
            v = self.ev(e)
            if self.truth(v, e):
                return v
        return v

    def e_Compare(self, n):
        left = self.ev(n.left)
        for op, r in zip(n.ops, n.comparators):
            right = self.ev(r)
            ok = self.cmp(op, left, right, n)
            if len(n.ops) == 1 and (isinstance(ok, XArray) or getattr(type(ok), "_xeval_open", False)):
                return ok  # element-wise / symbolic comparison: a mask, not a truth value
            if not ok:
                return False
            left = right
        return True

    def cmp(self, op, a, b, n):
        a, b = exact(a), exact(b)
        try:
            if isinstance(op, (ast.Eq, ast.NotEq)) and ((isinstance(a, XArray) and _is_num(b)) or (isinstance(b, XArray) and _is_num(a))):
                arr, sc = (a, b) if isinstance(a, XArray) else (b, a)
                want = isinstance(op, ast.Eq)
                return XArray(arr.shape, [(x == sc) is want if isinstance(x == sc, bool) else bool(x == sc) is want for x in arr.data])
            if isinstance(op, (ast.Eq, ast.NotEq)) and ((isinstance(a, XArray) and b is None) or (isinstance(b, XArray) and a is None)):
                # numpy: `array == None` is element-wise (object arrays pre-filled with None)
                arr = a if isinstance(a, XArray) else b
                want = isinstance(op, ast.Eq)
                return XArray(arr.shape, [(x is None) is want for x in arr.data])
            if isinstance(op, (ast.Eq, ast.NotEq)) and isinstance(a, XArray) and isinstance(b, XArray):
                # numpy: elementwise, operands broadcast together
                sh = XArray._bshape(a.shape, b.shape)
                want = isinstance(op, ast.Eq)
                return XArray(sh, [bool(exact(x) == exact(y)) is want for x, y in zip(a.broadcast_to(sh).data, b.broadcast_to(sh).data)])
            if isinstance(op, ast.Eq):
                return a == b
            if isinstance(op, ast.NotEq):
                return not (a == b)
            if isinstance(op, ast.Lt):
                return a < b
            if isinstance(op, ast.LtE):
                return a <= b
            if isinstance(op, ast.Gt):
                return a > b
            if isinstance(op, ast.GtE):
                return a >= b
            if isinstance(op, (ast.In, ast.NotIn)):
                if isinstance(b, EnumVal):
                    b = b.value
                if isinstance(a, EnumVal) and isinstance(b, str):
                    a = a.value
                if getattr(type(b), "_xeval_open", False) and hasattr(type(b), "__contains__"):
                    res = bool(b.__contains__(a))  # an analysis-side container decides membership itself
                else:
                    res = any(a == x for x in b) if not isinstance(b, (str, dict)) else a in b
                return res if isinstance(op, ast.In) else not res
            if isinstance(op, ast.Is):
                if isinstance(a, EnumVal) and isinstance(b, EnumVal):
                    return a == b
                if isinstance(a, _NpAttr) and isinstance(b, _NpAttr):
                    return a == b
                return a is b
            if isinstance(op, ast.IsNot):
                if isinstance(a, EnumVal) and isinstance(b, EnumVal):
                    return not (a == b)
                if isinstance(a, _NpAttr) and isinstance(b, _NpAttr):
                    return not (a == b)
                return a is not b
        except TypeError as e:
            raise self.bad(f"comparison of unsupported operands: {e}", n)
        raise self.bad("comparison operator", n)

    def e_ListComp(self, n):
        return list(self.comp(n.elt, n.generators))

    def e_GeneratorExp(self, n):
        return list(self.comp(n.elt, n.generators))

    def e_SetComp(self, n):
        return set(self.comp(n.elt, n.generators))

    def e_DictComp(self, n):
        out = {}
        for k, v in self.comp(ast.Tuple(elts=[n.key, n.value], ctx=ast.Load()), n.generators):
            out[k] = v
        return out

    def comp(self, elt, gens):
        sub = _Frame(self.I, _ChainEnv({}, self.env), self.file, self.mi, self.clo)

        def rec(i):
            if i == len(gens):
                yield sub.ev(elt)
                return
            g = gens[i]
            for x in list(sub.ev(g.iter)):
                sub.assign(g.target, x)
                if all(sub.truth(sub.ev(c), c) for c in g.ifs):
                    yield from rec(i + 1)

        return rec(0)

    def ev_index(self, s):
        if isinstance(s, ast.Tuple):
            return tuple(self.ev_index(e) for e in s.elts)
        if isinstance(s, ast.Slice):
            f = lambda x: None if x is None else _as_int(self.ev(x), self, x)
            return slice(f(s.lower), f(s.upper), f(s.step))
        v = self.ev(s)
        return v

    def e_Slice(self, n):
        return self.ev_index(n)

    def e_Subscript(self, n):
        obj = self.ev(n.value)
        key = self.ev_index(n.slice)
        if isinstance(obj, (Opaque, ClassInfo)):
            return obj  # typing subscripts such as list[int]
        if isinstance(key, Fraction) and key.denominator == 1:
            key = int(key)
        try:
            if isinstance(obj, (list, tuple, str)) and isinstance(key, (list, XArray)):
                return [obj[int(k)] for k in key]
            return obj[key]
        except (IndexError, KeyError, TypeError, XArrayError) as e:
            if isinstance(e, KeyError) and isinstance(obj, dict):
                raise XRaise("KeyError", str(e))  # a missing key of a plain dict: the program itself raises here
            if isinstance(e, IndexError) and isinstance(obj, (list, tuple, str)) and isinstance(key, int):
                raise XRaise("IndexError", str(e))
            raise self.bad(f"subscript failed: {type(e).__name__}: {e}", n)

    def e_Starred(self, n):
        raise self.bad("starred expression", n)

    def e_Attribute(self, n):
        if isinstance(n.value, ast.Call) and dotted(n.value.func) == "super" and not n.value.args:
            # super().prop / super().method (not called here)
            if self.clo is None or self.clo.finfo is None or self.clo.finfo.cls is None:
                raise self.bad("super() outside a method", n)
            selfobj = self.env.get("self")
            if not isinstance(selfobj, XObj):
                raise self.bad("super() without a modelled self", n)
            f = self.I.repo.lookup_method(selfobj.cls, n.attr, start_after=self.clo.finfo.cls)
            if f is None:
                raise self.bad(f"super().{n.attr} not found", n)
            if f.is_property():
                return self.I.call_function(f, [], self_obj=selfobj)
            return _Bound(self.I, f, selfobj)
        obj = self.ev(n.value)
        return self.getattr(obj, n.attr, n)

    def getattr(self, obj, attr, n):
        if self.I.attr_hook is not None:
            r = self.I.attr_hook(obj, attr)
            if r is not NotImplemented:
                return r
        if obj is NP:
            if attr == "newaxis":
                return None
            if attr == "pi":
                return PiMul(Q(1))  # exact rational multiples of pi: only their cosines / sines at the tabulated angles leave this form
            return _NpAttr(attr)
        if isinstance(obj, _NpAttr):
            return _NpAttr(obj.path + "." + attr)
        if isinstance(obj, XArray):
            if attr == "T":
                return obj.T
            if attr in ("shape", "ndim", "size", "flags"):
                return getattr(obj, attr)
            if attr in ("reshape", "ravel", "flatten", "transpose", "copy", "sum", "mean", "tolist", "max", "min"):
                return getattr(obj, attr)
            if attr == "tobytes":
                return lambda *a, **k: ("bytes", obj.shape, tuple(str(exact(v)) for v in (obj.ravel().data if obj.order is not None else obj.data)))
            if attr == "nbytes":
                return 8 * obj.size
            if attr == "item":
                return lambda *a: obj.data[0] if not a else obj[tuple(a) if len(a) > 1 else a[0]]
            if attr == "astype":
                return lambda t=None, *a, **k: XArray(obj.shape, list(obj.data), _kind_of(t))
            if attr == "dtype":
                return _DType("c" if is_complex_value(obj) else obj.dtype if obj.dtype is not None else "f")
            if attr in ("real", "imag"):
                return cx_parts(obj)[0 if attr == "real" else 1]
            if attr == "repeat":
                return lambda repeats, axis=None: _np_repeat(obj, repeats, axis)
            if attr in ("any", "all"):
                return lambda *a, **k: _np_allany(obj, any if attr == "any" else all, **k)
            if attr == "swapaxes":
                return lambda i, j: _np_swapaxes(obj, i, j)
            if attr in ("integrate", "_ndim", "_shape", "dot", "ddot") and hasattr(obj, attr):
                return getattr(obj, attr)
            raise self.bad(f"array attribute {attr}", n)
        if isinstance(obj, XObj):
            return self.obj_attr(obj, attr, n)
        if isinstance(obj, ClassInfo):
            return self.class_attr(obj, attr, n)
        if isinstance(obj, ModuleInfo):
            r = self.I.repo.resolve_name(obj, attr)
            if r is None:
                if attr in obj.assigns:
                    return self.I.eval_expr(obj.assigns[attr], {}, obj.relpath, obj)
                raise self.bad(f"module attribute {obj.name}.{attr}", n)
            return r
        if isinstance(obj, EnumVal):
            if attr == "value":
                return obj.value
            if attr == "name":
                return obj.name
            f = self.I.repo.lookup_method(obj.cls, attr)
            if f is not None:
                if f.is_property():
                    return self.I.call_function(f, [obj])
                return _Bound(self.I, f, obj)
            if attr in ("startswith",):
                return obj.startswith
            if isinstance(obj.value, str) and hasattr(obj.value, attr):
                return getattr(obj.value, attr)
            raise self.bad(f"enum attribute {attr}", n)
        if isinstance(obj, (list, dict, str, tuple, set)):
            if hasattr(obj, attr):
                return getattr(obj, attr)
            # a builtin container has exactly the attributes Python gives it: the program raises here
            raise XRaise("AttributeError", f"'{type(obj).__name__}' object has no attribute '{attr}'")
        if isinstance(obj, (Poly, Rat, Lin, MQ, Fraction)) and attr in ("real",):
            return obj
        if attr in getattr(type(obj), "_xeval_attrs", ()):
            return getattr(obj, attr)
        if isinstance(obj, Opaque):
            return Opaque(f"{obj.tag}.{attr}")
        if isinstance(obj, Sink):
            return obj
        if isinstance(obj, slice) and attr in ("start", "stop", "step"):
            return getattr(obj, attr)
        if isinstance(obj, SimpleNamespace) or getattr(type(obj), "_xeval_open", False):
            if hasattr(obj, attr):
                return getattr(obj, attr)
        raise self.bad(f"attribute {attr} of {type(obj).__name__}", n)

    def obj_attr(self, obj: XObj, attr, n):
        # private-name mangling uses the class in which the code is written
        cls_ctx = None
        if self.clo is not None and self.clo.finfo is not None:
            cls_ctx = self.clo.finfo.cls
        name = attr
        if attr.startswith("__") and not attr.endswith("__") and cls_ctx is not None:
            name = cls_ctx.mangle(attr)
        if name == "__dict__":
            return obj.attrs["__dict__"] if isinstance(obj.attrs.get("__dict__"), dict) else obj.attrs
        if getattr(self.I, "model_descriptors", False) and not name.startswith("__"):
            d = self.I.descriptor_for(obj.cls, name)
            if d is not None:
                g = self.I.repo.lookup_method(d.cls, "__get__")
                if g is not None:
                    return self.I.call_function(g, [obj, obj.cls], {}, self_obj=d)
        if name in obj.attrs:
            v = obj.attrs[name]
            if type(v).__name__ == "function":
                # a Python stand-in placed where the class has a method of that name: keyword arguments spelled with the
                # REAL parameter names are moved into position (the stand-in's own parameter names are the rule's business)
                real = self.I.repo.lookup_method(obj.cls, name)
                if real is not None and not real.is_property():
                    import inspect as _insp

                    try:
                        ps = list(_insp.signature(v).parameters.values())
                    except (TypeError, ValueError):
                        ps = []
                    npos = 10**6 if any(p_.kind == p_.VAR_POSITIONAL for p_ in ps) else sum(1 for p_ in ps if p_.kind in (p_.POSITIONAL_ONLY, p_.POSITIONAL_OR_KEYWORD))

                    def _stub(*a, _v=v, _real=real, _npos=npos, **k):
                        a2, k2 = _Frame._by_position(_real, a, k, not _real.is_static())
                        if len(a2) <= _npos:
                            a, k = a2, k2
                        return _v(*a, **k)

                    return _stub
            return v
        f = self.I.repo.lookup_method(obj.cls, name)
        if f is not None:
            if f.is_property():
                v = self.I.call_function(f, [], self_obj=obj)
                if f.is_cached_property():
                    obj.attrs[name] = v  # functools.cached_property: the value is kept in the instance dictionary
                return v
            if f.is_static():
                return _Bound(self.I, f, None)
            return _Bound(self.I, f, obj)
        nc = self.I.repo.nested_class(obj.cls, name)
        if nc is not None:
            return nc
        hit, v = self._class_var(obj.cls, name)
        if hit:
            return v
        ce, owner = self.I.repo.class_attr(obj.cls, name)
        if ce is not None:
            return self.I.eval_class_attr(owner, ce)
        if name != attr and attr.startswith("__") and attr[2:] in obj.attrs and self.I.repo.lookup_method(obj.cls, attr[2:]) is not None and self.I.repo.lookup_method(obj.cls, attr[2:]).is_property():
            # an analysis stand-in that supplies the public view `x` of the private field `__x` (the rule placed the attribute
            # where a property of that name exists): the private read takes that value
            return obj.attrs[attr[2:]]
        if getattr(self.I, "attr_try_depth", 0) > 0 and name.startswith("_") and "__" in name[1:] and name != attr:
            raise XRaise("AttributeError", f"'{obj.cls.name}' object has no attribute '{name}'")
        hit, v = self._init_literal(obj, name)
        if hit:
            obj.attrs[name] = v
            return v
        raise self.bad(f"attribute {obj.cls.name}.{attr} is not modelled", n)

    def _init_literal(self, obj, name):
        """a stand-in object (built by a rule without running the constructor) is asked for a private field the rule did not
        supply: when a constructor of the class hierarchy initialises that field with a LITERAL (an empty container, None, a
        constant), every real object starts with that value - the stand-in takes it (a fresh one per object)"""
        if not (name.startswith("_") and "__" in name[1:]):
            return False, None
        for ci in [obj.cls] + list(getattr(obj.cls, "mro", []) or []):
            init = ci.methods.get("__init__") if ci is not None else None
            if init is None:
                continue
            for st in ast.walk(init.node):
                tg = st.targets[0] if isinstance(st, ast.Assign) and len(st.targets) == 1 else (st.target if isinstance(st, ast.AnnAssign) and st.value is not None else None)
                if not (isinstance(tg, ast.Attribute) and isinstance(tg.value, ast.Name) and tg.value.id == "self" and ci.mangle(tg.attr) == name):
                    continue
                val = st.value
                if isinstance(val, ast.Dict) and not val.keys:
                    return True, {}
                if isinstance(val, (ast.List, ast.Set)) and not val.elts:
                    return True, [] if isinstance(val, ast.List) else set()
                if isinstance(val, ast.Constant) and (val.value is None or isinstance(val.value, (bool, int, str))):
                    return True, val.value
                return False, None
        return False, None

    @staticmethod
    def _cv_key(ci, attr):
        pre = "_" + ci.name.lstrip("_") + "__"
        return attr[len(pre) - 2:] if attr.startswith(pre) else attr

    def _class_var(self, ci, attr):
        """a class-level variable re-bound at run time (`Line.__NInstance += 1`): the value stored for the class or a base"""
        cv = self.I.__dict__.get("_class_vars")
        if cv:
            for c in ci.mro:
                k = (c.qualname, self._cv_key(c, attr))
                if k in cv:
                    return True, cv[k]
        return False, None

    def class_attr(self, ci: ClassInfo, attr, n):
        hit, v = self._class_var(ci, attr)
        if hit:
            return v
        if ci.is_enum():
            mem = self.I.repo.enum_members(ci.qualname)
            if attr in mem:
                return EnumVal(ci, attr, mem[attr])
        f = self.I.repo.lookup_method(ci, attr)
        if f is not None:
            if f.is_property():
                # Class.prop: the property object (fget / fset called with an explicit self)
                st = self.I.repo.lookup_setter(ci, attr)
                return SimpleNamespace(fget=_Bound(self.I, f, None, static=True), fset=_Bound(self.I, st, None, static=True) if st is not None else None,
                                       __get__=lambda inst, owner=None, _f=f: self.I.call_function(_f, [], self_obj=inst),
                                       __set__=lambda inst, v, _s=st: self.I.call_function(_s, [v], self_obj=inst))
            return _Bound(self.I, f, None, static=True)
        nc = self.I.repo.nested_class(ci, attr)
        if nc is not None:
            return nc
        ce, owner = self.I.repo.class_attr(ci, attr)
        if ce is not None:
            return self.I.eval_class_attr(owner, ce)
        raise self.bad(f"class attribute {ci.name}.{attr}", n)

    # -- calls ----------------------------------------------------------
    def e_Call(self, n):
        # super().m()
        if isinstance(n.func, ast.Attribute) and isinstance(n.func.value, ast.Call) and dotted(n.func.value.func) == "super":
            return self.call_super(n)
        fn = self.ev(n.func)
        args = []
        for a in n.args:
            if isinstance(a, ast.Starred):
                args.extend(self.ev(a.value))
            else:
                args.append(self.ev(a))
        kwargs = {}
        for k in n.keywords:
            if k.arg is None:
                kwargs.update(self.ev(k.value))
            else:
                kwargs[k.arg] = self.ev(k.value)
        return self.call(fn, args, kwargs, n)

    def call_super(self, n):
        if self.clo is None or self.clo.finfo is None or self.clo.finfo.cls is None:
            raise self.bad("super() outside a method", n)
        cls = self.clo.finfo.cls
        selfobj = self.env.get("self")
        if self.I.super_hook is not None and not isinstance(selfobj, XObj):
            args = []
            for a in n.args:
                if isinstance(a, ast.Starred):
                    args.extend(self.ev(a.value))
                else:
                    args.append(self.ev(a))
            kwargs = {}
            for k in n.keywords:
                if k.arg is None:
                    kwargs.update(self.ev(k.value))
                else:
                    kwargs[k.arg] = self.ev(k.value)
            r = self.I.super_hook(cls, selfobj, n.func.attr, args, kwargs)
            if r is not NotImplemented:
                return r
        if not isinstance(selfobj, XObj):
            raise self.bad("super() without a modelled self", n)
        f = self.I.repo.lookup_method(selfobj.cls, n.func.attr, start_after=cls)
        if f is None:
            raise self.bad(f"super().{n.func.attr} not found", n)
        args = []
        for a in n.args:
            if isinstance(a, ast.Starred):
                args.extend(self.ev(a.value))
            else:
                args.append(self.ev(a))
        kwargs = {}
        for k in n.keywords:
            if k.arg is None:
                kwargs.update(self.ev(k.value))
            else:
                kwargs[k.arg] = self.ev(k.value)
        if self.I.call_hook is not None:
            h_args, h_kwargs = self._by_position(f, args, kwargs, not f.is_static())
            r = self.I.call_hook(f, h_args, h_kwargs)
            if r is not NotImplemented:
                return r
        return self.I.call_function(f, args, kwargs, self_obj=selfobj)

    @staticmethod
    def _by_position(fi, args, kwargs, bound):
        """keyword arguments that continue the positional ones are moved into position, so that a hook (and any stand-in)
        sees `f(a, b, c)` and `f(a, b, c=c)` as the same call"""
        if fi is None or not kwargs:
            return args, kwargs
        a = fi.node.args
        names = [x.arg for x in a.posonlyargs + a.args]
        if bound and names:
            names = names[1:]
        args, kwargs = list(args), dict(kwargs)
        k = len(args)
        while k < len(names) and names[k] in kwargs:
            args.append(kwargs.pop(names[k]))
            k += 1
        return args, kwargs

    def call(self, fn, args, kwargs, n):
        if self.I.call_hook is not None:
            # (only what the HOOK sees is normalised: the call itself keeps its spelling - a memo keyed by (args, kwargs)
            #  distinguishes f(a, b) from f(a, b=b), as Python does)
            h_args, h_kwargs = args, kwargs
            if isinstance(fn, _Bound):
                h_args, h_kwargs = self._by_position(fn.finfo, args, kwargs, fn.selfobj is not None and not fn.finfo.is_static())
            elif isinstance(fn, FuncInfo):
                h_args, h_kwargs = self._by_position(fn, args, kwargs, False)
            r = self.I.call_hook(fn, h_args, h_kwargs)
            if r is not NotImplemented:
                return r
        if isinstance(fn, Closure):
            return fn(*args, **kwargs)
        if isinstance(fn, _Bound):
            return fn(*args, **kwargs)
        if isinstance(fn, FuncInfo):
            if "singledispatch" in [d.split(".")[-1] for d in fn.decorators] and args:
                impl = self._singledispatch(fn, args[0])
                if impl is not None:
                    return impl(*args, **kwargs)
            return self.I.call_function(fn, args, kwargs)
        if fn is _PY_BUILTINS.get("getattr") and len(args) >= 2 and isinstance(args[0], XObj) and isinstance(args[1], str) and not kwargs:
            # getattr(obj, "name"[, default]) on a modelled object: properties, descriptors and methods resolve as in obj.name
            try:
                return self.obj_attr(args[0], args[1], n)
            except (Uninterpretable, XRaise):
                if len(args) > 2:
                    return args[2]
                raise
        if fn in (list, tuple, set, sorted, len) and len(args) == 1 and isinstance(args[0], ClassInfo) and args[0].is_enum():
            args = [_enum_iter(args[0])]  # list(EnumClass): its members in definition order
        if isinstance(fn, XObj):
            f = self.I.repo.lookup_method(fn.cls, "__call__")
            if f is None:
                raise self.bad(f"instance of {fn.cls.name} is not callable", n)
            return self.I.call_function(f, args, kwargs, self_obj=fn)
        if isinstance(fn, _NpAttr):
            return self.np_call(fn.path, args, kwargs, n)
        if isinstance(fn, Opaque) and fn.tag in ("import:functools.partialmethod", "import:functools.partial") and args:
            return _PartialMethod(self.I, args[0], list(args[1:]), dict(kwargs), method=fn.tag.endswith("partialmethod"))
        if isinstance(fn, Opaque) and fn.tag.startswith("import:itertools."):
            import itertools as _itertools

            nm = fn.tag.split(".")[-1]
            if nm in ("product", "chain", "combinations", "permutations", "accumulate", "repeat", "zip_longest", "islice", "count", "starmap", "pairwise", "combinations_with_replacement"):
                if nm in ("accumulate", "starmap") and len(args) > 1 and not callable(args[1] if nm == "accumulate" else args[0]):
                    pass
                return list(getattr(_itertools, nm)(*args, **kwargs)) if nm not in ("count", "repeat") or (nm == "repeat" and len(args) > 1) else getattr(_itertools, nm)(*args, **kwargs)
        if isinstance(fn, Opaque) and fn.tag in ("import:copy.copy", "import:copy.deepcopy") and len(args) == 1:
            return _py_copy(args[0], deep=fn.tag.endswith("deepcopy"))
        if isinstance(fn, ClassInfo):
            if fn.is_enum():
                mem = self.I.repo.enum_members(fn.qualname)
                for k, v in mem.items():
                    if args and (v == args[0] or (isinstance(args[0], EnumVal) and args[0].name == k)):
                        return EnumVal(fn, k, v)
                raise XRaise("ValueError", f"{args[0]!r} is not a valid {fn.name}")
            if fn.base_exprs == ["str"] and not fn.methods and len(args) == 1 and not kwargs and isinstance(args[0], (str, EnumVal)):
                # a bare subclass of str (class ProblemType(str): pass): the string itself
                return str(args[0].value) if isinstance(args[0], EnumVal) else args[0]
            if fn.qualname in getattr(self.I, "constructible", ()) and any(b.split(".")[-1] == "NamedTuple" for b in fn.base_exprs) and "__init__" not in fn.methods:
                # typing.NamedTuple: the annotated fields of the class body, in order, with their defaults
                fields, defaults = [], {}
                for st in fn.node.body:
                    if isinstance(st, ast.AnnAssign) and isinstance(st.target, ast.Name):
                        fields.append(st.target.id)
                        if st.value is not None:
                            defaults[st.target.id] = st.value
                if len(args) > len(fields):
                    raise XRaise("TypeError", f"{fn.name}() takes {len(fields)} positional arguments but {len(args)} were given")
                vals = dict(zip(fields, args))
                for k, v in kwargs.items():
                    if k not in fields or k in vals:
                        raise XRaise("TypeError", f"{fn.name}() got an unexpected or repeated keyword argument '{k}'")
                    vals[k] = v
                for k in fields:
                    if k not in vals:
                        if k not in defaults:
                            raise XRaise("TypeError", f"{fn.name}() missing required argument '{k}'")
                        vals[k] = _Frame(self.I, {}, fn.module.relpath, fn.module, None).ev(defaults[k])
                obj = XObj(fn, {k: vals[k] for k in fields})
                obj.attrs["_fields"] = tuple(fields)
                return obj
            if fn.qualname in getattr(self.I, "constructible", ()):
                # opt-in: plain instantiation (object.__new__ + the class's own __init__)
                obj = XObj(fn, {})
                init = self.I.repo.lookup_method(fn, "__init__")
                if init is not None:
                    self.I.call_function(init, args, kwargs, self_obj=obj)
                return obj
            raise self.bad(f"construction of {fn.name} is not modelled", n)
        if fn is float and len(args) == 1 and not kwargs and type(args[0]) is Fraction and getattr(self.I, "exact_float", False):
            return args[0]  # opt-in: exact arithmetic has no float kind, float(7/3) stays 7/3
        if fn is float and len(args) == 1 and not kwargs and (type(args[0]).__name__ in ("Poly", "Rat", "Lin") or (isinstance(args[0], XArray) and args[0].size == 1)):
            # float(x) of a symbolic / one-entry exact value: the value itself (exact arithmetic has no float kind)
            return args[0].data[0] if isinstance(args[0], XArray) else args[0]
        if callable(fn) and not isinstance(fn, (Opaque,)):
            try:
                return fn(*args, **kwargs)
            except (XRaise, Uninterpretable, _Return):
                raise
            except (AlgError, XArrayError, TypeError, ValueError, IndexError, KeyError, ZeroDivisionError) as e:
                raise self.bad(f"call failed: {type(e).__name__}: {e}", n)
        raise self.bad(f"call of {fn!r} is not modelled", n)

    def _singledispatch(self, fn, arg):
        """functools.singledispatch: the implementation registered (in the module of the generic function) for the type of the
        first argument -- a class of the repository, a number, or an iterable; None selects the generic body"""
        mi = fn.module
        cands = []
        for st in mi.tree.body:
            if not isinstance(st, ast.FunctionDef):
                continue
            for d in st.decorator_list:
                reg = d.func if isinstance(d, ast.Call) else d
                if isinstance(reg, ast.Attribute) and reg.attr == "register" and isinstance(reg.value, ast.Name) and reg.value.id == fn.name:
                    if isinstance(d, ast.Call) and d.args:
                        t = d.args[0]
                    else:
                        t = st.args.args[0].annotation if st.args.args else None
                    cands.append((t, st))
        fr = _Frame(self.I, {}, mi.relpath, mi, None)

        def kind(t):
            if t is None:
                return None
            name = t.id if isinstance(t, ast.Name) else (t.attr if isinstance(t, ast.Attribute) else None)
            if name in ("float", "int", "complex", "Number"):
                return ("num", name)
            if name in ("Iterable", "Sequence", "list", "tuple", "ndarray", "Collection"):
                return ("iter", name)
            try:
                v = fr.ev(t)
            except Uninterpretable:
                return None
            return ("cls", v) if isinstance(v, ClassInfo) else None

        a = exact(arg)
        best = None
        for t, st in cands:
            k = kind(t)
            if k is None:
                continue
            if k[0] == "cls" and isinstance(a, XObj) and k[1] in a.cls.mro:
                best = st
                break
            if k[0] == "num" and isinstance(a, (int, Fraction, float)) and not isinstance(a, bool) and best is None:
                best = st
            if k[0] == "iter" and isinstance(a, (XArray, list, tuple)) and best is None:
                best = st
        if best is None:
            return None
        finfo = FuncInfo(f"{mi.name}.{fn.name}[{best.lineno}]", mi, None, best, [])
        return Closure(best, {}, self.I, mi.relpath, finfo=finfo)

    def np_call(self, path, args, kwargs, n):
        f = _NP_FUNCS.get(path)
        if f is None:
            raise self.bad(f"numpy function np.{path} is not modelled", n)
        try:
            return f(*args, **kwargs)
        except (AlgError, XArrayError, TypeError, ValueError, IndexError) as e:
            raise self.bad(f"np.{path} failed: {type(e).__name__}: {e}", n)


def _literal_only(n):
    """An arithmetic expression made of integer literals only (1 << 22, 4 * 1024 * 1024, 2**20)."""
    if isinstance(n, ast.Constant):
        return type(n.value) is int
    if isinstance(n, ast.BinOp):
        return _literal_only(n.left) and _literal_only(n.right)
    if isinstance(n, ast.UnaryOp) and isinstance(n.op, (ast.USub, ast.UAdd)):
        return _literal_only(n.operand)
    return False


class _Bound:
    def __init__(self, interp, finfo, selfobj, static=False):
        self.I, self.finfo, self.selfobj, self.static = interp, finfo, selfobj, static

    def __call__(self, *args, **kwargs):
        if self.finfo.is_static() or self.selfobj is None:
            return self.I.call_function(self.finfo, args, kwargs)
        if getattr(self.I, "model_decorators", False) and self.finfo.is_cached() and isinstance(self.selfobj, XObj):
            return self._memoised(args, kwargs)
        return self.I.call_function(self.finfo, args, kwargs, self_obj=self.selfobj)

    def _memoised(self, args, kwargs):
        """opt-in (end-to-end scenarios): a method decorated with the repository's memoising decorator is called through the
        decorator's OWN source (Utilities._cache.cache_computed_values is interpreted: key, store, lookup)."""
        I, fi = self.I, self.finfo
        deco = I.repo.func("EasyFEA.Utilities._cache.cache_computed_values")

        class _Raw:
            _xeval_attrs = ("__name__",)
            __name__ = fi.name

            def __call__(_s, obj, *a, **k):
                return I.call_function(fi, a, k, self_obj=obj)

        wrappers = I.__dict__.setdefault("_memo_wrappers", {})
        w = wrappers.get(fi.qualname)
        if w is None:
            w = wrappers[fi.qualname] = I.call_function(deco, [_Raw()])
        return w(self.selfobj, *args, **kwargs)

    def __repr__(self):
        return f"<bound {self.finfo.qualname}>"


class _NpAttr:
    def __init__(self, path):
        self.path = path

    def __eq__(self, o):
        return isinstance(o, _NpAttr) and o.path == self.path

    def __hash__(self):
        return hash(("np", self.path))

    def __repr__(self):
        return f"np.{self.path}"


def _load(t):
    import copy

    t2 = copy.copy(t)
    t2.ctx = ast.Load()
    return t2


def _as_int(v, fr, node):
    if isinstance(v, Fraction) and v.denominator == 1:
        return int(v)
    if isinstance(v, int) or v is None:
        return v
    if getattr(type(v), "_xeval_open", False):
        return v  # a symbolic size of a rule's model: the model's __getitem__ decides what the slice means
    raise fr.bad("non-integer slice bound", node)


def exact_tree(v):
    if isinstance(v, float):
        return to_q(v)
    if isinstance(v, list):
        return [exact_tree(x) for x in v]
    if isinstance(v, tuple):
        return tuple(exact_tree(x) for x in v)
    return v


# ---------------------------------------------------------------------------
# numpy shim (exact)
# ---------------------------------------------------------------------------


class _DType:
    """the dtype of a modelled array, as far as its kind: compares equal to int / float / np.int64 ... of the same kind"""

    _xeval_open = True

    def __init__(self, kind):
        self.kind = kind

    def __eq__(self, o):
        return _kind_of(o) == self.kind

    def __ne__(self, o):
        return not self.__eq__(o)

    def __hash__(self):
        return hash(self.kind)

    def __repr__(self):
        return f"dtype({self.kind})"


def _kind_of(dtype):
    """'i' / 'f' / None for a dtype argument (python type, np.int64 ..., the .dtype of a modelled array)"""
    if dtype is None:
        return None
    if isinstance(dtype, _DType):
        return dtype.kind
    if dtype is int or (isinstance(dtype, _NpAttr) and dtype.path.startswith(("int", "uint"))) or dtype == "i":
        return "i"
    if dtype is float or (isinstance(dtype, _NpAttr) and dtype.path.startswith("float")) or dtype == "f":
        return "f"
    if dtype is complex or (isinstance(dtype, _NpAttr) and dtype.path.startswith("complex")) or dtype == "c":
        return "c"
    return None


def _np_kron(a, b):
    """np.kron of two arrays: leading axes of b kept as batch when a is 2-D and b is (..., m, n)"""
    A, B = XArray.from_nested(a), XArray.from_nested(b)
    if A.ndim != 2 or B.ndim < 2:
        raise XArrayError("np.kron on these ranks is not modelled")
    if B.ndim == 2:
        (p, q), (m, n) = A.shape, B.shape
        return XArray((p * m, q * n), [A[i // m, j // n] * B[i % m, j % n] for i in range(p * m) for j in range(q * n)])
    # numpy pads a with leading 1-axes: kron acts on the last two axes, the batch axes of b are kept
    lead = B.shape[:-2]
    m, n = B.shape[-2:]
    p, q = A.shape
    import itertools as _it

    data = []
    for ix in _it.product(*[range(k) for k in lead]):
        for i in range(p * m):
            for j in range(q * n):
                data.append(A[i // m, j // n] * B[ix + (i % m, j % n)])
    return XArray(lead + (p * m, q * n), data)


def _np_result_type(*args):
    """np.result_type as far as the kind: complex > float > integer; an operand of unknown kind leaves it unknown"""
    kinds = []
    for a in args:
        if isinstance(a, XArray):
            if any(type(x).__name__ == "Poly" and "__I__" in x.vars() for x in a.data):
                kinds.append("c")
            else:
                kinds.append(a.dtype)
        elif isinstance(a, bool):
            kinds.append("i")
        elif isinstance(a, int):
            kinds.append("i")
        elif isinstance(a, (Fraction, float)):
            kinds.append("f")
        else:
            kinds.append(_kind_of(a))
    if "c" in kinds:
        return _DType("c")
    if any(k not in ("i", "f") for k in kinds):
        return _DType(None)
    return _DType("f" if "f" in kinds else "i")


def _all_py_ints(o):
    if isinstance(o, (list, tuple)):
        return bool(o) and all(_all_py_ints(x) for x in o)
    if isinstance(o, XArray):
        return o.dtype == "i"
    return isinstance(o, int) and not isinstance(o, bool)


def _np_array(obj, dtype=None, **kw):
    if dtype is object and isinstance(obj, (list, tuple)):
        # an object array: the nested LISTS give the shape, whatever sits in the innermost lists (numbers, arrays) is an entry
        def lists_shape(o):
            if isinstance(o, (list, tuple)) and o and all(isinstance(x, (list, tuple)) for x in o) and len({len(x) for x in o}) == 1:
                return (len(o),) + lists_shape(o[0])
            return (len(o),) if isinstance(o, (list, tuple)) else ()

        shp = lists_shape(obj)

        def leaves(o, depth):
            if depth == 0:
                return [o if isinstance(o, XArray) else exact_tree(o)]
            out = []
            for x in o:
                out.extend(leaves(x, depth - 1))
            return out

        res = XArray(shp, leaves(obj, len(shp)))
        res.dtype = "O"
        return res
    kind = _kind_of(dtype) if dtype is not None else ("i" if _all_py_ints(obj) else None)
    a = XArray.from_nested(exact_tree(obj) if not isinstance(obj, XArray) else obj)
    a.dtype = kind
    return a


def _np_sqrt(x):
    x = exact(x)
    if isinstance(x, XArray):
        return XArray(x.shape, [_np_sqrt(v) for v in x.data])
    if isinstance(x, Poly):
        if x.is_const():
            x = x.const_value()
        else:
            raise AlgError("sqrt of a non-constant polynomial")
    if isinstance(x, MQ) and x.is_rational():
        x = x.rational()
    if isinstance(x, (int, Fraction)) and x == 0:
        return Q(0)
    if hasattr(x, "is_zero") and x.is_zero():
        return Q(0)
    if isinstance(x, Rat) and x.is_poly() and x.as_poly().is_const():
        x = x.as_poly().const_value()
    if APPROX_SQRT_DIGITS is not None and isinstance(x, (int, Fraction)) and x > 0:
        # opt-in (incremental scenarios whose statements are inequalities with a margin): no surds - the exact root of a
        # perfect square, otherwise the root rounded to that many digits
        from math import isqrt

        x = Fraction(x)
        if x.numerator.bit_length() > 2000 or x.denominator.bit_length() > 2000:
            sc2 = 10 ** (4 * APPROX_SQRT_DIGITS)
            x = Fraction(round(x * sc2), sc2)
        rn, rd = isqrt(x.numerator), isqrt(x.denominator)
        if rn * rn == x.numerator and rd * rd == x.denominator:
            return Fraction(rn, rd)
        sc = 10 ** APPROX_SQRT_DIGITS
        return Fraction(isqrt(x.numerator * sc * sc // x.denominator), sc)
    return MQ.sqrt(x)


APPROX_SQRT_DIGITS = None


def _np_zeros(shape, dtype=None, **kw):
    if isinstance(shape, (int, Fraction)):
        shape = (int(shape),)
    if dtype is bool:
        return XArray.full(tuple(int(s) for s in shape), False)
    a = XArray.full(tuple(int(s) for s in shape), Q(0))
    a.dtype = _kind_of(dtype) if dtype is not None else "f"  # numpy's default is float64
    return a


def _np_ones(shape, dtype=None, **kw):
    if isinstance(shape, (int, Fraction)):
        shape = (int(shape),)
    if dtype is bool:
        return XArray.full(tuple(int(s) for s in shape), True)
    return XArray.full(tuple(int(s) for s in shape), Q(1))


def _np_eye(n, dtype=None, **kw):
    n = int(n)
    a = XArray.full((n, n), Q(0))
    for i in range(n):
        a.data[i * n + i] = Q(1)
    return a


def _np_arange(*a, dtype=None, **kw):
    out = XArray.from_nested(list(range(*[int(x) for x in a])))
    out.dtype = "i"
    return out


def _np_diag(v, k=0):
    v = XArray.from_nested(v)
    if v.ndim == 1:
        n = v.shape[0]
        a = XArray.full((n, n), Q(0))
        for i in range(n):
            a.data[i * n + i] = v.data[i]
        return a
    n = min(v.shape)
    return XArray((n,), [v.data[i * v.shape[1] + i] for i in range(n)])


def _like(a, value):
    """np.zeros_like / ones_like (subok=True): an array subclass (the finite-element array model) is kept"""
    cls = type(a) if isinstance(a, XArray) else XArray
    a = XArray.from_nested(a)
    out = XArray.full(a.shape, value)
    if cls is not XArray:
        try:
            return cls(out.shape, out.data)
        except TypeError:
            return out
    return out


def _np_zeros_like(a, dtype=None, **kw):
    return _like(a, Q(0))


def _np_ones_like(a, dtype=None, **kw):
    return _like(a, Q(1))


def _np_concatenate(seq, axis=0, dtype=None, **kw):
    if kw:
        raise XArrayError("np.concatenate with options")
    arrs = [XArray.from_nested(s) for s in seq]
    if not arrs:
        raise XRaise("ValueError", "need at least one array to concatenate")
    if axis != 0:
        nd = arrs[0].ndim
        axis %= nd
        perm = [axis] + [i for i in range(nd) if i != axis]
        inv = [perm.index(i) for i in range(nd)]
        r = _np_concatenate([a.transpose(*perm) for a in arrs], 0)
        return r.transpose(*inv)
    tail = arrs[0].shape[1:]
    data = []
    n = 0
    for a in arrs:
        if a.shape[1:] != tail:
            raise XArrayError("concatenate shape mismatch")
        data.extend(a.data)
        n += a.shape[0]
    return XArray((n,) + tail, data)


def _np_repeat(a, repeats, axis=None):
    a = XArray.from_nested(a)
    if isinstance(repeats, (XArray, list, tuple)):
        # one repeat count per entry (flattened input)
        reps = [int(x) for x in XArray.from_nested(repeats).data]
        if axis is not None or len(reps) != a.size:
            raise XArrayError("np.repeat with per-entry counts on this shape is not modelled")
        out = []
        for x, k in zip(a.data, reps):
            out.extend([x] * k)
        return XArray((len(out),), out)
    repeats = int(repeats)
    if axis is None:
        out = []
        for x in a.data:
            out.extend([x] * repeats)
        return XArray((len(out),), out)
    nd = a.ndim
    axis %= nd
    idx = [slice(None)] * nd
    lst = []
    for i in range(a.shape[axis]):
        lst.extend([i] * repeats)
    idx[axis] = lst
    return a[tuple(idx)]


def _np_cross(a, b, axisa=-1, axisb=-1, axisc=-1, axis=None, **kw):
    a, b = XArray.from_nested(a), XArray.from_nested(b)
    if axis is not None:
        axisa = axisb = axisc = axis
    # np.cross(a, b, axisa, axisb): the vectors of a lie along axisa, those of b along axisb; both are moved last
    def _last(x, ax):
        ax = int(ax) % x.ndim if x.ndim else 0
        if x.ndim <= 1 or ax == x.ndim - 1:
            return x
        order = [k for k in range(x.ndim) if k != ax] + [ax]
        return x.transpose(*order)

    a, b = _last(a, axisa), _last(b, axisb)
    out_nd = max(a.ndim, b.ndim)
    if out_nd >= 1 and int(axisc) % max(out_nd, 1) != out_nd - 1 and out_nd > 1:
        raise XArrayError("cross: axisc other than the last axis is not modelled")
    axis = None
    c3 = lambda x, y: [x[1] * y[2] - x[2] * y[1], x[2] * y[0] - x[0] * y[2], x[0] * y[1] - x[1] * y[0]]
    if a.shape == (3,) and b.shape == (3,):
        return XArray((3,), c3(a.data, b.data))
    # rows of 3-vectors (vectors along the last axis), one operand possibly a single vector
    if a.shape[-1:] == (3,) and b.shape[-1:] == (3,) and a.ndim <= 2 and b.ndim <= 2 and axis in (None, -1, 1):
        n = max(a.shape[0] if a.ndim == 2 else 1, b.shape[0] if b.ndim == 2 else 1)
        ra = lambda k: a.data[3 * k: 3 * k + 3] if a.ndim == 2 and a.shape[0] > 1 else a.data[:3]
        rb = lambda k: b.data[3 * k: 3 * k + 3] if b.ndim == 2 and b.shape[0] > 1 else b.data[:3]
        if (a.ndim == 2 and a.shape[0] not in (1, n)) or (b.ndim == 2 and b.shape[0] not in (1, n)):
            raise XArrayError("cross: row counts differ")
        return XArray((n, 3), [x for k in range(n) for x in c3(ra(k), rb(k))])
    if a.shape[-1:] == (3,) and b.shape[-1:] == (3,) and axis in (None, -1):
        # vectors along the last axis, leading axes broadcast
        lead = XArray._bshape(a.shape[:-1], b.shape[:-1])
        A, B = a.broadcast_to(lead + (3,)), b.broadcast_to(lead + (3,))
        n = 1
        for x in lead:
            n *= x
        return XArray(lead + (3,), [x for k in range(n) for x in c3(A.data[3 * k: 3 * k + 3], B.data[3 * k: 3 * k + 3])])
    raise XArrayError("cross supports vectors of 3 components along the last axis only")


def _np_dot_nd(a, b):
    """np.dot for N-D operands: sum over the last axis of a and the second-to-last of b"""
    a, b = XArray.from_nested(a), XArray.from_nested(b)
    if a.ndim <= 2 and b.ndim <= 2:
        return None
    letters = "abcdefghijklmnop"
    ia = letters[: a.ndim]
    rest = letters[a.ndim: a.ndim + b.ndim - 1]
    if b.ndim == 1:
        ib = ia[-1]
        out = ia[:-1]
    else:
        ib = rest[: b.ndim - 2] + ia[-1] + rest[b.ndim - 2:]
        out = ia[:-1] + rest
    return x_einsum(f"{ia},{ib}->{out}", a, b)


def _np_dot(a, b):
    r = _np_dot_nd(a, b)
    if r is not None:
        return r
    return XArray.from_nested(a) @ XArray.from_nested(b)


def _np_sum(a, axis=None, **kw):
    return XArray.from_nested(a).sum(axis)


def _np_transpose(a, axes=None):
    a = XArray.from_nested(a)
    return a.transpose(*axes) if axes is not None else a.T


def _np_allany(a, f, axis=None, **kw):
    if kw:
        raise AnalysisError("np.all / np.any with keywords is not modelled")
    if axis is not None:
        arr = XArray.from_nested(a)
        if not all(isinstance(v, bool) for v in arr.data):
            raise AnalysisError("np.all / np.any of values that are not decided booleans")
        ax = int(axis) % arr.ndim
        moved = arr.transpose(*([i for i in range(arr.ndim) if i != ax] + [ax]))
        n = arr.shape[ax]
        flat = list(moved.data)
        return XArray(moved.shape[:-1], [f(flat[k * n:(k + 1) * n]) for k in range(len(flat) // n if n else 0)])
    if isinstance(a, bool):
        return a
    vals = list(XArray.from_nested(a).data) if isinstance(a, (XArray, list, tuple)) else [a]
    if not all(isinstance(v, bool) for v in vals):
        raise AnalysisError("np.all / np.any of values that are not decided booleans")
    return f(vals)


def _np_reshape(a, shape, *more):
    if isinstance(shape, XArray):  # an integer array given as the shape
        shape = tuple(int(exact(v)) for v in shape.data)
    return XArray.from_nested(a).reshape(shape, *more)


def _np_einsum(spec, *ops, **kw):
    return x_einsum(spec, *ops)


def _np_abs(x):
    x = exact(x)
    if isinstance(x, XArray):
        return XArray(x.shape, [_np_abs(v) for v in x.data])
    if isinstance(x, Poly):
        # a symbolic value: constants take their absolute value; a non-constant one is a Jacobian determinant of a reference
        # geometry assumed positively oriented (orientation is decided on concrete mirrored elements: R2.12, R7.11, R8.20)
        return abs(x.const_value()) if x.is_const() else x
    return abs(x)


def _np_trace(a, **kw):
    a = XArray.from_nested(a)
    n = min(a.shape[-2:])
    tot = 0
    for i in range(n):
        tot = tot + a[..., i, i]
    return tot


def _norm_sqrt(tot):
    """sqrt for a NORM: exact when the radicand factorises (perfect squares, small surds); otherwise - the radicand is a huge
    rational such as a sum of squares of the entries of an inverted matrix - a rational approximation to 60 significant
    digits (norms of that kind scale a tolerance test or a ratio; the approximation is recorded nowhere else)"""
    try:
        t0 = exact(tot)
        if isinstance(t0, Poly) and t0.is_const():
            t0 = t0.const_value()
        if isinstance(t0, Fraction) and (t0.numerator.bit_length() > 2000 or t0.denominator.bit_length() > 2000):
            raise AlgError("radicand too large to factorise")
        return _np_sqrt(tot)
    except (AlgError, ValueError) as e:
        t = exact(tot)
        if isinstance(t, Poly) and t.is_const():
            t = t.const_value()
        from math import isqrt

        if isinstance(t, MQ):
            # a number of Q(sqrt d): its value to 60 digits
            t = sum((Fraction(c) * Fraction(isqrt(int(d) * 10**120), 10**60) for d, c in t.t.items()), Fraction(0))
        if isinstance(t, (int, Fraction)) and t > 0:
            t = Fraction(t)
            scale = 10**120
            return Fraction(isqrt(t.numerator * scale // t.denominator), 10**60)
        raise


def _np_linalg_norm(a, axis=None, keepdims=False, **kw):
    a = XArray.from_nested(a)
    if axis is None and a.ndim == 1:
        tot = 0
        for x in a.data:
            tot = tot + x * x
        return _norm_sqrt(tot)
    if a.ndim == 2 and axis in (1, -1):
        out = []
        for k in range(a.shape[0]):
            tot = 0
            for x in a.data[k * a.shape[1]:(k + 1) * a.shape[1]]:
                tot = tot + x * x
            out.append(_norm_sqrt(tot))
        return XArray((a.shape[0], 1) if keepdims else (a.shape[0],), out)
    if isinstance(axis, (tuple, list)) and a.ndim >= 2:
        # Frobenius norm over several axes
        axes = sorted(int(x) % a.ndim for x in axis)
        keep = [i for i in range(a.ndim) if i not in axes]
        m = a.transpose(*(keep + axes))
        n = 1
        for i in axes:
            n *= a.shape[i]
        out = []
        for k in range(0, m.size, n):
            tot = 0
            for x in m.data[k:k + n]:
                tot = tot + x * x
            out.append(_norm_sqrt(tot))
        shape = tuple(a.shape[i] for i in keep)
        res = XArray(shape, out) if shape else out[0]
        if keepdims and shape:
            res = res.reshape(tuple(1 if i in axes else a.shape[i] for i in range(a.ndim)))
        return res
    if isinstance(axis, (int, Fraction)) and a.ndim >= 1:
        # 2-norm along one axis of an N-D array
        ax = int(axis) % a.ndim
        perm = [i for i in range(a.ndim) if i != ax] + [ax]
        m = a.transpose(*perm) if a.ndim > 1 else a
        n = a.shape[ax]
        out = []
        for k in range(0, m.size, n):
            tot = 0
            for x in m.data[k:k + n]:
                tot = tot + x * x
            out.append(_norm_sqrt(tot))
        shape = tuple(a.shape[i] for i in range(a.ndim) if i != ax)
        res = XArray(shape, out)
        if keepdims:
            res = res.reshape(tuple(1 if i == ax else a.shape[i] for i in range(a.ndim)))
        return res if shape else out[0]
    raise XArrayError("norm with this axis is not modelled")


def _np_outer(a, b):
    a, b = XArray.from_nested(a).ravel(), XArray.from_nested(b).ravel()
    return XArray((a.size, b.size), [x * y for x in a.data for y in b.data])


def _np_stack(seq, axis=0):
    arrs = [XArray.from_nested(s) for s in seq]
    sh = arrs[0].shape
    nd = len(sh) + 1
    axis %= nd
    base = XArray((len(arrs),) + sh, [x for a in arrs for x in a.data])
    perm = list(range(1, nd))
    perm.insert(axis, 0)
    return base.transpose(*perm) if axis else base


def _np_tile(a, reps):
    import itertools

    a = XArray.from_nested(a)
    if isinstance(reps, (int, Fraction)):
        reps = (int(reps),)
    reps = tuple(int(x) for x in (reps.data if isinstance(reps, XArray) else reps))
    d = max(len(reps), a.ndim)
    shp = (1,) * (d - a.ndim) + tuple(a.shape)
    reps = (1,) * (d - len(reps)) + reps
    src = XArray(shp, a.data)
    out_shape = tuple(s_ * r_ for s_, r_ in zip(shp, reps))
    strides = src._strides()
    out = []
    for idx in itertools.product(*[range(n) for n in out_shape]):
        out.append(src.data[sum((i % s_) * st for i, s_, st in zip(idx, shp, strides))])
    return XArray(out_shape, out)


def _np_isin(a, b, **kw):
    a = XArray.from_nested(a)
    bb = list(XArray.from_nested(b).data) if not isinstance(b, (set, frozenset)) else list(b)
    for x in list(a.data) + bb:
        if isinstance(x, bool) or not isinstance(x, (int, Fraction, str, EnumVal)):
            raise XArrayError("np.isin needs concrete data: outside the table grammar")
    key = lambda v: str(v.value) if isinstance(v, EnumVal) else v
    bb = [key(y) for y in bb]
    return XArray(a.shape, [any(key(x) == y for y in bb) for x in a.data])


def _np_sign(a):
    def sg(x):
        x = exact(x)
        if isinstance(x, (int, Fraction)):
            return Q((x > 0) - (x < 0))
        if isinstance(x, MQ):
            return Q(x.sign()) if hasattr(x, "sign") else (_ for _ in ()).throw(XArrayError("np.sign of a surd"))
        raise XArrayError("np.sign needs concrete data: outside the table grammar")

    if isinstance(a, XArray):
        return type(a)(a.shape, [sg(x) for x in a.data]) if type(a) is not XArray else XArray(a.shape, [sg(x) for x in a.data])
    return sg(a)


_NP_FUNCS = {
    "sign": _np_sign,
    "isin": _np_isin,
    "in1d": _np_isin,
    "tile": _np_tile,
    "array": _np_array,
    "asarray": _np_array,
    "asanyarray": _np_array,
    "sqrt": _np_sqrt,
    "zeros": _np_zeros,
    "empty": _np_zeros,
    "result_type": _np_result_type,
    "add": lambda a, b, **k: exact(a) + exact(b),
    "subtract": lambda a, b, **k: exact(a) - exact(b),
    "multiply": lambda a, b, **k: exact(a) * exact(b),
    "negative": lambda a, **k: -exact(a),
    "intersect1d": lambda *a, **k: _np_intersect1d(*a, **k),
    "kron": _np_kron,
    "ones": _np_ones,
    "eye": _np_eye,
    "identity": _np_eye,
    "arange": _np_arange,
    "diag": _np_diag,
    "zeros_like": _np_zeros_like,
    "ones_like": _np_ones_like,
    "concatenate": _np_concatenate,
    "repeat": _np_repeat,
    "cross": _np_cross,
    "dot": _np_dot,
    "sum": _np_sum,
    "transpose": _np_transpose,
    "reshape": _np_reshape,
    "einsum": _np_einsum,
    "abs": _np_abs,
    "trace": _np_trace,
    "linalg.norm": _np_linalg_norm,
    "outer": _np_outer,
    "stack": _np_stack,
    "float64": lambda x: exact(x),
    "swapaxes": lambda a, i, j: _np_swapaxes(a, i, j),
    "shape": lambda a: XArray.from_nested(a).shape if not _is_num(a) else (),
    "ndim": lambda a: XArray.from_nested(a).ndim if not _is_num(a) else 0,
    "size": lambda a: XArray.from_nested(a).size if not _is_num(a) else 1,
    "ravel": lambda a: XArray.from_nested(a).ravel(),
    "isscalar": lambda x: _is_num(x) or isinstance(x, (bool, str)),
    "where": lambda *a: _np_where(*a),
    "array_str": lambda a, **k: str(a),
    "array2string": lambda a, **k: str(a),
    "all": lambda a, **k: _np_allany(a, all, **k),
    "any": lambda a, **k: _np_allany(a, any, **k),
    "setdiff1d": lambda *a, **k: _np_setdiff1d(*a, **k),
    "diff": lambda a, **k: (lambda v: XArray((max(len(v) - 1, 0),), [v[i + 1] - v[i] for i in range(len(v) - 1)]))(list(XArray.from_nested(a).data)),
    "bincount": lambda x, weights=None, minlength=0: _np_bincount(x, weights, minlength),
    "flatnonzero": lambda a: _np_flatnonzero(a),
    "add.at": lambda a, idx, b: _np_add_at(a, idx, b),
    "maximum": lambda a, b: _np_ewise2(a, b, lambda x, y: y if y > x else x),
    "minimum": lambda a, b: _np_ewise2(a, b, lambda x, y: y if y < x else x),
    "clip": lambda a, lo, hi, out=None: _np_clip(a, lo, hi, out),
    "divide": lambda a, b, out=None, where=None: _np_divide(a, b, out, where),
    "arccos": lambda a: _np_arccos(a),
    "argmax": lambda a, axis=None: _np_argext(a, axis, lambda x, y: y > x),
    "argmin": lambda a, axis=None: _np_argext(a, axis, lambda x, y: y < x),
    "heaviside": lambda a, h0: _np_ewise2(a, h0, lambda x, h: Q(1) if x > 0 else Q(0) if x < 0 else h),
    "moveaxis": lambda a, s_, d_: _np_moveaxis(a, s_, d_),
    "put": lambda a, ind, v: _np_put(a, ind, v),
    "average": lambda a, axis=None, weights=None, **k: _np_average(a, axis, weights),
    "count_nonzero": lambda a, axis=None, **k: (lambda A: sum(1 for x in A.data if not _same(exact(x), 0) and x is not False))(XArray.from_nested(a)) if axis is None else (_ for _ in ()).throw(XArrayError("np.count_nonzero along an axis is not modelled")),
    "vstack": lambda seq, **k: _np_concatenate([(lambda x: x.reshape(1, -1) if x.ndim == 1 else x)(XArray.from_nested(s_)) for s_ in seq], 0),
    "cumsum": lambda a, axis=None, **k: _np_cumsum(a, axis),
    "fromiter": lambda it, dtype=None, count=-1: (lambda v: XArray((len(v),), v, "i" if dtype is int else "f"))([exact(x) for x in it]),
    "not_equal": lambda a, b: _np_ewise2(a, b, lambda x, y: not _same(x, y)),
    "equal": lambda a, b: _np_ewise2(a, b, lambda x, y: _same(x, y)),
    "array_equal": lambda a, b: (lambda A, B: A.shape == B.shape and all(exact(x) == exact(y) for x, y in zip(A.data, B.data)))(XArray.from_nested(a), XArray.from_nested(b)),
    "floor": lambda a: _np_round_dir(a, -1),
    "ceil": lambda a: _np_round_dir(a, +1),
    "meshgrid": lambda *xs, indexing="xy", **kw: _np_meshgrid_n(xs, indexing),
    "ravel_multi_index": lambda multi, dims: _np_ravel_multi_index(multi, dims),
    "cos": lambda a: _np_trig(a, "cos"),
    "sin": lambda a: _np_trig(a, "sin"),
    "max": lambda a, axis=None, **k: XArray.from_nested(a).max(axis),
    "min": lambda a, axis=None, **k: XArray.from_nested(a).min(axis),
    "amax": lambda a, axis=None, **k: XArray.from_nested(a).max(axis),
    "amin": lambda a, axis=None, **k: XArray.from_nested(a).min(axis),
    "iscomplexobj": lambda a: is_complex_value(a),
    "real": lambda a: cx_parts(a)[0],
    "imag": lambda a: cx_parts(a)[1],
    "int64": lambda x=0: x,
    "int32": lambda x=0: x,
}


def _np_trig(a, which):
    if isinstance(a, XArray):
        return XArray(a.shape, [_np_trig(v, which) for v in a.data])
    a = exact(a)
    if isinstance(a, PiMul):
        return getattr(a, which)()
    if isinstance(a, (int, Fraction)) and a == 0:
        return Q(1) if which == "cos" else Q(0)
    raise AlgError(f"np.{which} of a value that is not a rational multiple of pi")


def _np_round_dir(a, d):
    import math

    if isinstance(a, XArray):
        return XArray(a.shape, [_np_round_dir(v, d) for v in a.data])
    a = exact(a)
    if isinstance(a, Poly) and a.is_const():
        a = a.const_value()
    if isinstance(a, MQ):
        if a.is_rational():
            a = a.rational()
        else:
            f = Fraction(a.approx(30))
            return Fraction(math.floor(f) if d < 0 else math.ceil(f))
    if isinstance(a, (int, Fraction)):
        return Fraction(math.floor(a) if d < 0 else math.ceil(a))
    raise AlgError("floor / ceil of an undecided value")


def _np_meshgrid(x, y, indexing="xy"):
    x, y = XArray.from_nested(x), XArray.from_nested(y)
    if indexing != "xy":
        raise AnalysisError("np.meshgrid indexing other than 'xy' is not modelled")
    nx, ny = x.size, y.size
    X = XArray((ny, nx), [x.data[i] for _ in range(ny) for i in range(nx)], x.dtype)
    Y = XArray((ny, nx), [y.data[j] for j in range(ny) for _ in range(nx)], y.dtype)
    return [X, Y]


def _np_ravel_multi_index(multi, dims):
    arrs = [XArray.from_nested(m).ravel() for m in (multi if not isinstance(multi, XArray) else [multi[i] for i in range(multi.shape[0])])]
    dims = [int(exact(d)) for d in (dims.data if isinstance(dims, XArray) else dims)]
    if len(arrs) != len(dims):
        raise XArrayError("ravel_multi_index: as many index arrays as dimensions are needed")
    out = []
    for k in range(arrs[0].size):
        idx = 0
        for a, d in zip(arrs, dims):
            v = int(exact(a.data[k]))
            if not 0 <= v < d:
                raise XRaise("ValueError", "invalid entry in coordinates array")
            idx = idx * d + v
        out.append(idx)
    return XArray((len(out),), out, "i")


def _np_average(a, axis=None, weights=None):
    """np.average: sum(w a) / sum(w) along an axis (1-D weights along that axis), or the plain mean"""
    from .alg import Rat

    A = XArray.from_nested(a)
    if weights is None:
        return A.mean(axis)
    Wt = XArray.from_nested(weights)
    if axis is None:
        if Wt.shape != A.shape:
            raise XArrayError("np.average without axis needs weights of the array's shape")
        num = sum((x * w for x, w in zip(A.data, Wt.data)), 0)
        den = sum(Wt.data, 0)
        return (Rat.of(num) / Rat.of(den)) if isinstance(num, Poly) or isinstance(den, Poly) else num / den
    axis = int(axis) % A.ndim
    if Wt.ndim != 1 or Wt.shape[0] != A.shape[axis]:
        raise XArrayError("np.average: weights must be 1-D along the axis")
    moved = A.transpose(*([i for i in range(A.ndim) if i != axis] + [axis]))
    n = A.shape[axis]
    den = sum(Wt.data, 0)
    out = []
    for i in range(0, moved.size, n):
        num = sum((x * w for x, w in zip(moved.data[i:i + n], Wt.data)), 0)
        symbolic = any(type(v).__name__ in ("Poly", "Rat") for v in (num, den))
        out.append(Rat.of(num) / Rat.of(den) if symbolic else num / den)
    return XArray(moved.shape[:-1], out) if moved.ndim > 1 else out[0]


def _np_cumsum(a, axis=None):
    a = XArray.from_nested(a)
    if axis is not None and a.ndim != 1:
        raise XArrayError("np.cumsum along an axis of an n-d array is not modelled")
    out, tot = [], 0
    for x in a.data:
        tot = tot + x
        out.append(tot)
    return XArray((len(out),), out, a.dtype)


def _np_put(a, ind, v):
    """np.put(a, ind, v): in-place store at flat indices (values cycled)"""
    if not isinstance(a, XArray):
        raise XArrayError("np.put on a non-array")
    idx = [ind] if _is_num(ind) else list(XArray.from_nested(ind).data)
    vals = [v] if (_is_num(v) or v is None or not isinstance(v, (XArray, list, tuple))) else list(XArray.from_nested(v).data)
    for k, i in enumerate(idx):
        i = int(exact(i))
        if not -a.size <= i < a.size:
            raise XRaise("IndexError", f"index {i} is out of bounds")
        if a.dtype != "O":
            a._check_kind(vals[k % len(vals)])
        a.data[i % a.size] = vals[k % len(vals)]
    return None


def _same(x, y):
    """== of two entries (None and arrays held by object arrays included)"""
    if x is None or y is None:
        return x is y
    if isinstance(x, XArray) or isinstance(y, XArray):
        return False if not (isinstance(x, XArray) and isinstance(y, XArray)) else x == y
    return x == y


def _np_ewise2(a, b, f):
    a, b = exact(a), exact(b)
    if isinstance(a, XArray) or isinstance(b, XArray):
        A = a if isinstance(a, XArray) else XArray((), [a])
        B = b if isinstance(b, XArray) else XArray((), [b])
        sh = XArray._bshape(A.shape, B.shape)
        return XArray(sh, [f(exact(x), exact(y)) for x, y in zip(A.broadcast_to(sh).data, B.broadcast_to(sh).data)])
    return f(a, b)


def _np_clip(a, lo, hi, out=None):
    lo, hi = exact(lo), exact(hi)
    A = XArray.from_nested(a)
    vals = [hi if exact(x) > hi else lo if exact(x) < lo else x for x in A.data]
    if out is not None:
        if not isinstance(out, XArray) or out.shape != A.shape:
            raise XArrayError("np.clip out= of another shape")
        out.data[:] = vals
        return out
    return XArray(A.shape, vals)


def _np_divide(a, b, out=None, where=None):
    A = XArray.from_nested(a if isinstance(a, (XArray, list, tuple)) else [exact(a)])
    B = XArray.from_nested(b if isinstance(b, (XArray, list, tuple)) else [exact(b)])
    if not isinstance(a, (XArray, list, tuple)):
        A = A.reshape(())
    if not isinstance(b, (XArray, list, tuple)):
        B = B.reshape(())
    shapes = [A.shape, B.shape] + ([XArray.from_nested(where).shape] if where is not None and isinstance(where, (XArray, list, tuple)) else []) + ([out.shape] if out is not None else [])
    nd = max(len(x) for x in shapes)
    sh = []
    for k in range(nd):
        dims = {x[len(x) - nd + k] for x in shapes if len(x) - nd + k >= 0} - {1}
        if len(dims) > 1:
            raise XArrayError(f"np.divide: operands could not be broadcast together {shapes}")
        sh.append(dims.pop() if dims else 1)
    sh = tuple(sh)
    Av, Bv = A.broadcast_to(sh).data, B.broadcast_to(sh).data
    n = len(Av)
    if where is None or where is True:
        vals = [x / y for x, y in zip(Av, Bv)]
    else:
        Wd = XArray.from_nested(where).broadcast_to(sh).data if isinstance(where, (XArray, list, tuple)) else [where] * n
        if not all(isinstance(w, bool) for w in Wd):
            raise XArrayError("np.divide where= of undecided booleans")
        base = out.broadcast_to(sh).data if out is not None else [Q(0)] * n
        vals = [(x / y) if w else o for x, y, w, o in zip(Av, Bv, Wd, base)]
    if out is not None:
        if out.shape != sh:
            raise XArrayError("np.divide out= of another shape")
        out.data[:] = vals
        return out
    return XArray(sh, vals) if sh != () or isinstance(a, XArray) or isinstance(b, XArray) else vals[0]


def _np_arccos(a):
    if isinstance(a, XArray):
        return XArray(a.shape, [_np_arccos(v) for v in a.data])
    a = exact(a)
    if isinstance(a, MQ) and a.is_rational():
        a = a.rational()
    table = {Fraction(1): Fraction(0), Fraction(-1): Fraction(1), Fraction(0): Fraction(1, 2), Fraction(1, 2): Fraction(1, 3), Fraction(-1, 2): Fraction(2, 3)}
    if isinstance(a, (int, Fraction)) and Fraction(a) in table:
        return PiMul(table[Fraction(a)])
    raise AlgError(f"arccos({a!r}) is outside the exact domain")


def _np_argext(a, axis, better):
    A = XArray.from_nested(a)
    if axis is None:
        best = 0
        for i in range(1, A.size):
            if better(exact(A.data[best]), exact(A.data[i])):
                best = i
        return best
    ax = int(axis) % A.ndim
    moved = A.transpose(*([i for i in range(A.ndim) if i != ax] + [ax])) if A.ndim > 1 else A
    n = A.shape[ax]
    out = []
    for k in range(0, moved.size, n):
        chunk = moved.data[k:k + n]
        best = 0
        for i in range(1, n):
            if better(exact(chunk[best]), exact(chunk[i])):
                best = i
        out.append(best)
    shape = tuple(A.shape[i] for i in range(A.ndim) if i != ax)
    return XArray(shape, out, "i") if shape else out[0]


def _np_moveaxis(a, src, dst):
    A = XArray.from_nested(a)
    src, dst = int(src) % A.ndim, int(dst) % A.ndim
    order = [i for i in range(A.ndim) if i != src]
    order.insert(dst, src)
    return A.transpose(*order)


def _np_flatnonzero(a):
    vals = list(XArray.from_nested(a).data)
    out = []
    for i, v in enumerate(vals):
        v = exact(v)
        if isinstance(v, bool):
            nz = v
        elif isinstance(v, (int, Fraction)):
            nz = v != 0
        elif isinstance(v, Poly) and v.is_const():
            nz = v.const_value() != 0
        else:
            raise XArrayError("np.flatnonzero of an undecided value")
        if nz:
            out.append(i)
    return XArray((len(out),), out)


def _np_bincount(x, weights=None, minlength=0):
    x = XArray.from_nested(x)
    idx = []
    for v in x.data:
        if isinstance(v, bool) or not isinstance(v, (int, Fraction)) or Fraction(v).denominator != 1 or v < 0:
            raise XArrayError("np.bincount needs concrete non-negative integers")
        idx.append(int(v))
    n = max(int(minlength), (max(idx) + 1) if idx else 0)
    w = list(XArray.from_nested(weights).data) if weights is not None else [1] * len(idx)
    if len(w) != len(idx):
        raise XArrayError("np.bincount: weights and x differ in length")
    out = [0] * n
    for i, v in zip(idx, w):
        out[i] = out[i] + v
    return XArray((n,), out)



def _np_add_at(a, idx, b):
    """np.add.at(a, idx, b): unbuffered in-place accumulation (repeated indices add up), 1-D target"""
    if not isinstance(a, XArray) or a.ndim != 1:
        raise XArrayError("np.add.at on a non 1-D target is not modelled")
    _, iv = _ints(idx, "add.at")
    bv = [b] * len(iv) if _is_num(b) else list(XArray.from_nested(b).data)
    if len(bv) != len(iv):
        raise XArrayError("np.add.at: indices and values differ in length")
    for i, v in zip(iv, bv):
        if not -a.shape[0] <= i < a.shape[0]:
            raise XArrayError("np.add.at: index out of bounds")
        a[i] = a.data[i % a.shape[0]] + v
    return None


def _ints(a, what):
    a = XArray.from_nested(a)
    out = []
    for x in a.data:
        if isinstance(x, bool) or not isinstance(x, (int, Fraction)) or Fraction(x).denominator != 1:
            raise XArrayError(f"np.{what} needs concrete integer data: outside the table grammar")
        out.append(int(x))
    return a, out


def _np_argsort(a, axis=-1, kind=None, **kw):
    a, v = _ints(a, "argsort")
    if a.ndim != 1:
        raise XArrayError("np.argsort of a non 1-D array")
    return XArray((len(v),), sorted(range(len(v)), key=lambda i: (v[i], i)))


def _np_sort(a, axis=-1, **kw):
    a, v = _ints(a, "sort")
    if a.ndim == 1:
        return XArray((len(v),), sorted(v))
    if a.ndim == 2 and axis in (-1, 1):
        n = a.shape[1]
        return XArray(a.shape, [x for i in range(a.shape[0]) for x in sorted(v[i * n:(i + 1) * n])])
    if a.ndim == 2 and axis == 0:
        return _np_sort(a.T, axis=1).T
    raise XArrayError("np.sort of this rank / axis is not modelled")


def _np_unique(a, return_index=False, return_inverse=False, return_counts=False, **kw):
    if kw:
        raise XArrayError("np.unique with options")
    a, v = _ints(a, "unique")
    if a.ndim != 1 and (return_index or return_inverse or return_counts):
        raise XArrayError("np.unique with options on a non 1-D array")
    u = sorted(set(v))
    out = [XArray((len(u),), u)]
    if return_index:
        out.append(XArray((len(u),), [v.index(x) for x in u]))  # first occurrence, as numpy
    if return_inverse:
        out.append(XArray((len(v),), [u.index(x) for x in v]))
    if return_counts:
        out.append(XArray((len(u),), [v.count(x) for x in u]))
    return out[0] if len(out) == 1 else tuple(out)


def _np_searchsorted(a, v, side="left", sorter=None):
    """exact numpy semantics, including the undefined-but-deterministic result for unsorted input
    (binary search over the array as given / as permuted by `sorter`)"""
    import bisect

    a, av = _ints(a, "searchsorted")
    if sorter is not None:
        _, sv = _ints(sorter, "searchsorted")
        av = [av[i] for i in sv]
    scalar = _is_num(v)
    q, qv = _ints([v] if scalar else v, "searchsorted")
    f = bisect.bisect_left if side == "left" else bisect.bisect_right
    res = [f(av, x) for x in qv]
    return res[0] if scalar else XArray(q.shape, res)


def _np_broadcast_to(a, shape, **kw):
    if isinstance(shape, (int, Fraction)):
        shape = (int(shape),)
    shape = tuple(int(s) for s in shape)
    a = XArray.from_nested(a) if not _is_num(a) else XArray((), [exact(a)])
    return a + XArray.full(shape, Q(0))


def _np_full(shape, value, dtype=None, **kw):
    if isinstance(shape, (int, Fraction)):
        shape = (int(shape),)
    out = XArray.full(tuple(int(x) for x in shape), exact(value))
    if dtype is object or (isinstance(dtype, str) and dtype in ("object", "O")) or getattr(dtype, "__name__", "") == "object":
        out.dtype = "O"
    return out


def _np_broadcast_shapes(*shapes):
    shapes = [tuple(int(x) for x in s) for s in shapes]
    nd = max((len(s) for s in shapes), default=0)
    out = []
    for k in range(nd):
        dims = {s[len(s) - nd + k] for s in shapes if len(s) - nd + k >= 0}
        dims.discard(1)
        if len(dims) > 1:
            raise ValueError("shape mismatch: objects cannot be broadcast to a single shape")
        out.append(dims.pop() if dims else 1)
    return tuple(out)


_NP_FUNCS.update(mean=lambda a, axis=None, **kw: XArray.from_nested(a).mean(axis, **kw))
_NP_FUNCS.update(broadcast_shapes=_np_broadcast_shapes, full=_np_full, argsort=_np_argsort, sort=_np_sort, unique=_np_unique, searchsorted=_np_searchsorted, broadcast_to=_np_broadcast_to)


def _np_swapaxes(a, i, j):
    a = XArray.from_nested(a)
    ax = list(range(a.ndim))
    i %= a.ndim
    j %= a.ndim
    ax[i], ax[j] = ax[j], ax[i]
    return a.transpose(*ax)


def _np_where(*a):
    """np.where on CONCRETE boolean masks only (index form and three-argument form)"""
    cond = a[0]
    if isinstance(cond, bool):
        cond = XArray((1,), [cond])
    if not isinstance(cond, XArray) or not all(isinstance(x, bool) for x in cond.data):
        raise XArrayError("np.where is data dependent: outside the table grammar")
    if len(a) == 1:
        if cond.ndim == 1:
            idx = [i for i, v in enumerate(cond.data) if v]
            return (XArray((len(idx),), idx, "i"),)
        # N-d mask: one index array per axis, row-major order of the hits
        import itertools as _it

        hits = [ix for ix, v in zip(_it.product(*[range(n) for n in cond.shape]), cond.data) if v]
        return tuple(XArray((len(hits),), [h[k] for h in hits], "i") for k in range(cond.ndim))
    x, y = a[1], a[2]
    xa = XArray.from_nested(x) if isinstance(x, (XArray, list, tuple)) else None
    ya = XArray.from_nested(y) if isinstance(y, (XArray, list, tuple)) else None
    sh = cond.shape
    for z in (xa, ya):
        if z is not None:
            sh = XArray._bshape(sh, z.shape)
    cond = cond.broadcast_to(sh)
    xs = xa.broadcast_to(sh) if xa is not None else None
    ys = ya.broadcast_to(sh) if ya is not None else None
    return XArray(sh, [(xs.data[i] if xs is not None else exact(x)) if c else (ys.data[i] if ys is not None else exact(y)) for i, c in enumerate(cond.data)])


def _np_intersect1d(a, b, **kw):
    """sorted unique values present in both (concrete integer / exact values only)"""
    A, B = XArray.from_nested(a), XArray.from_nested(b)
    vals = sorted({exact(x) for x in A.data} & {exact(x) for x in B.data})
    return XArray((len(vals),), vals, "i" if A.dtype == "i" or B.dtype == "i" else None)


def _np_setdiff1d(a, b, **kw):
    def flat(v):
        if isinstance(v, tuple) and len(v) == 1:
            v = v[0]
        return [int(x) for x in XArray.from_nested(list(v) if not isinstance(v, XArray) else v).ravel().data]

    fa, fb = flat(a), set(flat(b))
    out = sorted({x for x in fa if x not in fb})
    return XArray((len(out),), out)


_NP_CONSTS = {}


def _py_len(x):
    return len(x)


def _py_range(*a):
    return list(range(*[int(x) for x in a]))


def _py_sum(seq, start=0):
    tot = start
    for x in seq:
        tot = tot + x
    return tot


def _py_isinstance(obj, cls):
    cl = cls if isinstance(cls, tuple) else (cls,)
    if isinstance(obj, Poly) and obj.is_const():
        obj = obj.const_value()  # a number that went through polynomial arithmetic
    elif isinstance(obj, Rat) and obj.is_poly() and obj.as_poly().is_const():
        obj = obj.as_poly().const_value()
    elif isinstance(obj, XArray) and obj.ndim == 0 and obj.size == 1 and float in cl and _NpAttr("ndarray") not in cl:
        obj = obj.data[0]
    for c in cl:
        if isinstance(c, ClassInfo):
            if c.name == "FeArray" and isinstance(obj, XArray) and (type(obj).__name__ == "XFe" or getattr(type(obj), "_is_fearray_model", False)):
                return True
            if isinstance(obj, EnumVal) and (obj.cls is c or c in obj.cls.mro):
                return True
            if isinstance(obj, XObj) and c in obj.cls.mro:
                return True
        elif isinstance(c, _NpAttr):
            if c.path == "ndarray" and isinstance(obj, XArray):
                return True
        elif c is str:
            if isinstance(obj, str) or (isinstance(obj, EnumVal) and isinstance(obj.value, str)):
                return True
        elif c is int:
            if isinstance(obj, int) and not isinstance(obj, bool):
                return True
            if isinstance(obj, Fraction) and obj.denominator == 1:
                return True
        elif c is float:
            if isinstance(obj, (Fraction, MQ)):
                return True
        elif isinstance(c, type):
            if isinstance(obj, c):
                return True
        elif isinstance(c, Opaque):
            # abstract base classes of the standard library reached through an import
            leaf = c.tag.split(".")[-1]
            if leaf in ("Iterable", "Collection", "Sequence", "Sized", "Container") and isinstance(obj, (list, tuple, XArray, dict, set, frozenset, str, range)):
                return True
            if leaf in ("Mapping", "MutableMapping") and isinstance(obj, dict):
                return True
            if leaf in ("Number", "Real", "Rational", "Integral", "Complex") and isinstance(obj, (int, Fraction, MQ, float)) and not isinstance(obj, bool):
                return True
            if leaf == "Callable" and (isinstance(obj, (Closure, _Bound, FuncInfo)) or callable(obj)):
                return True
            if leaf in ("partialmethod", "partial") and isinstance(obj, _PartialMethod):
                return True
    return False


def _py_setattr(o, n, v):
    if isinstance(o, XObj):
        o.attrs[n] = v
    elif getattr(type(o), "_xeval_open", False):
        setattr(o, n, v)
    else:
        raise AnalysisError(f"setattr on {type(o).__name__}")


def _py_copy(x, deep=False, memo=None):
    """copy.copy / copy.deepcopy of the values the interpreter carries"""
    memo = {} if memo is None else memo
    if id(x) in memo:
        return memo[id(x)]
    if isinstance(x, XArray):
        out = type(x)(x.shape, list(x.data), x.dtype) if type(x).__name__ in ("XArray", "FeV", "XFe") else x.copy()
        memo[id(x)] = out
        return out
    if isinstance(x, XObj):
        out = XObj(x.cls, {})
        memo[id(x)] = out
        out.attrs.update({k: (_py_copy(v, True, memo) if deep else v) for k, v in x.attrs.items()})
        return out
    if isinstance(x, list):
        out = []
        memo[id(x)] = out
        out.extend((_py_copy(v, True, memo) if deep else v) for v in x)
        return out
    if isinstance(x, dict):
        out = {}
        memo[id(x)] = out
        out.update({k: (_py_copy(v, True, memo) if deep else v) for k, v in x.items()})
        return out
    if isinstance(x, tuple) and deep:
        return tuple(_py_copy(v, True, memo) for v in x)
    if isinstance(x, set):
        return set(x)
    return x


_ENUM_REPO = [None]


def _enum_iter(x):
    """iteration over an Enum class of the repository: its members in definition order"""
    if isinstance(x, ClassInfo) and x.is_enum() and _ENUM_REPO[0] is not None:
        return [EnumVal(x, k, v) for k, v in _ENUM_REPO[0].enum_members(x.qualname).items()]
    return x


_PY_BUILTINS = {
    "len": _py_len,
    "range": _py_range,
    "sum": _py_sum,
    "isinstance": _py_isinstance,
    "int": int,
    "float": float,
    "object": object,
    "chr": lambda x: chr(int(x)),
    "ord": ord,
    "round": round,
    "divmod": divmod,
    "frozenset": frozenset,
    "callable": lambda o: isinstance(o, (Closure, _Bound, FuncInfo)) or (callable(o) and not isinstance(o, (XArray, XObj, Opaque))),
    "getattr": lambda o, n, d=None: getattr(o, n, d) if not isinstance(o, (XObj,)) else o.attrs.get(n, d),
    "hasattr": lambda o, n: (n == "__class__" or n in o.attrs or any(n in c.methods or n in c.class_attrs for c in o.cls.mro)) if isinstance(o, XObj) else hasattr(o, n),
    "setattr": _py_setattr,
    "complex": complex,
    "next": lambda it, *d: next(it, *d),
    "iter": iter,
    "str": str,
    "slice": slice,
    "bool": bool,
    "list": list,
    "tuple": tuple,
    "dict": dict,
    "set": set,
    "zip": lambda *a: list(zip(*a)),
    "enumerate": lambda x, start=0: list(enumerate(x, start)),
    "abs": lambda x: abs(exact(x)),
    "min": min,
    "max": max,
    "sorted": sorted,
    "reversed": lambda x: list(reversed(x)),
    "any": any,
    "all": all,
    "print": lambda *a, **k: None,
    "True": True,
    "False": False,
    "None": None,
    "Ellipsis": Ellipsis,
    "NotImplementedError": "NotImplementedError",
    "ValueError": "ValueError",
    "TypeError": "TypeError",
    "Exception": "Exception",
}


def _np_linalg_inv(a):
    """np.linalg.inv on one matrix or a stack of matrices: exact Gauss-Jordan over the field of the entries"""
    from .xsparse import solve_dense, SingularSystem

    a = XArray.from_nested(a)
    if a.ndim < 2 or a.shape[-1] != a.shape[-2]:
        raise XRaise("LinAlgError", "Last 2 dimensions of the array must be square")
    n = a.shape[-1]
    lead = a.shape[:-2]
    cnt = 1
    for s in lead:
        cnt *= s
    flat = a.reshape((cnt, n, n))
    out = []
    eye_ = [[Q(1) if i == j else Q(0) for j in range(n)] for i in range(n)]
    for k in range(cnt):
        rows = [[flat[k, i, j] for j in range(n)] for i in range(n)]
        try:
            X = solve_dense(rows, eye_)
        except SingularSystem:
            raise XRaise("LinAlgError", "Singular matrix")
        out.extend(v for row in X for v in row)
    return XArray(tuple(lead) + (n, n), out)


def _np_linalg_solve(a, b):
    out = _np_linalg_solve_exact(a, b)
    if APPROX_SQRT_DIGITS is not None and isinstance(out, XArray):
        # the rounding backend of incremental scenarios (see e2e.World.round_digits): dense solves are rounded as well
        sc = 10 ** APPROX_SQRT_DIGITS
        vals = []
        for v in out.data:
            if isinstance(v, Poly) and v.is_const():
                v = v.const_value()
            vals.append(Fraction(round(Fraction(v) * sc), sc) if isinstance(v, (int, Fraction)) else v)
        out = XArray(out.shape, vals)
    return out


def _np_linalg_solve_exact(a, b):
    from .xsparse import solve_dense, SingularSystem

    a, b = XArray.from_nested(a), XArray.from_nested(b)
    if a.ndim > 2:
        # a stack of systems (numpy 2 semantics: b is a stack of matrices (..., n, k) when b.ndim == a.ndim, a stack of
        # vectors (..., n) when b.ndim == a.ndim - 1), solved one by one
        n = a.shape[-1]
        if a.shape[-2] != n:
            raise XRaise("LinAlgError", "Last 2 dimensions of the array must be square")
        lead = a.shape[:-2]
        cnt = 1
        for d in lead:
            cnt *= d
        vec = b.ndim == a.ndim - 1
        if not vec and b.ndim != a.ndim:
            raise Uninterpretable("np.linalg.solve: broadcasting of the stacked right-hand side is not modelled")
        if b.shape[:len(lead)] != lead or b.shape[len(lead)] != n:
            raise XRaise("ValueError", f"solve: mismatch in dimensions {a.shape} / {b.shape}")
        k = 1 if vec else b.shape[-1]
        out = []
        for m in range(cnt):
            rows = [[a.data[(m * n + i) * n + j] for j in range(n)] for i in range(n)]
            try:
                if vec:
                    out.extend(solve_dense(rows, [b.data[m * n + i] for i in range(n)]))
                else:
                    X = solve_dense(rows, [[b.data[(m * n + i) * k + c] for c in range(k)] for i in range(n)])
                    out.extend(v for row in X for v in row)
            except SingularSystem:
                raise XRaise("LinAlgError", "Singular matrix")
        return XArray(b.shape, out)
    n = a.shape[0]
    rows = [[a[i, j] for j in range(n)] for i in range(n)]
    try:
        if b.ndim == 1:
            return XArray((n,), solve_dense(rows, list(b.data)))
        X = solve_dense(rows, [[b[i, k] for k in range(b.shape[1])] for i in range(n)])
    except SingularSystem:
        raise XRaise("LinAlgError", "Singular matrix")
    return XArray((n, b.shape[1]), [v for row in X for v in row])


def _np_linalg_eigh(a, **kw):
    """np.linalg.eigh of ONE symmetric matrix of numbers, in the rounding mode of incremental scenarios only (cyclic Jacobi
    rotations on exact rationals, every rotation rounded to 2 n digits): eigenvalues ascending, eigenvectors as columns,
    accurate to about n digits.  Outside that mode the function stays unmodelled."""
    if APPROX_SQRT_DIGITS is None:
        raise Uninterpretable("numpy function np.linalg.eigh is not modelled")
    A = XArray.from_nested(a)
    if A.ndim != 2 or A.shape[0] != A.shape[1]:
        raise Uninterpretable("np.linalg.eigh on a stack of matrices is not modelled")
    n = A.shape[0]
    sc = 10 ** APPROX_SQRT_DIGITS
    rnd = lambda v: Fraction(round(v * sc), sc)
    M = []
    for i in range(n):
        row = []
        for j in range(n):
            v = exact(A[i, j])
            if isinstance(v, Poly) and v.is_const():
                v = v.const_value()
            if isinstance(v, MQ):
                v = v.rational() if v.is_rational() else Fraction(v.approx())
            if not isinstance(v, (int, Fraction)):
                raise Uninterpretable("np.linalg.eigh of a symbolic matrix is not modelled")
            row.append(Fraction(v))
        M.append(row)
    # numpy reads the lower triangle
    for i in range(n):
        for j in range(i + 1, n):
            M[i][j] = M[j][i]
    V = [[Fraction(int(i == j)) for j in range(n)] for i in range(n)]
    tiny = Fraction(1, sc)
    for sweep in range(60):
        off = sum(M[i][j] * M[i][j] for i in range(n) for j in range(i))
        if off <= tiny * tiny:
            break
        for p_ in range(n):
            for q_ in range(p_ + 1, n):
                if M[p_][q_] == 0:
                    continue
                theta = (M[q_][q_] - M[p_][p_]) / (2 * M[p_][q_])
                t = 1 / (abs(theta) + _np_sqrt(theta * theta + 1))
                if theta < 0:
                    t = -t
                t = rnd(t)
                c = rnd(1 / _np_sqrt(t * t + 1))
                s_ = rnd(t * c)
                for k in range(n):
                    mkp, mkq = M[k][p_], M[k][q_]
                    M[k][p_], M[k][q_] = rnd(c * mkp - s_ * mkq), rnd(s_ * mkp + c * mkq)
                for k in range(n):
                    mpk, mqk = M[p_][k], M[q_][k]
                    M[p_][k], M[q_][k] = rnd(c * mpk - s_ * mqk), rnd(s_ * mpk + c * mqk)
                for k in range(n):
                    vkp, vkq = V[k][p_], V[k][q_]
                    V[k][p_], V[k][q_] = rnd(c * vkp - s_ * vkq), rnd(s_ * vkp + c * vkq)
    order = sorted(range(n), key=lambda i: M[i][i])
    w = XArray((n,), [M[i][i] for i in order])
    v = XArray((n, n), [V[r][i] for r in range(n) for i in order])
    return (w, v)


_NP_FUNCS.setdefault("linalg.eigh", _np_linalg_eigh)
_NP_FUNCS.setdefault("linalg.inv", _np_linalg_inv)
_NP_FUNCS.setdefault("linalg.solve", _np_linalg_solve)


def _np_matmul(a, b, **kw):
    from .xarray import matmul as _mm

    a, b = XArray.from_nested(a), XArray.from_nested(b)
    try:
        return _mm(a, b)
    except XArrayError as e:
        if "shape mismatch" in str(e):
            raise XRaise("ValueError", f"matmul: dimension mismatch ({e})")
        raise


_NP_FUNCS.setdefault("matmul", _np_matmul)


# ---- a second batch of numpy functions (added after behaviour-preserving rewrites by independent agents used them) ----------
def _xa(a):
    return a if isinstance(a, XArray) else XArray.from_nested(a)


def _np_logical(op):
    def f(a, b=None, **kw):
        a = _xa(a)
        if b is None:
            return XArray(a.shape, [not bool(_truthy(v)) for v in a.data])
        b = _xa(b)
        return XArray._binop(a, b, lambda x, y: op(bool(_truthy(x)), bool(_truthy(y))))

    return f


def _truthy(v):
    v = exact(v)
    if isinstance(v, bool):
        return v
    if isinstance(v, (int, Fraction)):
        return v != 0
    if isinstance(v, (Poly, Rat, MQ)):
        z = v.is_zero()
        if not z and isinstance(v, (Poly, Rat)) and not (isinstance(v, Poly) and v.is_const()):
            raise XArrayError("truth value of a symbolic entry")
        return not z
    return bool(v)


def _np_expand_dims(a, axis):
    a = _xa(a)
    axes = sorted((ax if ax >= 0 else ax + a.ndim + 1) for ax in (axis if isinstance(axis, (tuple, list)) else (axis,)))
    sh = list(a.shape)
    for ax in axes:
        sh.insert(int(ax), 1)
    return a.reshape(*sh)


def _np_squeeze(a, axis=None):
    a = _xa(a)
    if axis is None:
        sh = [s for s in a.shape if s != 1]
    else:
        axes = {int(ax) % a.ndim for ax in (axis if isinstance(axis, (tuple, list)) else (axis,))}
        for ax in axes:
            if a.shape[ax] != 1:
                raise XRaise("ValueError", "cannot select an axis to squeeze out which has size not equal to one")
        sh = [s for i, s in enumerate(a.shape) if i not in axes]
    return a.reshape(*sh) if sh else a.data[0]


def _np_hstack(tup, **kw):
    arrs = [_xa(t) for t in tup]
    arrs = [a.reshape(1) if a.ndim == 0 else a for a in arrs]
    return _NP_FUNCS["concatenate"](arrs, axis=0 if arrs[0].ndim == 1 else 1)


def _np_column_stack(tup):
    arrs = [_xa(t) for t in tup]
    arrs = [a.reshape(-1, 1) if a.ndim == 1 else a for a in arrs]
    return _NP_FUNCS["concatenate"](arrs, axis=1)


def _np_dstack(tup):
    arrs = []
    for t in tup:
        a = _xa(t)
        if a.ndim == 1:
            a = a.reshape(1, -1, 1)
        elif a.ndim == 2:
            a = a.reshape(a.shape[0], a.shape[1], 1)
        arrs.append(a)
    return _NP_FUNCS["concatenate"](arrs, axis=2)


def _np_take(a, indices, axis=None, **kw):
    a = _xa(a)
    if axis is None:
        return a.ravel()[indices if not isinstance(indices, list) else _xa(indices)]
    ax = int(axis) % a.ndim
    key = tuple([slice(None)] * ax + [indices if not isinstance(indices, list) else _xa(indices)])
    return a[key]


def _np_take_along_axis(a, indices, axis):
    import itertools as _it

    a, idx = _xa(a), _xa(indices)
    ax = int(axis) % a.ndim
    if idx.ndim != a.ndim:
        raise XRaise("ValueError", "`indices` and `arr` must have the same number of dimensions")
    lead = tuple(max(s, t) if k != ax else t for k, (s, t) in enumerate(zip(a.shape, idx.shape)))
    out = []
    for pos in _it.product(*[range(n) for n in lead]):
        ip = tuple(p if idx.shape[k] != 1 else 0 for k, p in enumerate(pos))
        j = int(exact(idx[ip]))
        ap = tuple((p if a.shape[k] != 1 else 0) if k != ax else j for k, p in enumerate(pos))
        out.append(a[ap])
    return XArray(lead, out)


def _np_union1d(a, b):
    vals = sorted(set(exact(v) for v in _xa(a).ravel().data) | set(exact(v) for v in _xa(b).ravel().data))
    return XArray((len(vals),), vals, _xa(a).dtype)


def _np_prod(a, axis=None, **kw):
    a = _xa(a)
    if axis is None:
        tot = 1
        for v in a.data:
            tot = tot * v
        return tot
    ax = int(axis) % a.ndim
    moved = a.transpose(*([i for i in range(a.ndim) if i != ax] + [ax]))
    n = a.shape[ax]
    out = []
    for k in range(0, len(moved.data), n):
        tot = 1
        for v in moved.ravel().data[k : k + n] if moved.order is not None else moved.data[k : k + n]:
            tot = tot * v
        out.append(tot)
    return XArray(moved.shape[:-1], out)


def _np_tensordot(a, b, axes=2):
    a, b = _xa(a), _xa(b)
    if isinstance(axes, int):
        ax_a, ax_b = list(range(a.ndim - axes, a.ndim)), list(range(axes))
    else:
        ax_a, ax_b = axes
        ax_a = [ax_a] if isinstance(ax_a, int) else list(ax_a)
        ax_b = [ax_b] if isinstance(ax_b, int) else list(ax_b)
    ax_a = [x % a.ndim for x in ax_a]
    ax_b = [x % b.ndim for x in ax_b]
    letters = "abcdefghijklmnopqrstuvwxyz"
    la = list(letters[: a.ndim])
    lb = list(letters[a.ndim : a.ndim + b.ndim])
    for x, y in zip(ax_a, ax_b):
        lb[y] = la[x]
    out = [c for i, c in enumerate(la) if i not in ax_a] + [c for i, c in enumerate(lb) if i not in ax_b]
    return _NP_FUNCS["einsum"]("".join(la) + "," + "".join(lb) + "->" + "".join(out), a, b)


def _np_linspace(start, stop, num=50, endpoint=True, **kw):
    start, stop, num = exact(start), exact(stop), int(num)
    div = (num - 1) if endpoint else num
    return XArray((num,), [start + (stop - start) * Fraction(k, div) if div else start for k in range(num)])


def _np_atleast(n):
    def f(a):
        a = _xa(a)
        while a.ndim < n:
            a = a.reshape(*((1,) + a.shape)) if n < 3 or a.ndim != 2 else a.reshape(*(a.shape + (1,)))
        return a

    return f


def _np_append(arr, values, axis=None):
    if axis is None:
        return _NP_FUNCS["concatenate"]([_xa(arr).ravel(), _xa(values).ravel()])
    return _NP_FUNCS["concatenate"]([_xa(arr), _xa(values)], axis=axis)


def _np_flip(a, axis=None):
    a = _xa(a)
    axes = range(a.ndim) if axis is None else ([int(axis) % a.ndim] if not isinstance(axis, (tuple, list)) else [int(x) % a.ndim for x in axis])
    key = tuple(slice(None, None, -1) if i in axes else slice(None) for i in range(a.ndim))
    return a[key]


def _np_nonzero(a):
    a = _xa(a)
    import itertools as _it

    pos = [p for p, v in zip(_it.product(*[range(n) for n in a.shape]), a.ravel().data if a.order is not None else a.data) if _truthy(v)]
    return tuple(XArray((len(pos),), [p[k] for p in pos], "i") for k in range(a.ndim))


def _np_argwhere(a):
    nz = _np_nonzero(a)
    n = nz[0].shape[0] if nz else 0
    return XArray((n, len(nz)), [nz[k].data[i] for i in range(n) for k in range(len(nz))], "i")


def _np_like(fill):
    def f(a, *args, dtype=None, **kw):
        a = _xa(a)
        v = fill if fill is not None else (args[0] if args else kw.get("fill_value"))
        return XArray(a.shape, [v] * a.size, dtype if dtype is not None else a.dtype)

    return f


def _np_diagonal(a, offset=0, axis1=0, axis2=1):
    a = _xa(a)
    if a.ndim != 2 or axis1 != 0 or axis2 != 1:
        raise Uninterpretable("np.diagonal beyond a 2-D array is not modelled")
    n = min(a.shape[0], a.shape[1] - offset) if offset >= 0 else min(a.shape[0] + offset, a.shape[1])
    return XArray((max(n, 0),), [a[i - min(offset, 0), i + max(offset, 0)] for i in range(max(n, 0))])


def _np_tri(upper):
    def f(m, k=0):
        m = _xa(m)
        r, c = m.shape[-2:]
        out = m.copy()
        import itertools as _it

        for lead in _it.product(*[range(n) for n in m.shape[:-2]]):
            for i in range(r):
                for j in range(c):
                    if (j - i < k) if upper else (j - i > k):
                        out[lead + (i, j)] = Fraction(0)
        return out

    return f


def _np_ix(*seqs):
    n = len(seqs)
    out = []
    for k, s in enumerate(seqs):
        a = _xa(s)
        out.append(a.reshape(*[(a.shape[0] if i == k else 1) for i in range(n)]))
    return tuple(out)


def _np_unravel_index(indices, shape):
    shape = tuple(int(s) for s in shape)
    scalar = not isinstance(indices, (XArray, list, tuple))
    idx = [int(exact(v)) for v in (_xa(indices).ravel().data if not scalar else [indices])]
    cols = []
    for s in reversed(shape):
        cols.append([i % s for i in idx])
        idx = [i // s for i in idx]
    cols.reverse()
    if scalar:
        return tuple(c[0] for c in cols)
    return tuple(XArray((len(c),), c, "i") for c in cols)


def _np_split(ary, indices_or_sections, axis=0):
    a = _xa(ary)
    ax = int(axis) % a.ndim
    n = a.shape[ax]
    if isinstance(indices_or_sections, (int, Fraction)):
        k = int(indices_or_sections)
        if n % k:
            raise XRaise("ValueError", "array split does not result in an equal division")
        cuts = [n // k * i for i in range(1, k)]
    else:
        cuts = [int(exact(v)) for v in _xa(indices_or_sections).data]
    out, lo = [], 0
    for c in cuts + [n]:
        key = tuple(slice(lo, c) if i == ax else slice(None) for i in range(a.ndim))
        out.append(a[key])
        lo = c
    return out


def _np_round(a, decimals=0, **kw):
    def rd(v):
        v = exact(v)
        if isinstance(v, (int, Fraction)):
            return Fraction(round(Fraction(v) * 10**decimals), 10**decimals)
        raise XArrayError("np.round of a symbolic entry")

    if isinstance(a, (XArray, list, tuple)):
        a = _xa(a)
        return XArray(a.shape, [rd(v) for v in a.data])
    return rd(a)


def _np_elementwise(f):
    def g(a, *rest, **kw):
        if isinstance(a, (XArray, list, tuple)):
            a = _xa(a)
            return type(a)(a.shape, [f(exact(v)) for v in a.data]) if type(a) is XArray else XArray(a.shape, [f(exact(v)) for v in a.data])
        return f(exact(a))

    return g


def _isfinite(v):
    return True


for _k, _v in {
    "logical_not": _np_logical(None),
    "logical_and": _np_logical(lambda x, y: x and y),
    "logical_or": _np_logical(lambda x, y: x or y),
    "logical_xor": _np_logical(lambda x, y: x != y),
    "expand_dims": _np_expand_dims,
    "squeeze": _np_squeeze,
    "hstack": _np_hstack,
    "column_stack": _np_column_stack,
    "dstack": _np_dstack,
    "take": _np_take,
    "take_along_axis": _np_take_along_axis,
    "union1d": _np_union1d,
    "prod": _np_prod,
    "tensordot": _np_tensordot,
    "linspace": _np_linspace,
    "atleast_1d": _np_atleast(1),
    "atleast_2d": _np_atleast(2),
    "atleast_3d": _np_atleast(3),
    "append": _np_append,
    "flip": _np_flip,
    "nonzero": _np_nonzero,
    "argwhere": _np_argwhere,
    "full_like": _np_like(None),
    "empty_like": _np_like(Fraction(0)),
    "diagonal": _np_diagonal,
    "triu": _np_tri(True),
    "tril": _np_tri(False),
    "ix_": _np_ix,
    "unravel_index": _np_unravel_index,
    "split": _np_split,
    "array_split": _np_split,
    "round": _np_round,
    "around": _np_round,
    "square": _np_elementwise(lambda v: v * v),
    "absolute": _np_elementwise(lambda v: abs(v)),
    "isnan": _np_elementwise(lambda v: False),
    "isfinite": _np_elementwise(lambda v: True),
    "copy": lambda a, **kw: _xa(a).copy(),
    "true_divide": lambda a, b, **kw: _NP_FUNCS["divide"](a, b, **kw),
    "power": lambda a, b, **kw: _xa(a) ** b if isinstance(a, (XArray, list, tuple)) else exact(a) ** b,
    "mod": lambda a, b: _xa(a) % b if isinstance(a, (XArray, list, tuple)) else exact(a) % b,
    "remainder": lambda a, b: _xa(a) % b if isinstance(a, (XArray, list, tuple)) else exact(a) % b,
    "floor_divide": lambda a, b: _xa(a) // b if isinstance(a, (XArray, list, tuple)) else exact(a) // b,
    "int_": int,
    "float_": float,
    "bool_": bool,
    "intp": int,
}.items():
    _NP_FUNCS.setdefault(_k, _v)


class _PartialMethod:
    """functools.partialmethod / partial of a function of the repository"""

    _xeval_open = True

    def __init__(self, interp, func, args, kwargs, method=True):
        self.I, self.func, self.args, self.kwargs, self.method = interp, func, args, kwargs, method

    def _call(self, inst, a, k):
        kw = dict(self.kwargs)
        kw.update(k)
        f = self.func
        if isinstance(f, FuncInfo):
            if inst is not None:
                return self.I.call_function(f, list(self.args) + list(a), kw, self_obj=inst)
            return self.I.call_function(f, list(self.args) + list(a), kw)
        return f(*(([inst] if inst is not None else []) + list(self.args) + list(a)), **kw)

    def __get__(self, inst, owner=None):
        return lambda *a, **k: self._call(inst, a, k)

    def __call__(self, *a, **k):
        return self._call(None, a, k)


def _py_type(o):
    if isinstance(o, XObj):
        return o.cls
    if isinstance(o, XArray):
        return _NpAttr("ndarray")
    if isinstance(o, Fraction):
        return float if o.denominator != 1 else int
    return type(o)


_PY_BUILTINS.setdefault("type", _py_type)


def _np_isclose(a, b, rtol=Fraction(1, 10**5), atol=Fraction(1, 10**8), equal_nan=False):
    """numpy's |a - b| <= atol + rtol |b| on exact numbers"""
    rtol, atol = exact(rtol), exact(atol)

    def one(x, y):
        x, y = exact(x), exact(y)
        for v in (x, y):
            if isinstance(v, (Poly, Rat)) and not (isinstance(v, Poly) and v.is_const()):
                raise XArrayError("np.isclose of a symbolic entry")
        x = x.const_value() if isinstance(x, Poly) else x
        y = y.const_value() if isinstance(y, Poly) else y
        return abs(x - y) <= atol + rtol * abs(y)

    if isinstance(a, (XArray, list, tuple)) or isinstance(b, (XArray, list, tuple)):
        A = _xa(a) if isinstance(a, (XArray, list, tuple)) else XArray((), [a]) if False else None
        if A is None:
            A = XArray.full(_xa(b).shape, a)
        B = _xa(b) if isinstance(b, (XArray, list, tuple)) else XArray.full(A.shape, b)
        return XArray._binop(A, B, one)
    return one(a, b)


def _np_allclose(a, b, **kw):
    r = _np_isclose(a, b, **kw)
    return all(bool(v) for v in r.data) if isinstance(r, XArray) else bool(r)


_NP_FUNCS.setdefault("isclose", _np_isclose)
_NP_FUNCS.setdefault("allclose", _np_allclose)


def _np_meshgrid_n(xs, indexing="xy"):
    """np.meshgrid for any number of 1-D inputs, 'xy' and 'ij' indexing"""
    import itertools as _it

    arrs = [XArray.from_nested(x).ravel() for x in xs]
    if indexing not in ("xy", "ij"):
        raise XRaise("ValueError", "Valid values for `indexing` are 'xy' and 'ij'.")
    if len(arrs) == 2 and indexing == "xy":
        return _np_meshgrid(arrs[0], arrs[1], "xy")
    sizes = [a.size for a in arrs]
    out = []
    for k, a in enumerate(arrs):
        out.append(XArray(tuple(sizes), [a.data[pos[k]] for pos in _it.product(*[range(n) for n in sizes])], a.dtype))
    if indexing == "xy" and len(arrs) > 2:
        out = [o.transpose(*([1, 0] + list(range(2, len(arrs))))) for o in out]
    return out


def _np_block(arrays):
    """np.block of a (nested) list of blocks: innermost lists are joined along the last axis, the next level along the
    second-to-last"""

    def depth(x):
        return 1 + depth(x[0]) if isinstance(x, list) else 0

    def build(x, level, maxd):
        if not isinstance(x, list):
            a = _xa(x) if isinstance(x, (XArray, tuple)) else XArray((), [x]) if False else _xa([x]).reshape(*([1] * maxd)) if not isinstance(x, XArray) else x
            while a.ndim < maxd:
                a = a.reshape(*((1,) + a.shape))
            return a
        parts = [build(y, level + 1, maxd) for y in x]
        return _NP_FUNCS["concatenate"](parts, axis=-(depth(x)))

    d = depth(arrays)
    nd = max(d, 1)

    def leaves(x):
        if isinstance(x, list):
            for y in x:
                yield from leaves(y)
        else:
            yield x

    nd = max([nd] + [(_xa(l).ndim if isinstance(l, (XArray, list, tuple)) else 0) for l in leaves(arrays)])
    return build(arrays, 0, nd)


_NP_FUNCS.setdefault("block", _np_block)


def _np_ndindex(*shape):
    import itertools as _it

    if len(shape) == 1 and isinstance(shape[0], (tuple, list)):
        shape = tuple(shape[0])
    return list(_it.product(*[range(int(exact(n))) for n in shape]))


_NP_FUNCS.setdefault("ndindex", _np_ndindex)
_NP_FUNCS.setdefault("ndenumerate", lambda a: [(pos, _xa(a)[pos]) for pos in _np_ndindex(*_xa(a).shape)])


def _np_hypot(a, b):
    return _NP_FUNCS["sqrt"](_xa(a) * _xa(a) + _xa(b) * _xa(b)) if isinstance(a, (XArray, list, tuple)) or isinstance(b, (XArray, list, tuple)) else _NP_FUNCS["sqrt"](exact(a) * exact(a) + exact(b) * exact(b))


def _conj(v):
    re_, im_ = cx_parts(v)
    return re_ - IMAG * im_ if not (isinstance(im_, (int, Fraction)) and im_ == 0) else re_


def _np_conj(a):
    if isinstance(a, (XArray, list, tuple)):
        a = _xa(a)
        return XArray(a.shape, [_conj(v) for v in a.data])
    return _conj(a)


def _np_vecdot(a, b, axis=-1, **kw):
    """np.vecdot: sum over the axis of conj(a) * b (numpy conjugates the FIRST argument)"""
    A, B = _xa(a), _xa(b)
    prod = XArray._binop(_np_conj(A), B, lambda x, y: x * y)
    return prod.sum(axis=int(axis) % prod.ndim)


_NP_FUNCS.setdefault("hypot", _np_hypot)
_NP_FUNCS.setdefault("conj", _np_conj)
_NP_FUNCS.setdefault("conjugate", _np_conj)
_NP_FUNCS.setdefault("vecdot", _np_vecdot)
_NP_FUNCS.setdefault("inner", lambda a, b: _NP_FUNCS["tensordot"](a, b, axes=([-1], [-1])) if _xa(a).ndim and _xa(b).ndim else exact(a) * exact(b))
