"""Symbolic single-element run of the isoparametric chain of _GroupElem:
Get_F_e_pg -> Get_invF_e_pg -> Get_dN_e_pg -> Get_B_e_pg, interpreted on one
element whose Gauss point is the *symbolic* reference point (x, y, z), so that
every result is a rational function of the reference coordinates."""

from __future__ import annotations

from types import SimpleNamespace

from .alg import Poly, Q, Rat
from .elems import ElemLib, VARS
from .geom import Geometry
from .repo import AnalysisError
from .xeval import Interp, XObj, _Bound, Opaque
from .xarray import XArray

GE = "EasyFEA.FEM._group_elem._GroupElem"

# generic rational straight-sided reference geometries (no symmetry, positive Jacobian)
_VERTS = {
    "SEG": [(Q(1, 3),), (Q(9, 4),)],
    "TRI": [(Q(1, 5), Q(-1, 7)), (Q(13, 6), Q(2, 9)), (Q(3, 8), Q(11, 5))],
    "QUAD": [(Q(-1, 9), Q(1, 11)), (Q(17, 8), Q(-2, 7)), (Q(19, 7), Q(13, 6)), (Q(2, 13), Q(9, 5))],
    "TETRA": [(Q(1, 7), Q(-1, 5), Q(2, 9)), (Q(11, 5), Q(1, 8), Q(-1, 6)), (Q(2, 11), Q(13, 7), Q(1, 10)), (Q(-1, 12), Q(3, 14), Q(9, 4))],
    "HEXA": [
        (Q(-1, 9), Q(1, 11), Q(1, 13)), (Q(17, 8), Q(-2, 7), Q(-1, 15)), (Q(19, 7), Q(13, 6), Q(2, 17)), (Q(2, 13), Q(9, 5), Q(-1, 19)),
        (Q(1, 10), Q(-1, 12), Q(21, 10)), (Q(15, 7), Q(1, 9), Q(17, 9)), (Q(23, 9), Q(11, 5), Q(25, 11)), (Q(-1, 14), Q(19, 10), Q(9, 4)),
    ],
    "PRISM": [
        (Q(1, 5), Q(-1, 7), Q(1, 12)), (Q(13, 6), Q(2, 9), Q(-1, 10)), (Q(3, 8), Q(11, 5), Q(2, 15)),
        (Q(1, 9), Q(1, 8), Q(19, 9)), (Q(15, 7), Q(1, 4), Q(21, 10)), (Q(2, 7), Q(23, 10), Q(17, 8)),
    ],
}


def fe_hook(fn, args, kwargs):
    if isinstance(fn, _Bound) and fn.finfo.name in ("asfearray",):
        return args[0]
    return NotImplemented


class Chain:
    def __init__(self, lib: ElemLib, name: str, symbolic_vertices=False, fe=False):
        self.lib = lib
        ed = lib.get(name)
        self.ed = ed
        repo = lib.repo
        dim = ed.dim
        g = Geometry(lib, name)
        self.geom = g
        if symbolic_vertices:
            env = {}
        else:
            vs = _VERTS[ed.shape]
            env = {f"X{a}_{k}": vs[a][k] for a in range(len(vs)) for k in range(dim)}
        self.env = env
        coords = []
        for a in range(ed.nPe):
            row = [g.Xnode[a][k].subs(env) if env else g.Xnode[a][k] for k in range(dim)]
            row = [p.const_value() if p.is_const() else p for p in row]
            coords.append(row + [Q(0)] * (3 - dim))
        self.node_coords = coords
        self.xi = [Poly.var(v) for v in ed.vars]
        obj = lib.make_obj(name)
        a = obj.attrs
        a["Ne"] = 1
        a["connect"] = XArray((1, ed.nPe), list(range(ed.nPe)))
        a["_global_to_local_nodes"] = XArray((ed.nPe,), list(range(ed.nPe)))
        a["coord"] = XArray.from_nested(coords)
        a["Get_gauss"] = lambda mt=None: SimpleNamespace(coord=XArray((1, dim), list(self.xi)), nPg=1, weights=XArray((1,), [Poly.var("w")]))
        a["Get_weight_pg"] = lambda mt=None: XArray((1,), [Poly.var("w")])
        self.obj = obj
        self.I = Interp(repo)
        self.I.call_hook = fe_hook_full if fe else fe_hook
        self.mt = Opaque("matrixType")

    def call(self, method, *args):
        # resolved on the class of the element object (an element family may override a step of the chain)
        f = self.lib.repo.lookup_method(self.obj.cls, method) or self.lib.repo.method(GE, method)
        return self.I.call_function(f, list(args), self_obj=self.obj)

    def F(self):
        return self.call("Get_F_e_pg", self.mt)

    def invF(self):
        return self.call("Get_invF_e_pg", self.mt)

    def dN_e(self):
        return self.call("Get_dN_e_pg", self.mt)

    def B(self):
        return self.call("Get_B_e_pg", self.mt)

    def x_of_xi(self):
        """physical position as polynomial of the reference point (geometry of the placed nodes)"""
        N = self.geom.N
        return [sum((N[a] * self.node_coords[a][k] for a in range(self.ed.nPe)), Poly()) for k in range(self.ed.dim)]


# ---------------------------------------------------------------------------
# finite-element array semantics (the specification FeArray implements):
# rank = ndim - 2, fields are padded to the widest rank (tensor axes aligned on the right, numpy's rule at each point), plain
# arrays are constant tensors, .T swaps the tensor axes, @ follows __matmul__.
# ---------------------------------------------------------------------------


class XFe(XArray):
    __slots__ = ()

    @staticmethod
    def of(a):
        a = XArray.from_nested(a)
        if a.ndim < 2:
            raise AnalysisError("FeArray view of an array without (Ne, nPg) axes")
        return XFe(a.shape, a.data)

    @property
    def _ndim(self):
        return self.ndim - 2

    @property
    def _shape(self):
        return self.shape[2:]

    @property
    def T(self):
        if self._ndim == 2:
            ax = list(range(self.ndim))
            ax[-1], ax[-2] = ax[-2], ax[-1]
            return XFe.of(XArray.transpose(self, *ax))
        if self._ndim > 2:
            n = self.ndim
            return XFe.of(XArray.transpose(self, *([0, 1] + list(range(n - 1, 1, -1)))))
        return self

    def _aligned(self, o):
        a = self
        if isinstance(o, XFe):
            ra, rb = a._ndim, o._ndim
            nt = max(ra, rb)
            # numpy's own rule at each point: tensor axes line up on the right, so the padding goes
            # between the (Ne, nPg) axes and the tensor axes
            if ra < nt:
                a = XArray(a.shape[:2] + (1,) * (nt - ra) + a.shape[2:], a.data)
            if rb < nt:
                o = XArray(o.shape[:2] + (1,) * (nt - rb) + o.shape[2:], o.data)
        elif isinstance(o, XArray) and o.ndim > a._ndim:
            # a plain array is a constant tensor: the field is padded to its rank (FeArray rank alignment)
            a = XArray(a.shape[:2] + (1,) * (o.ndim - a._ndim) + a.shape[2:], a.data)
        return a, o

    def _binop(self, o, f, reflected=False):
        if isinstance(o, (list, tuple)):
            o = XArray.from_nested(o)
        a, o2 = self._aligned(o)
        res = XArray._binop(XArray(a.shape, a.data), XArray(o2.shape, o2.data) if isinstance(o2, XArray) else o2, f, reflected)
        return XFe.of(res)

    def __neg__(self):
        return XFe.of(XArray.__neg__(self))

    # explicit reflected operators: `ndarray <op> FeArray` is a FeArray (python gives a subclass's own
    # reflected method priority over the left operand's method)
    def __radd__(self, o):
        return self._binop(o, lambda x, y: x + y, True)

    def __rsub__(self, o):
        return self._binop(o, lambda x, y: x - y, True)

    def __rmul__(self, o):
        return self._binop(o, lambda x, y: x * y, True)

    def __rtruediv__(self, o):
        return self._binop(o, lambda x, y: x / y, True)

    def __matmul__(self, o):
        if isinstance(o, (list, tuple)):
            o = XArray.from_nested(o)
        n1 = self._ndim
        n2 = o._ndim if isinstance(o, XFe) else o.ndim
        from .xarray import einsum as xe, matmul

        if n1 == 2 and n2 == 2:
            return XFe.of(matmul(XArray(self.shape, self.data), XArray(o.shape, o.data)))
        if n1 == 1 and n2 == 2:
            return XFe.of(xe("...i,...ij->...j", self, o))
        if n1 == 2 and n2 == 1:
            return XFe.of(xe("...ij,...j->...i", self, o))
        if n1 == 1 and n2 == 1:
            return XFe.of(xe("...i,...i->...", self, o))
        raise AnalysisError(f"FeArray @ with tensor ranks ({n1},{n2}) is not modelled")

    def __rmatmul__(self, o):
        o = XArray.from_nested(o)
        from .xarray import matmul

        if o.ndim == 2 and self._ndim == 2:
            return XFe.of(matmul(o, XArray(self.shape, self.data)))
        raise AnalysisError("ndarray @ FeArray with these ranks is not modelled")

    def integrate(self):
        return XArray.sum(self, 1)

    def _keeps_fe(self, axis):
        return axis is not None and not isinstance(axis, tuple) and (axis % self.ndim) >= 2

    def sum(self, axis=None, **kw):
        r = XArray.sum(self, axis)
        return XFe.of(r) if self._keeps_fe(axis) and isinstance(r, XArray) else r

    def mean(self, axis=None, **kw):
        r = XArray.mean(self, axis, **kw)
        return XFe.of(r) if self._keeps_fe(axis) and isinstance(r, XArray) and r.ndim >= 2 else r

    def _contract(self, o, n):
        """FeArray.dot (n = 1) / ddot (n = 2): the last n tensor indices of self with the first n of o"""
        from .xarray import einsum as xe

        if isinstance(o, (list, tuple)):
            o = XArray.from_nested(o)
        ra = self._ndim
        fe_o = isinstance(o, XFe)
        rb = o._ndim if fe_o else o.ndim
        if ra < n or rb < n:
            raise AnalysisError(f"FeArray contraction of {n} indices with tensor ranks ({ra},{rb})")
        letters = "abcdefgh"
        ia = letters[:ra]
        shared = ia[ra - n:]
        ib = shared + letters[ra: ra + rb - n]
        out = ia[: ra - n] + ib[n:]
        sub = f"...{ia},{'...' if fe_o else ''}{ib}->...{out}"
        return XFe.of(xe(sub, self, o))

    def dot(self, o):
        return self._contract(o, 1)

    def ddot(self, o):
        return self._contract(o, 2)

    def __getitem__(self, key):
        r = XArray.__getitem__(self, key)
        if isinstance(r, XArray) and not isinstance(r, XFe) and r.ndim >= 2:
            k = key if isinstance(key, tuple) else (key,)
            lead = [x for x in k if x is not Ellipsis][:2]
            if (len(lead) == 2 and all(isinstance(x, slice) for x in lead)) or (k and k[0] is Ellipsis) or len(lead) < 2 and all(isinstance(x, slice) for x in lead):
                return XFe(r.shape, r.data)
            # a selection of elements (index / mask array on the element axis alone) keeps a field of those elements
            if lead and isinstance(lead[0], (XArray, list)) and (len(lead) == 1 or isinstance(lead[1], slice)) and (not isinstance(lead[0], XArray) or lead[0].ndim == 1) and r.ndim == self.ndim:
                return XFe(r.shape, r.data)
        return r

    def copy(self):
        return XFe(self.shape, self.data)


def fe_hook_full(fn, args, kwargs):
    """FeArray factory functions modelled by their specification."""
    from .xeval import _NpAttr

    if isinstance(fn, _Bound):
        n = fn.finfo.name
        if n == "asfearray":
            if kwargs.get("broadcastFeArrays") or (len(args) > 1 and args[1]):
                a = XArray.from_nested(args[0])
                return XFe((1, 1) + a.shape, a.data)
            return XFe.of(args[0])
        if n == "broadcast" and fn.finfo.cls is not None and fn.finfo.cls.name == "FeArray":
            value = args[0]
            tn = kwargs.get("tensor_ndim", args[3] if len(args) > 3 else 0)
            if not isinstance(value, XArray):
                return value
            if isinstance(value, XFe):
                return value
            if tn and value.ndim == tn:
                return XFe((1, 1) + value.shape, value.data)
            if value.ndim >= 2 and value.shape[:2] == (1, 1):
                return XFe.of(value)
            ne, npg = (int(args[1]), int(args[2])) if len(args) > 2 else (None, None)
            if ne is not None and tn and value.ndim == tn + 2 and value.shape[:2] == (ne, npg):
                return XFe.of(value)
            if ne is not None and tn and value.ndim == tn + 1 and value.shape[0] == ne:
                # one tensor per element, held at every integration point of the element
                step = 1
                for s_ in value.shape[1:]:
                    step *= s_
                data = []
                for e in range(ne):
                    for _p in range(npg):
                        data.extend(value.data[e * step:(e + 1) * step])
                return XFe((ne, npg) + value.shape[1:], data)
            if ne is not None and value.ndim >= 2 and value.shape[:2] == (ne, npg):
                return XFe.of(value)  # a full (Ne, nPg, ...) field
            raise AnalysisError("FeArray.broadcast of this shape is not modelled")
    if isinstance(fn, _NpAttr) and fn.path == "asarray" and args and isinstance(args[0], XFe):
        a = args[0]
        return XArray(a.shape, a.data)
    if isinstance(fn, _NpAttr) and fn.path == "abs":
        # numbers: their absolute value; symbolic entries: |det F| on a positively oriented reference geometry
        a = args[0]
        if isinstance(a, XArray):
            return XArray(a.shape, [_abs_entry(v) for v in a.data])
        return _abs_entry(a)
    return NotImplemented


def _abs_entry(v):
    from fractions import Fraction

    if isinstance(v, Poly) and v.is_const():
        v = v.const_value()
    if isinstance(v, (int, Fraction)) and not isinstance(v, bool):
        return abs(v)
    return v


class OpaqueGroup:
    """One element, one Gauss point, with the geometric factors as opaque
    symbols: dN_e[k][n] = d<k>_<n>, N[n] = n<n>, wJ.  Operators interpreted on
    it give polynomial element matrices whose layout and congruence shape can
    be compared with the intended  wJ * X^T S X."""

    def __init__(self, lib: ElemLib, name: str, dim=None, nPe=None):
        repo = lib.repo
        ed = lib.get(name)
        self.ed = ed
        self.dim = dim = dim or ed.dim
        self.nPe = nPe = nPe or ed.nPe
        obj = lib.make_obj(name)
        a = obj.attrs
        a["Ne"] = 1
        a["nPe"] = nPe
        self.d = [[Poly.var(f"d{k}_{n}") for n in range(nPe)] for k in range(dim)]
        self.n = [Poly.var(f"n{i}") for i in range(nPe)]
        self.wJ = Poly.var("wJ")
        a["Get_dN_e_pg"] = lambda mt=None: XFe((1, 1, dim, nPe), [self.d[k][n] for k in range(dim) for n in range(nPe)])
        a["Get_weightedJacobian_e_pg"] = lambda mt=None: XFe((1, 1), [self.wJ])
        a["Get_N_pg"] = lambda mt=None: XArray((1, 1, nPe), list(self.n))
        a["Get_gauss"] = lambda mt=None: SimpleNamespace(nPg=1, coord=None, weights=XArray((1,), [Poly.var("w")]))
        self.obj = obj
        self.I = Interp(repo, max_steps=2_000_000)
        self.I.call_hook = fe_hook_full
        self.mt = Opaque("matrixType")
        self.repo = repo

    def call_method(self, method, *args, **kw):
        f = self.repo.method(GE, method)
        return self.I.call_function(f, list(args), kw, self_obj=self.obj)

    def call_func(self, qualname, *args, **kw):
        f = self.repo.func(qualname)
        return self.I.call_function(f, list(args), kw)
