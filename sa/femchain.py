"""Symbolic single-element run of the isoparametric chain of _GroupElem:
Get_F_e_pg -> Get_invF_e_pg -> Get_dN_e_pg -> Get_B_e_pg, interpreted on one
element whose Gauss point is the *symbolic* reference point (x, y, z), so that
every result is a rational function of the reference coordinates."""

from __future__ import annotations

from types import SimpleNamespace

from .alg import Poly, Q, Rat
from .elems import ElemLib, VARS
from .geom import Geometry
from .repo import AnalysisError
from .xeval import Interp, XObj, _Bound, Opaque
from .xarray import XArray

GE = "EasyFEA.FEM._group_elem._GroupElem"

# generic rational straight-sided reference geometries (no symmetry, positive Jacobian)
_VERTS = {
    "SEG": [(Q(1, 3),), (Q(9, 4),)],
    "TRI": [(Q(1, 5), Q(-1, 7)), (Q(13, 6), Q(2, 9)), (Q(3, 8), Q(11, 5))],
    "QUAD": [(Q(-1, 9), Q(1, 11)), (Q(17, 8), Q(-2, 7)), (Q(19, 7), Q(13, 6)), (Q(2, 13), Q(9, 5))],
    "TETRA": [(Q(1, 7), Q(-1, 5), Q(2, 9)), (Q(11, 5), Q(1, 8), Q(-1, 6)), (Q(2, 11), Q(13, 7), Q(1, 10)), (Q(-1, 12), Q(3, 14), Q(9, 4))],
    "HEXA": [
        (Q(-1, 9), Q(1, 11), Q(1, 13)), (Q(17, 8), Q(-2, 7), Q(-1, 15)), (Q(19, 7), Q(13, 6), Q(2, 17)), (Q(2, 13), Q(9, 5), Q(-1, 19)),
        (Q(1, 10), Q(-1, 12), Q(21, 10)), (Q(15, 7), Q(1, 9), Q(17, 9)), (Q(23, 9), Q(11, 5), Q(25, 11)), (Q(-1, 14), Q(19, 10), Q(9, 4)),
    ],
    "PRISM": [
        (Q(1, 5), Q(-1, 7), Q(1, 12)), (Q(13, 6), Q(2, 9), Q(-1, 10)), (Q(3, 8), Q(11, 5), Q(2, 15)),
        (Q(1, 9), Q(1, 8), Q(19, 9)), (Q(15, 7), Q(1, 4), Q(21, 10)), (Q(2, 7), Q(23, 10), Q(17, 8)),
    ],
}


def fe_hook(fn, args, kwargs):
    if isinstance(fn, _Bound) and fn.finfo.name in ("asfearray",):
        return args[0]
    return NotImplemented


class Chain:
    def __init__(self, lib: ElemLib, name: str, symbolic_vertices=False):
        self.lib = lib
        ed = lib.get(name)
        self.ed = ed
        repo = lib.repo
        dim = ed.dim
        g = Geometry(lib, name)
        self.geom = g
        if symbolic_vertices:
            env = {}
        else:
            vs = _VERTS[ed.shape]
            env = {f"X{a}_{k}": vs[a][k] for a in range(len(vs)) for k in range(dim)}
        self.env = env
        coords = []
        for a in range(ed.nPe):
            row = [g.Xnode[a][k].subs(env) if env else g.Xnode[a][k] for k in range(dim)]
            row = [p.const_value() if p.is_const() else p for p in row]
            coords.append(row + [Q(0)] * (3 - dim))
        self.node_coords = coords
        self.xi = [Poly.var(v) for v in ed.vars]
        obj = lib.make_obj(name)
        a = obj.attrs
        a["Ne"] = 1
        a["connect"] = XArray((1, ed.nPe), list(range(ed.nPe)))
        a["_global_to_local_nodes"] = XArray((ed.nPe,), list(range(ed.nPe)))
        a["coord"] = XArray.from_nested(coords)
        a["Get_gauss"] = lambda mt=None: SimpleNamespace(coord=XArray((1, dim), list(self.xi)), nPg=1, weights=XArray((1,), [Poly.var("w")]))
        self.obj = obj
        self.I = Interp(repo)
        self.I.call_hook = fe_hook
        self.mt = Opaque("matrixType")

    def call(self, method, *args):
        f = self.lib.repo.method(GE, method)
        return self.I.call_function(f, list(args), self_obj=self.obj)

    def F(self):
        return self.call("Get_F_e_pg", self.mt)

    def invF(self):
        return self.call("Get_invF_e_pg", self.mt)

    def dN_e(self):
        return self.call("Get_dN_e_pg", self.mt)

    def B(self):
        return self.call("Get_B_e_pg", self.mt)

    def x_of_xi(self):
        """physical position as polynomial of the reference point (geometry of the placed nodes)"""
        N = self.geom.N
        return [sum((N[a] * self.node_coords[a][k] for a in range(self.ed.nPe)), Poly()) for k in range(self.ed.dim)]
