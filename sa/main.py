"""Driver.  ``./check C06 --tier quick [--root /repo]``; ``./check --self-check``;
``./check all``; ``./check C06 --replay <file>``.

Exit codes: 0 property held on everything analysed (known findings are printed
as KNOWN-FINDING lines), 1 a violation not listed in known_findings.json
(``VIOLATION property=<id> replay=<path>``), 2 the analysis itself could not be
carried out (``ANALYSIS-ERROR``) -- never a verdict.
"""

from __future__ import annotations

import argparse
import importlib
import json
import os
import sys
import time
import traceback

from .repo import Repo, AnalysisError
from .report import Ctx, finish

PROPS = [f"C{n:02d}" for n in range(1, 21)]


def available():
    out = []
    here = os.path.dirname(os.path.abspath(__file__))
    for p in PROPS:
        if os.path.exists(os.path.join(here, "props", p.lower() + ".py")):
            out.append(p)
    return out


def run_property(prop, tier, root, seed, cmd):
    t0 = time.time()
    try:
        repo = Repo(root)
        ctx = Ctx(prop, repo, tier=tier, seed=seed, root=root)
        mod = importlib.import_module(f"sa.props.{prop.lower()}")
        try:
            mod.run(ctx)
        except AnalysisError as e:
            # the rules that completed before the failure stand: a violation they found is reported (exit 1), otherwise
            # the run is an analysis error (exit 2) -- never a pass
            ctx.analysis_errors.append(f"{type(e).__name__}: {e}")
        return finish(ctx, cmd)
    except AnalysisError as e:
        print(f"ANALYSIS-ERROR property={prop} {type(e).__name__}: {e}")
        return 2
    except Exception as e:  # a crash of the checker is not a violation
        traceback.print_exc()
        print(f"ANALYSIS-ERROR property={prop} checker crashed: {type(e).__name__}: {e}")
        return 2


def self_check(root):
    repo = Repo(root)
    c = repo.counts()
    print(f"self-check: parsed {c['modules']} modules, {c['classes']} classes, {c['functions']} functions under {root}/EasyFEA")
    print(f"self-check: python {sys.version.split()[0]}; properties with a checker: {' '.join(available())}")
    if c["modules"] < 80:
        print("ANALYSIS-ERROR self-check: fewer modules than expected")
        return 2
    return 0


def main(argv=None):
    ap = argparse.ArgumentParser(prog="check")
    ap.add_argument("prop", nargs="?")
    ap.add_argument("--tier", default=os.environ.get("VERIF_TIER", "quick"), choices=["quick", "thorough"])
    ap.add_argument("--root", default=os.environ.get("VERIF_ROOT", "/repo"))
    ap.add_argument("--seed", type=int, default=int(os.environ.get("VERIF_SEED", "0") or 0))
    ap.add_argument("--self-check", action="store_true")
    ap.add_argument("--replay")
    ap.add_argument("--selftest", action="store_true", help="run the mutation battery for this property")
    a = ap.parse_args(argv)
    if a.self_check:
        return self_check(a.root)
    if a.replay:
        with open(a.replay) as fh:
            rp = json.load(fh)
        print(f"replay of {a.replay}: re-running {rp['property']} on {a.root}; recorded findings:")
        for f in rp["findings"]:
            print(f"  {f['file']}:{f['line']}: [{f['rule']}] {f['function']}: {f['message']}")
        a.prop = rp["property"]
    if not a.prop:
        ap.error("property id required")
    if a.prop == "all":
        rc = 0
        for p in available():
            r = run_property(p, a.tier, a.root, a.seed, f"./check {p} --tier {a.tier}")
            rc = max(rc, r)
        return rc
    prop = a.prop.upper()
    if prop not in available():
        print(f"ANALYSIS-ERROR property={prop} no checker")
        return 2
    cmd = f"./check {prop} --tier {a.tier}"
    rc = run_property(prop, a.tier, a.root, a.seed, cmd)
    if rc == 0 and (a.tier == "thorough" or a.selftest):
        try:
            from . import selftest
        except ImportError:
            return rc
        rc2 = selftest.run(prop, a.root)
        if rc2:
            return 2
    return rc


if __name__ == "__main__":
    sys.exit(main())
