"""Straight-sided isoparametric geometry with symbolic vertex coordinates."""

from __future__ import annotations

from .alg import Poly, Q, MQ, integral_monomial
from .elems import ElemLib, topology, VARS
from .repo import AnalysisError

LINEAR = {"SEG": "SEG2", "TRI": "TRI3", "QUAD": "QUAD4", "TETRA": "TETRA4", "HEXA": "HEXA8", "PRISM": "PRISM6"}


def det(m):
    n = len(m)
    if n == 1:
        return m[0][0]
    if n == 2:
        return m[0][0] * m[1][1] - m[0][1] * m[1][0]
    if n == 3:
        return (
            m[0][0] * (m[1][1] * m[2][2] - m[1][2] * m[2][1])
            - m[0][1] * (m[1][0] * m[2][2] - m[1][2] * m[2][0])
            + m[0][2] * (m[1][0] * m[2][1] - m[1][1] * m[2][0])
        )
    raise AnalysisError("det size")


def cofactor_T(m):
    """adj(m) = det(m) * inv(m)"""
    n = len(m)
    if n == 1:
        return [[Poly.const(1)]]
    if n == 2:
        return [[m[1][1], -m[0][1]], [-m[1][0], m[0][0]]]
    c = [[None] * 3 for _ in range(3)]
    for i in range(3):
        for j in range(3):
            a = [[m[r][s] for s in range(3) if s != j] for r in range(3) if r != i]
            c[i][j] = (a[0][0] * a[1][1] - a[0][1] * a[1][0]) * ((-1) ** (i + j))
    return [[c[j][i] for j in range(3)] for i in range(3)]


class Geometry:
    """x(xi) = sum_a X_a N_a(xi) for element `name` with symbolic vertices and
    the non-vertex nodes placed by the vertex (P1/Q1) map."""

    def __init__(self, lib: ElemLib, name: str):
        self.lib = lib
        ed = lib.get(name)
        self.ed = ed
        lin = lib.get(LINEAR[ed.shape])
        nv = lin.nPe
        if ed.info["Nvertex"] != nv:
            raise AnalysisError(f"{name}: Nvertex {ed.info['Nvertex']} != {nv}")
        # the first nv nodes must be the vertices of the linear element
        for a in range(nv):
            if tuple(ed.coords[a]) != tuple(lin.coords[a]):
                raise AnalysisError(f"{name}: node {a} is not vertex {a} of {lin.name}")
        dim = ed.dim
        self.Xsym = [[Poly.var(f"X{a}_{k}") for k in range(dim)] for a in range(nv)]
        linN = [lin.tables["N"][1].data[a] for a in range(nv)]
        # vertex map (Poly in xi and X)
        self.vertex_map = [sum((linN[a] * self.Xsym[a][k] for a in range(nv)), Poly()) for k in range(dim)]
        # node positions
        self.Xnode = []
        for a in range(ed.nPe):
            env = dict(zip(ed.vars, ed.coords[a]))
            self.Xnode.append([self.vertex_map[k].subs(env) for k in range(dim)])
        N = [ed.tables["N"][1].data[a] for a in range(ed.nPe)]
        self.N = N
        self.x = [sum((N[a] * self.Xnode[a][k] for a in range(ed.nPe)), Poly()) for k in range(dim)]
        # F[i][j] = d x_j / d xi_i  (as Get_F_e_pg: dN_pg @ coord_e)
        self.F = [[self.x[j].diff(ed.vars[i]) for j in range(dim)] for i in range(dim)]
        self.detJ = det(self.F)
        self.adj = None

    def adjugate(self):
        if self.adj is None:
            self.adj = cofactor_T(self.F)
        return self.adj

    def is_isoparametric_consistent(self):
        return all(self.x[k] == self.vertex_map[k] for k in range(self.ed.dim))


def xi_coeffs(p: Poly, xivars):
    """{xi-exponent tuple: Poly in the remaining (parameter) variables}"""
    out = {}
    xv = {v: i for i, v in enumerate(xivars)}
    n = len(xivars)
    for m, c in p.t.items():
        ex = [0] * n
        pm = []
        for v, e in m:
            if v in xv:
                ex[xv[v]] = e
            else:
                pm.append((v, e))
        ex = tuple(ex)
        d = out.setdefault(ex, {})
        pm = tuple(pm)
        d[pm] = d.get(pm, 0) + c
    return {k: Poly(v) for k, v in out.items()}


def _absq(c):
    return abs(c) if not isinstance(c, MQ) else abs(c).approx(30)


def rule_error(rule, ex):
    """(Q(m) - I(m), magnitude) for the monomial with exponents ex (cached)."""
    key = ("err", ex)
    c = rule._cache.get(key)
    if c is None:
        got, mg = rule.quad_monomial(ex)
        want = integral_monomial(rule.shape, list(ex))
        c = (got - want, mg + abs(want))
        rule._cache[key] = c
    return c


def rule_exact_on(rule, p, xivars, extra_factor=None):
    """Is the rule exact on p(xi; params) [times extra_factor] for every value
    of the free parameters?  The product is never expanded: only xi-monomials
    on which the rule errs contribute.  Returns (ok, witness, err)."""
    A = xi_coeffs(p, xivars)
    B = xi_coeffs(extra_factor, xivars) if extra_factor is not None else {(0,) * len(xivars): Poly.const(1)}
    err = {}  # param-monomial -> error
    mag = {}
    for ea, ca in A.items():
        for eb, cb in B.items():
            ex = tuple(a + b for a, b in zip(ea, eb))
            e, mg = rule_error(rule, ex)
            if (e.is_zero() if isinstance(e, MQ) else e == 0) and not rule.approx:
                continue
            prod = ca * cb
            for pm, c in prod.t.items():
                err[pm] = err.get(pm, 0) + c * e
                mag[pm] = mag.get(pm, 0) + _absq(c) * mg
    for pm, e in err.items():
        if isinstance(e, MQ):
            if e.is_zero():
                continue
            ev = abs(e.approx(40))
        else:
            if e == 0:
                continue
            ev = abs(e)
        if rule.approx and ev <= rule.TOL * mag[pm]:
            continue
        return False, pm, ev
    return True, None, None
