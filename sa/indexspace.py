"""Node index spaces inside one class (E2 dataflow, flow-insensitive, interprocedural over the class).

An element group keeps two numberings of its nodes: LOCAL rows (positions in
``self.coord`` / ``self.nodes``) and GLOBAL ids (the values of ``self.nodes``
and ``self.connect``).  They coincide on a serial single-group mesh - the only
case the tests run - and differ on partitions and sub-groups.  The analysis
gives every array expression a pair (rows, vals) over {L, G, ?} from a table of
the class's own attributes and checks the uses:

    A[I]                 needs  vals(I) == rows(A)
    np.isin(A, B), ==    need   vals(A) == vals(B)
    self.m(.., X, ..)    needs  vals(X) == what m's body requires of that parameter
    KDTree(T).query(..)  returns indices with vals == rows(T)

A use whose two sides are both known and differ is reported.
"""

from __future__ import annotations

import ast
from dataclasses import dataclass
from typing import Optional

from .repo import ClassInfo, FuncInfo, Repo, dotted, norm_text

L, G = "local-row", "global-id"


@dataclass(frozen=True)
class T:
    rows: Optional[str] = None
    vals: Optional[str] = None
    kind: str = "arr"  # arr | tree | tuple
    elts: tuple = ()
    param: Optional[str] = None  # symbolic: "values of parameter <param>"


UNKNOWN = None
PRESERVE_FUNCS = {"np.unique", "np.sort", "np.asarray", "np.array", "np.ravel", "np.reshape", "np.squeeze", "np.atleast_1d", "np.asanyarray", "np.copy", "np.int64", "np.flip"}
PRESERVE_METHODS = {"ravel", "reshape", "astype", "copy", "flatten", "squeeze", "tolist", "view", "tocsr", "tocsc", "tolil", "tocoo"}
ROWS_PRESERVING = {"astype", "copy", "view", "tocsr", "tocsc", "tolil", "tocoo"}
JOIN_FUNCS = {"np.concatenate", "np.append", "np.hstack", "np.vstack", "np.union1d", "np.intersect1d", "np.setdiff1d"}
SAME_VALS_FUNCS = {"np.isin", "np.in1d", "np.intersect1d", "np.setdiff1d", "np.union1d", "np.array_equal"}
TREE_CTORS = ("KDTree", "cKDTree")


class Analysis:
    def __init__(self, repo: Repo, ci: ClassInfo, attr_table: dict):
        self.repo, self.ci, self.table = repo, ci, dict(attr_table)
        self.base_table = set(attr_table)
        self.requires = {}  # method name -> {param: space}
        self.returns = {}  # method name -> T | None
        self.findings = []  # (FuncInfo, node, kind, message)
        self.uses = 0  # number of checked uses with both sides known
        self.methods = {f.node.name: f for nm, f in ci.methods.items() if f.cls is ci}

    # ------------------------------------------------------------------
    def run(self):
        for _ in range(4):
            before = (dict(self.requires), dict(self.returns), dict(self.table))
            for nm, f in self.methods.items():
                self.analyse(f, report=False)
            if before == (self.requires, self.returns, self.table):
                break
        self.findings, self.uses = [], 0
        for nm, f in sorted(self.methods.items()):
            self.analyse(f, report=True)
        return self.findings

    # ------------------------------------------------------------------
    def analyse(self, f: FuncInfo, report: bool):
        env = {}
        params = [p for p in f.params() if p not in ("self", "cls")]
        for p in params:
            env[p] = T(param=p)
        req = {}
        an = self

        def vals(t):
            return t.vals if isinstance(t, T) else None

        def need_equal(a: Optional[T], b: Optional[T], node, what):
            """vals(a) must equal vals(b)"""
            if a is None or b is None:
                return
            for x, y in ((a, b), (b, a)):
                if x.param and y.vals:
                    req.setdefault(x.param, y.vals)
            if a.vals and b.vals:
                if report:
                    an.uses += 1
                    if a.vals != b.vals:
                        an.findings.append((f, node, what, f"{what}: a {a.vals} array meets a {b.vals} array in `{norm_text(node)[:90]}`"))

        def need_index(arr: Optional[T], idx: Optional[T], node):
            if arr is None or idx is None or arr.rows is None:
                return
            if idx.param:
                req.setdefault(idx.param, arr.rows)
            if idx.vals:
                if report:
                    an.uses += 1
                    if idx.vals != arr.rows:
                        an.findings.append((f, node, "index", f"an array whose rows are {arr.rows}s is indexed with {idx.vals}s in `{norm_text(node)[:90]}`"))

        def join(a, b):
            if a is None:
                return b
            if b is None:
                return a
            if a == b:
                return a
            if a.kind != b.kind:
                return None
            return T(rows=a.rows if a.rows == b.rows else None, vals=a.vals if a.vals == b.vals else None, kind=a.kind, elts=a.elts if a.elts == b.elts else (), param=a.param if a.param == b.param else None)

        def ev(e) -> Optional[T]:
            if isinstance(e, ast.Name):
                return env.get(e.id)
            if isinstance(e, ast.Attribute):
                if isinstance(e.value, ast.Name) and e.value.id == "self":
                    key = e.attr
                    if key in an.table:
                        r, v = an.table[key]
                        return T(rows=r, vals=v)
                    return None
                if e.attr in ("T", "flat", "real"):
                    return ev(e.value)
                return None
            if isinstance(e, ast.Subscript):
                ta = ev(e.value)
                sl = e.slice
                if ta is not None and ta.kind == "tuple":
                    if isinstance(sl, ast.Constant) and isinstance(sl.value, int) and -len(ta.elts) <= sl.value < len(ta.elts):
                        return ta.elts[sl.value]
                    return None
                i0 = sl.elts[0] if isinstance(sl, ast.Tuple) and sl.elts else sl
                if isinstance(i0, (ast.Slice, ast.Constant)) or (isinstance(i0, ast.Constant) and i0.value is Ellipsis):
                    return T(rows=None, vals=ta.vals, param=ta.param) if ta is not None and ta.kind == "arr" else None
                ti = ev(i0)
                if ta is not None and ta.kind == "arr":
                    need_index(ta, ti, e)
                    return T(rows=ti.rows if ti is not None and ti.kind == "arr" else None, vals=ta.vals, param=ta.param)
                return None
            if isinstance(e, ast.Call):
                d = dotted(e.func) or ""
                last = d.split(".")[-1]
                args = list(e.args)
                if last in TREE_CTORS and args:
                    ta = ev(args[0])
                    return T(kind="tree", rows=ta.rows if ta is not None else None)
                if isinstance(e.func, ast.Attribute):
                    recv = ev(e.func.value) if not (isinstance(e.func.value, ast.Name) and e.func.value.id in ("np", "self", "spatial", "sparse")) else None
                    if recv is not None and recv.kind == "tree" and e.func.attr in ("query", "query_ball_point"):
                        idx = T(rows=None, vals=recv.rows)
                        return T(kind="tuple", elts=(None, idx)) if e.func.attr == "query" else idx
                    if recv is not None and recv.kind == "arr" and e.func.attr in PRESERVE_METHODS:
                        return T(rows=recv.rows if e.func.attr in ROWS_PRESERVING else None, vals=recv.vals, param=recv.param)
                if last in ("csr_matrix", "csc_matrix", "coo_matrix", "lil_matrix") and args and isinstance(args[0], ast.Tuple) and len(args[0].elts) == 2 and isinstance(args[0].elts[1], ast.Tuple) and args[0].elts[1].elts:
                    tr = ev(args[0].elts[1].elts[0])
                    return T(rows=tr.vals if tr is not None and tr.kind == "arr" else None, vals=None)
                if d in SAME_VALS_FUNCS and len(args) >= 2:
                    need_equal(ev(args[0]), ev(args[1]), e, "membership/comparison")
                if d in PRESERVE_FUNCS and args:
                    ta = ev(args[0])
                    return T(rows=None, vals=ta.vals, param=ta.param) if ta is not None and ta.kind == "arr" else None
                if d in JOIN_FUNCS and args:
                    parts = []
                    for a in args[:2]:
                        if isinstance(a, (ast.List, ast.Tuple)):
                            parts += [ev(x) for x in a.elts]
                        else:
                            parts.append(ev(a))
                    out = None
                    for p_ in parts:
                        if p_ is not None and p_.kind == "arr":
                            out = join(out, T(vals=p_.vals, param=p_.param))
                    return out
                # method of the same class
                if isinstance(e.func, ast.Attribute) and isinstance(e.func.value, ast.Name) and e.func.value.id == "self":
                    callee = an.repo.lookup_method(an.ci, e.func.attr)
                    if callee is not None and callee.cls is an.ci:
                        cn = callee.node.name
                        ps = [p for p in callee.params() if p not in ("self", "cls")]
                        bound = {}
                        for i, a in enumerate(args):
                            if i < len(ps):
                                bound[ps[i]] = a
                        for k in e.keywords:
                            if k.arg in ps:
                                bound[k.arg] = k.value
                        for p_, a in bound.items():
                            want = an.requires.get(cn, {}).get(p_)
                            ta = ev(a)
                            if want and ta is not None and ta.kind == "arr":
                                if ta.param:
                                    req.setdefault(ta.param, want)
                                if ta.vals and report:
                                    an.uses += 1
                                    if ta.vals != want:
                                        an.findings.append((f, e, f"call:{cn}", f"`{norm_text(e)[:80]}` passes {ta.vals}s for parameter `{p_}` of {cn}, which uses it as {want}s"))
                        return an.returns.get(cn)
                for a in args:
                    ev(a)
                return None
            if isinstance(e, ast.Compare) and len(e.ops) == 1 and isinstance(e.ops[0], (ast.Eq, ast.NotEq)):
                need_equal(ev(e.left), ev(e.comparators[0]), e, "membership/comparison")
                return None
            if isinstance(e, ast.Tuple):
                return T(kind="tuple", elts=tuple(ev(x) for x in e.elts))
            if isinstance(e, ast.IfExp):
                return join(ev(e.body), ev(e.orelse))
            for ch in ast.iter_child_nodes(e):
                if isinstance(ch, ast.expr):
                    ev(ch)
            return None

        def bind(target, t):
            if isinstance(target, ast.Name):
                if target.id in params:
                    return
                old = env.get(target.id, "unset")
                env[target.id] = t if old == "unset" else join(old, t) if (old is not None and t is not None) else (old if t is None else t)
            elif isinstance(target, (ast.Tuple, ast.List)):
                for i, el in enumerate(target.elts):
                    bind(el, t.elts[i] if isinstance(t, T) and t.kind == "tuple" and i < len(t.elts) else None)

        rets = []
        for _ in range(2):
            rets = []
            for n in ast.walk(f.node):
                if isinstance(n, ast.Assign):
                    t = ev(n.value)
                    for tg in n.targets:
                        bind(tg, t)
                        if isinstance(tg, ast.Attribute) and isinstance(tg.value, ast.Name) and tg.value.id == "self" and isinstance(t, T) and t.kind == "arr" and (t.rows or t.vals) and not t.param:
                            if tg.attr not in an.base_table:
                                old = an.table.get(tg.attr)
                                new = (t.rows, t.vals)
                                an.table[tg.attr] = new if old is None or old == new else (new[0] if old[0] == new[0] else None, new[1] if old[1] == new[1] else None)
                elif isinstance(n, ast.AnnAssign) and n.value is not None:
                    bind(n.target, ev(n.value))
                elif isinstance(n, ast.For):
                    ti = ev(n.iter)
                    bind(n.target, T(vals=ti.vals, param=ti.param) if isinstance(ti, T) and ti.kind == "arr" else None)
                elif isinstance(n, ast.Return) and n.value is not None:
                    rets.append(ev(n.value))
                elif isinstance(n, ast.Expr):
                    ev(n.value)
                elif isinstance(n, (ast.If, ast.While)):
                    ev(n.test)
        out = None
        for i, t in enumerate(rets):
            t2 = T(rows=t.rows, vals=t.vals, kind=t.kind, elts=t.elts) if isinstance(t, T) else None
            out = t2 if i == 0 else (out if out == t2 else None)
        nm = f.node.name
        if req:
            self.requires[nm] = {**self.requires.get(nm, {}), **req}
        self.returns[nm] = out


GROUP_TABLE = {
    # attribute of _GroupElem -> (rows, values); the defining statements are checked by `table_anchor`
    "coord": (L, None), "_GroupElem__coord": (L, None), "__coord": (L, None),
    "nodes": (L, G), "_GroupElem__nodes": (L, G), "__nodes": (L, G),
    "_global_to_local_nodes": (G, L),
    "connect": (None, G), "_GroupElem__connect": (None, G), "__connect": (None, G),
    "coordGlob": (G, None),
}


def table_anchor(repo: Repo, ci: ClassInfo):
    """the table above is read off the class's own constructor/setter: coord = coordGlob[nodes],
    _global_to_local_nodes[nodes] = arange(nodes.size).  Returns a list of problems (empty when the anchors hold)."""
    bad = []
    init = ci.methods.get("__init__")
    txt = norm_text(init.node) if init is not None else ""
    if "self._global_to_local_nodes[nodes] = np.arange(nodes.size" not in txt:
        bad.append("__init__ no longer defines _global_to_local_nodes[nodes] = arange(nodes.size)")
    setter = ci.setters.get("coord")
    if setter is None or "coord[self.nodes]" not in norm_text(setter.node):
        bad.append("the coord setter no longer keeps coord[self.nodes] (local rows)")
    return bad


def rule(ctx, rid):
    from .repo import AnalysisError

    repo = ctx.repo
    ci = repo.cls("EasyFEA.FEM._group_elem._GroupElem")
    r = ctx.rule(rid, "node index spaces in an element group: arrays with local rows (coord, nodes) are indexed by local rows only, arrays of global ids (connect, node lists handed to Get_Elements_Nodes, tags) meet global ids only; KD-tree hits on self.coord are local rows and must go through self.nodes", min_instances=20)
    probs = table_anchor(repo, ci)
    if probs:
        raise AnalysisError(f"{rid}: " + "; ".join(probs))
    an = Analysis(repo, ci, GROUP_TABLE)
    fs = an.run()
    seen = set()
    for f, node, kind, msg in fs:
        key = (f.qualname, kind, msg.split(" in `")[0][:60])
        if key in seen:
            continue
        seen.add(key)
        r.instance(fn=f.qualname)
        r.fail(f.qualname, f"index-space:{kind}:{'-'.join(w for w in (L, G) if w in msg)}", f.file, node.lineno, f.name, msg + " (the two numberings coincide only on a serial single-group mesh)")
    for _ in range(max(0, an.uses - len(seen))):
        r.instance(fn=ci.qualname)
        r.ok(None)
    r.note(f"{an.uses} uses with both sides known; parameter requirements inferred: {an.requires}")
