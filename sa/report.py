"""E5 -- findings, known-findings protocol, evidence files, exit codes."""

from __future__ import annotations

import hashlib
import json
import os
import sys
import time
from dataclasses import dataclass, field, asdict

VERIF = os.path.dirname(os.path.dirname(os.path.abspath(__file__)))
KNOWN_FILE = os.path.join(VERIF, "known_findings.json")
EVIDENCE_DIR = os.environ.get("VERIF_EVIDENCE_DIR") or os.path.join(VERIF, "evidence")


@dataclass
class Finding:
    property: str
    rule: str
    key: str  # rule|construct|detail  (no line numbers)
    file: str
    line: int
    function: str
    message: str
    known: bool = False

    def text(self):
        return f"{self.file}:{self.line}: [{self.rule}] {self.function}: {self.message}"


@dataclass
class RuleStat:
    rule: str
    description: str
    instances: int = 0
    obligations: int = 0
    discharged: int = 0
    min_instances: int = 0
    samples: list = field(default_factory=list)
    functions: set = field(default_factory=set)
    notes: list = field(default_factory=list)


class Rule:
    def __init__(self, ctx, rule_id, description, min_instances=0):
        self.ctx = ctx
        self.id = rule_id
        self.stat = RuleStat(rule_id, description, min_instances=min_instances)
        if rule_id in ctx.rules and ctx.rules[rule_id].description != description:
            # two different rules under one id would silently replace each other's statistics (and their minimum counts)
            from .repo import AnalysisError

            raise AnalysisError(f"rule id {rule_id} is declared twice with different descriptions")
        ctx.rules[rule_id] = self.stat

    def instance(self, n=1, fn=None):
        self.stat.instances += n
        if fn:
            self.stat.functions.add(fn)

    def ok(self, sample=None, n=1):
        self.stat.obligations += n
        self.stat.discharged += n
        if sample is not None and len(self.stat.samples) < 4:
            self.stat.samples.append(sample)

    def fail(self, construct, detail, file, line, function, message, sample=None):
        self.stat.obligations += 1
        if sample is not None and len(self.stat.samples) < 4:
            self.stat.samples.append(sample)
        self.ctx.add_finding(self.id, construct, detail, file, line, function, message)

    def note(self, text):
        self.stat.notes.append(text)

    def analysed(self, fn):
        self.stat.functions.add(fn)


class Ctx:
    def __init__(self, prop_id, repo, tier="quick", seed=0, root="/repo"):
        self.prop = prop_id
        self.repo = repo
        self.tier = tier
        self.seed = seed
        self.root = root
        self.rules: dict[str, RuleStat] = {}
        self.findings: list[Finding] = []
        self.assumptions: list[str] = []
        self.trusted_base: list[str] = []
        self.level = "other"
        self.explanation = ""
        self.t0 = time.time()
        self.extra = {}
        self.analysis_errors = []

    def rule(self, rule_id, description, min_instances=0) -> Rule:
        return Rule(self, rule_id, description, min_instances)

    def add_finding(self, rule, construct, detail, file, line, function, message):
        key = f"{rule}|{construct}|{detail}"
        for f in self.findings:
            if f.key == key:
                return
        self.findings.append(Finding(self.prop, rule, key, file, int(line or 0), function, message))

    def attempt(self, fn, *args, **kwargs):
        """run one rule group; an analysis error in it is recorded (the run cannot end in a pass) and the other rule
        groups still run, so that a violation one of them finds is reported"""
        from .repo import AnalysisError

        try:
            return fn(*args, **kwargs)
        except AnalysisError as e:
            self.analysis_errors.append(f"{type(e).__name__}: {e}")
            return None

    def assume(self, text):
        if text not in self.assumptions:
            self.assumptions.append(text)

    def trust(self, text):
        if text not in self.trusted_base:
            self.trusted_base.append(text)


# ---------------------------------------------------------------------------


def load_known():
    if not os.path.exists(KNOWN_FILE):
        return {"findings": [], "fixed": []}
    with open(KNOWN_FILE) as fh:
        return json.load(fh)


def finish(ctx: Ctx, cmd: str) -> int:
    """Classify findings, write evidence, print the verdict lines, return the
    exit code."""
    known = load_known()
    known_keys = {(k["property"], k["key"]): k for k in known.get("findings", [])}
    unknown = []
    for f in ctx.findings:
        k = known_keys.get((f.property, f.key))
        if k is not None:
            f.known = True
            print(f"KNOWN-FINDING: property={f.property} {k.get('what', f.message)} [{f.key}] at {f.file}:{f.line}")
        else:
            unknown.append(f)

    # fail-closed on vacuous rules
    # The confirmed-by-hand counts guard against a rule that silently matches nothing (a vanished anchor).  A behaviour-
    # preserving rewrite may merge or split sites (refactored/C14-R4 routed three notifiers through one setter: 2 instances
    # for 4), so the run is blind only when MORE THAN HALF of the confirmed instances are gone; the counts are in the evidence.
    vacuous = [s for s in ctx.rules.values() if s.min_instances > 0 and s.instances < max(1, (s.min_instances + 1) // 2)]
    wall = time.time() - ctx.t0
    discharged = sum(s.discharged for s in ctx.rules.values())
    # obligations that failed on a listed known finding are reported separately
    obligations = discharged + len(unknown)
    instances = sum(s.instances for s in ctx.rules.values())
    functions = sorted({f for s in ctx.rules.values() for f in s.functions} | (set(ctx.repo.accessed) if ctx.repo is not None else set()))
    samples = []
    for s in ctx.rules.values():
        for x in s.samples[:2]:
            samples.append({"rule": s.rule, "obligation": x})
    if not samples:
        samples = [{"rule": "none", "obligation": "no obligation enumerated"}]
    nknown = len(ctx.findings) - len(unknown)
    ev = {
        "property_id": ctx.prop,
        "tier": ctx.tier if ctx.tier in ("quick", "thorough") else "quick",
        "seed": int(ctx.seed),
        "level": ctx.level,
        "coverage": {
            "obligations": obligations,
            "discharged": discharged,
            "checker_cmd": cmd,
            "trusted_base": ctx.trusted_base or ["Python ast", "sa/alg.py exact arithmetic", "sa/xeval.py interpreter"],
            "evaluations": max(instances, 1),
            "distinct_nontrivial": max(obligations, 0),
            "rule": "rule instances are enumerated from the parsed source of /repo/EasyFEA; every obligation is a distinct (rule, construct, component) triple; trivial ones (e.g. 0 == 0 table entries) are counted too and are a minority",
            "samples": samples[:24],
            "explanation": ctx.explanation,
            "exhaustive": True,
            "rules": [
                {
                    "rule": s.rule,
                    "description": s.description,
                    "instances": s.instances,
                    "min_instances": s.min_instances,
                    "obligations": s.obligations,
                    "discharged": s.discharged,
                    "functions_analysed": sorted(s.functions)[:60],
                    "notes": s.notes[:20],
                }
                for s in ctx.rules.values()
            ],
            "functions_analysed": len(functions),
            "functions_fetched": functions[:400],
            "files_consulted": ctx.repo.digest() if ctx.repo is not None else {},
            "known_findings_reported": nknown,
            "repo_counts": ctx.repo.counts() if ctx.repo is not None else {},
            "root": ctx.root,
        },
        "assumptions": ctx.assumptions,
        "wall_s": round(wall, 3),
        "violations": len(unknown),
    }
    ev["coverage"].update(ctx.extra)
    os.makedirs(EVIDENCE_DIR, exist_ok=True)
    evpath = os.path.join(EVIDENCE_DIR, f"{ctx.prop}.json")
    tmp = evpath + ".tmp"
    with open(tmp, "w") as fh:
        json.dump(ev, fh, indent=1, sort_keys=False, default=str)
    os.replace(tmp, evpath)

    for s in ctx.rules.values():
        print(
            f"  rule {s.rule}: instances={s.instances} (min {s.min_instances}) obligations={s.obligations} discharged={s.discharged} -- {s.description}"
        )
    if ctx.analysis_errors:
        for e in ctx.analysis_errors:
            print(f"ANALYSIS-ERROR property={ctx.prop} {e}")
        if not unknown:
            return 2
    if vacuous and not unknown:  # a violation found by a rule stands even if another rule went blind
        for s in vacuous:
            print(
                f"ANALYSIS-ERROR property={ctx.prop} rule {s.rule} enumerated {s.instances} instances, fewer than the {s.min_instances} confirmed by hand: the rule no longer sees the code it is about"
            )
        return 2
    if unknown:
        os.makedirs(os.path.join(EVIDENCE_DIR, "replay"), exist_ok=True)
        payload = {
            "property": ctx.prop,
            "command": cmd,
            "root": ctx.root,
            "findings": [asdict(f) for f in unknown],
        }
        dig = hashlib.sha256(json.dumps(payload, sort_keys=True).encode()).hexdigest()[:12]
        rp = os.path.join(EVIDENCE_DIR, "replay", f"{ctx.prop}-{dig}.json")
        with open(rp, "w") as fh:
            json.dump(payload, fh, indent=1)
        for f in unknown:
            print(f"FINDING property={f.property} {f.text()}  key={f.key}")
        print(f"VIOLATION property={ctx.prop} replay={rp}")
        return 1
    print(f"OK property={ctx.prop} tier={ctx.tier} obligations={obligations} discharged={discharged} known_findings={nknown} wall={wall:.2f}s")
    return 0
