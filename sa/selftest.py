"""Checker self-test (section 5 of DESIGN.md): a battery of edits computed on the
CURRENT source of /repo (never a stored copy) is applied to scratch copies of
the package; each breaking edit must make the named check exit 1 and mention the
mutated construct, each behaviour-preserving edit must leave it at exit 0.

An edit whose anchor text is no longer present in the source is reported as
SKIPPED (the battery must not rot silently: too many skips fail the self-test).
"""

from __future__ import annotations

import concurrent.futures as cf
import json
import os
import shutil
import subprocess
import sys
import tempfile
import time

HERE = os.path.dirname(os.path.dirname(os.path.abspath(__file__)))

# (property, id, file, old, new, expect substring in output)  -- breaking edits
M = []
# (property, id, file, old, new) -- behaviour preserving edits (must stay silent)
S = []


def mut(prop, mid, file, old, new, expect):
    M.append(dict(prop=prop, id=mid, file=file, old=old, new=new, expect=expect))


def same(prop, mid, file, old, new):
    S.append(dict(prop=prop, id=mid, file=file, old=old, new=new))


E = "EasyFEA/"
# ---------------------------------------------------------------- C06 / C01
mut("C06", "tri6-dN-coef", E + "FEM/Elems/_tri.py", "dN2 = [lambda r, s: 4 * r - 1, lambda r, s: 0]", "dN2 = [lambda r, s: 4 * r + 1, lambda r, s: 0]", "TRI6._dN")
mut("C06", "tri3-N-swap", E + "FEM/Elems/_tri.py", "        N2 = lambda r, s: r\n        N3 = lambda r, s: s\n\n        N = np.array([N1, N2, N3])", "        N2 = lambda r, s: s\n        N3 = lambda r, s: r\n\n        N = np.array([N1, N2, N3])", "TRI3._N")
mut("C06", "eb2-hermite-slope", E + "FEM/Elems/_beam.py", "N2 = lambda r: (r - 1) ** 2 * (r + 1) / 8", "N2 = lambda r: (r - 1) ** 2 * (r + 1) / 4", "EULER_BERNOULLI2._Hermitian_N")
mut("C06", "eb2-hermite-ddN", E + "FEM/Elems/_beam.py", "ddN2 = [lambda r: 3 * r / 4 - 1 / 4]", "ddN2 = [lambda r: 3 * r / 4 + 1 / 4]", "_Hermitian_ddN")
mut("C06", "eval-functions-index", E + "FEM/_group_elem.py", "evalFunctions[p, f, n] = function_nPe[f](*gaussPoints[p])", "evalFunctions[p, f, n] = function_nPe[f](*gaussPoints[n % nPg])", "_Eval_Functions")
same("C06", "tri6-N-reorder-terms", E + "FEM/Elems/_tri.py", "N2 = lambda r, s: r * (2 * r - 1)\n", "N2 = lambda r, s: (2 * r - 1) * r\n")
same("C06", "tri6-dN-rewrite", E + "FEM/Elems/_tri.py", "dN2 = [lambda r, s: 4 * r - 1, lambda r, s: 0]", "dN2 = [lambda r, s: 2 * (2 * r) - 1.0, lambda r, s: 0 * s]")
mut("C01", "B-shear-row-swap", E + "FEM/_group_elem.py", "            B_e_pg[:, :, 3, columnsY] = dNdz * cM\n            B_e_pg[:, :, 3, columnsZ] = dNdy * cM", "            B_e_pg[:, :, 3, columnsY] = dNdy * cM\n            B_e_pg[:, :, 3, columnsZ] = dNdz * cM", "Get_B_e_pg")
mut("C01", "dNe-order", E + "FEM/_group_elem.py", "dN_e_pg = invF_e_pg @ dN_pg\n", "dN_e_pg = Transpose(invF_e_pg) @ dN_pg\n", "Get_dN_e_pg")
mut("C01", "kelvin-m2v-shear", E + "Models/_utils.py", "        vector[..., 3] = matrix[..., 1, 2] * coef  # yz\n        vector[..., 4] = matrix[..., 0, 2] * coef  # xz", "        vector[..., 3] = matrix[..., 0, 2] * coef  # yz\n        vector[..., 4] = matrix[..., 1, 2] * coef  # xz", "Project_matrix_to_vector")
mut("C01", "quad8-rigi-1pt", E + "FEM/_gauss.py", "        elif elemType == ElemType.QUAD8:\n            if matrixType == MatrixType.rigi:\n                nPg = 4", "        elif elemType == ElemType.QUAD8:\n            if matrixType == MatrixType.rigi:\n                nPg = 1", None)
same("C01", "B-local-rename", E + "FEM/_group_elem.py", "        cM = 1 / np.sqrt(2)\n", "        cM = np.sqrt(2) / 2\n")
# ---------------------------------------------------------------- C07 / C02
mut("C07", "tri3pt-abscissa", E + "FEM/_gauss.py", "ksis = [1 / 6, 2 / 3, 1 / 6]\n            etas = [1 / 6, 1 / 6, 2 / 3]", "ksis = [1 / 6, 2 / 3, 1 / 6]\n            etas = [1 / 6, 1 / 6, 1 / 2]", "_Triangle[nPg=3]")
mut("C07", "tetra4-weight", E + "FEM/_gauss.py", "weights = [1 / 24] * nPg", "weights = [1 / 24, 1 / 24, 1 / 24, 1 / 12]", "_Tetrahedron[nPg=4]")
mut("C07", "tri7-literal-digit", E + "FEM/_gauss.py", "a = 0.470142064105115", "a = 0.470142064105151", "_Triangle[nPg=7]")
mut("C07", "factory-tri6-rigi-1", E + "FEM/_gauss.py", "        elif elemType == ElemType.TRI6:\n            if matrixType == MatrixType.rigi:\n                nPg = 3", "        elif elemType == ElemType.TRI6:\n            if matrixType == MatrixType.rigi:\n                nPg = 1", None)
mut("C07", "factory-quad9-unavailable", E + "FEM/_gauss.py", "        elif elemType == ElemType.QUAD9:\n            nPg = 9", "        elif elemType == ElemType.QUAD9:\n            nPg = 16", "Gauss_factory")
same("C07", "tri3-weights-literal", E + "FEM/_gauss.py", "weights = [1 / 6] * 3", "weights = [1 / 6, 1 / 6, 1 / 6]")
mut("C02", "tetra10-mass-4pt", E + "FEM/_gauss.py", "            elif matrixType == MatrixType.mass:\n                nPg = 15", "            elif matrixType == MatrixType.mass:\n                nPg = 4", "TETRA10,mass")
mut("C02", "hexa20-8pt", E + "FEM/_gauss.py", "        elif elemType == ElemType.HEXA20:\n            nPg = 27", "        elif elemType == ElemType.HEXA20:\n            nPg = 8", "HEXA20")
mut("C02", "elasticity-nonsym", E + "FEM/Operators/Bilinear.py", 'return einsum("epij,epjk->eik", leftDispPart_e_pg @ C, B_e_pg)', 'return einsum("epij,epjk->eik", leftDispPart_e_pg @ C, 2 * B_e_pg)', "LinearizedElasticity")
mut("C02", "sri-rows", E + "FEM/Operators/Bilinear.py", "    matrixType = MatrixType.beam_shear\n    shear_rows = {2: (2,), 3: (4, 5)}[dim]", "    matrixType = MatrixType.beam_shear\n    shear_rows = {2: (2,), 3: (3, 5)}[dim]", "shear_rows")
mut("C02", "prism-negative-weight", E + "FEM/_gauss.py", "        elif elemType == ElemType.PRISM6:\n            nPg = 6", "        elif elemType == ElemType.PRISM6:\n            nPg = 8", "PRISM6")
# ---------------------------------------------------------------- C05
mut("C05", "newmark-coefC", E + "Simulations/_simu.py", "            coefK = 1\n            coefC = gamma / (beta * dt)\n            coefM = 1 / (beta * dt**2)\n        elif self.algo == AlgoType.hht:", "            coefK = 1\n            coefC = beta / (gamma * dt)\n            coefM = 1 / (beta * dt**2)\n        elif self.algo == AlgoType.hht:", "newmark")
mut("C05", "midpoint-rhs-sign", E + "Simulations/_simu.py", "b += (coefM * M + coefC * C - 1 / 2 * K) @ u_n", "b += (coefM * M + coefC * C + 1 / 2 * K) @ u_n", "midpoint")
mut("C05", "hhtn-drop-Kun", E + "Simulations/_simu.py", "            b -= alpha * K @ u_n\n", "            pass\n", "hht_newmark")
mut("C05", "hht-corrector", E + "Simulations/_simu.py", "                1 / (beta * dt) * ((u_np1 - u_n) / dt - v_n)\n                + (1 - 1 / (2 * beta)) * a_n", "                1 / (beta * dt) * ((u_np1 - u_n) / dt - v_n)\n                + (1 - 1 / beta) * a_n", "hht")
mut("C05", "euler-implicit-eval", E + "Simulations/_simu.py", "            a_np1 = (v_np1 - v_n) / dt  # backward-Euler acceleration", "            a_np1 = (v_np1 + v_n) / dt  # backward-Euler acceleration", "euler_implicit")
same("C05", "newmark-rewrite", E + "Simulations/_simu.py", "            ut_np1 = u_n + dt * v_n + dt**2 / 2 * (1 - 2 * beta) * a_n\n            vt_np1 = v_n + dt * (1 - gamma) * a_n\n\n            u_t = u_np1", "            ut_np1 = u_n + v_n * dt + (0.5 - beta) * dt * dt * a_n\n            vt_np1 = v_n + (dt - dt * gamma) * a_n\n\n            u_t = u_np1")
# ---------------------------------------------------------------- C03 / C04
mut("C03", "blocked-dofs", E + "FEM/_group_elem.py", "assembly[:, columns] = np.array(connect) * dof_n + d", "assembly[:, columns] = np.array(connect) + d * 1000", "_Get_assembly_e")
mut("C03", "rows-cols-swap", E + "FEM/_group_elem.py", "        rowsVector_e = np.repeat(assembly_e, nPe * dof_n).reshape((Ne, ndof2))", "        rowsVector_e = np.repeat(assembly_e, nPe * dof_n, axis=0).reshape((Ne, ndof2))", "Get_rows_e")
same("C03", "data-unfiltered-equivalent", E + "Simulations/_simu.py", "data = np.concatenate([dict_group_data[g].ravel() for g in groups])", "data = np.concatenate([X_e.ravel() for X_e in dict_group_data.values() if X_e is not None and X_e.size])")  # empty arrays contribute nothing either way: the structural rule that flagged this was a false alarm
mut("C03", "slot-swap", E + "Simulations/_simu.py", "            {g: KCMF[1] for g, KCMF in dict_KCMF.items()}, dof_n, Ndof, True\n        )\n        tic.Tac(\"Matrix\", f\"Assemble the C matrix", "            {g: KCMF[2] for g, KCMF in dict_KCMF.items()}, dof_n, Ndof, True\n        )\n        tic.Tac(\"Matrix\", f\"Assemble the C matrix", "Assembly")
mut("C04", "known-unknown-swap", E + "Simulations/Solvers.py", "    dofsKnown, dofsUnknown = simu.Bc_dofs_known_unknown(problemType)\n\n    ownedDofs = None", "    dofsUnknown, dofsKnown = simu.Bc_dofs_known_unknown(problemType)\n\n    ownedDofs = None", "__Solver_1")
mut("C04", "rhs-sign", E + "Simulations/Solvers.py", "    bi -= Aic @ xc\n", "    bi += Aic @ xc\n", "__Solver_1")
mut("C04", "mask-order", E + "Simulations/_simu.py", "        dofsKnown = np.where(~mask)[0]  # unique, sorted\n        dofsUnknown = np.where(mask)[0]", "        dofsKnown = np.where(mask)[0]  # unique, sorted\n        dofsUnknown = np.where(~mask)[0]", "Bc_dofs_known_unknown")
mut("C04", "orphan-after-return", E + "Simulations/_simu.py", "        if len(self.mesh.orphanNodes) > 0:\n            # add 1.0 to orphan dofs", "        if len(self.mesh.orphanNodes) > 0 and resolution == ResolType.r3:\n            # add 1.0 to orphan dofs", None)
same("C04", "solver1-rename", E + "Simulations/Solvers.py", "    bi = b[dofsUnknown, 0]\n    xc = x[dofsKnown, 0]", "    bi = b[dofsUnknown, 0]\n    xc = x[dofsKnown, 0]  # prescribed values")
# ---------------------------------------------------------------- C08 / C09 / C10
mut("C08", "tetra-surface-orientation", E + "FEM/Elems/_tetra.py", "                [0, 2, 1],\n                [0, 3, 2],\n                [0, 1, 3],\n                [1, 2, 3],\n            ],\n            dtype=int,\n        )\n\n    @property\n    def faces(self) -> _types.IntArray:\n        return self.surfaces\n\n    def Get_Local_Coords(self):\n        list_x = [0, 1, 0, 0]", "                [0, 1, 2],\n                [0, 3, 2],\n                [0, 1, 3],\n                [1, 2, 3],\n            ],\n            dtype=int,\n        )\n\n    @property\n    def faces(self) -> _types.IntArray:\n        return self.surfaces\n\n    def Get_Local_Coords(self):\n        list_x = [0, 1, 0, 0]", "TETRA4.surfaces")
mut("C08", "rotation-sign", E + "Geoms/_utils.py", "[y * x * C + z * s, y * y * C + c, y * z * C - x * s],", "[y * x * C + z * s, y * y * C + c, y * z * C + x * s],", "_Rotation_matrix")
mut("C08", "symmetry-factor", E + "Geoms/_utils.py", 'newCoord = oldCoord - np.einsum("n,i->ni", 2 * d, n, optimize="optimal")', 'newCoord = oldCoord - np.einsum("n,i->ni", d, n, optimize="optimal")', "Symmetry")
mut("C08", "no-orientation", E + "FEM/_group_elem.py", "            n_f[inward_f] *= -1\n", "            pass\n", "Get_pointsInElem")
mut("C09", "volume-thickness-3d", E + "Simulations/_simu.py", "            dofsValues, dofs, nodes = self.__Bc_volumeload(\n                problemType, nodes, values, unknowns\n            )\n", "            dofsValues, dofs, nodes = self.__Bc_volumeload(\n                problemType, nodes, values, unknowns\n            )\n            dofsValues = dofsValues * self.model.thickness\n", "add_volumeLoad")
mut("C09", "surf-dim", E + "Simulations/_simu.py", "        if dim == 2:\n            dofsValues, dofs, nodes = self.__Bc_lineLoad(\n                problemType, nodes, values, unknowns\n            )\n            # multiplied by thickness\n            dofsValues *= self.model.thickness", "        if dim == 2:\n            dofsValues, dofs, nodes = self.__Bc_lineLoad(\n                problemType, nodes, values, unknowns\n            )", "add_surfLoad")
mut("C09", "not-exclusive", E + "Simulations/_simu.py", "elements = groupElem.Get_Elements_Nodes(nodes, exclusively=True)\n            if elements.shape[0] == 0:\n                continue\n            connect = groupElem.connect[elements]\n            Ne = elements.shape[0]\n            list_nodesUsed", "elements = groupElem.Get_Elements_Nodes(nodes, exclusively=False)\n            if elements.shape[0] == 0:\n                continue\n            connect = groupElem.connect[elements]\n            Ne = elements.shape[0]\n            list_nodesUsed", "__Bc_Integration_Dim")
mut("C09", "pointload-no-split", E + "Simulations/_simu.py", "            eval_n /= len(nodes)\n", "            pass\n", "__Bc_pointLoad")
mut("C10", "beam-P-not-transposed", E + "FEM/Elems/_beam.py", "= P[:, columns, lines]", "= P[:, lines, columns]", "_Compute_P_e_pg")
mut("C10", "pmat-A-entry", E + "Models/_utils.py", "[p21 * p31, p11 * p31, p11 * p21],", "[p21 * p31, p11 * p31, p11 * p22],", "Get_Pmat")
mut("C10", "pmat-norm-multiply", E + "Models/_utils.py", "        1 / np.linalg.norm(axis_1, axis=0),", "        np.linalg.norm(axis_1, axis=0),", "Get_Pmat")
mut("C10", "apply-pmat-toglobal", E + "Models/_utils.py", '        i1 = "ij"\n        id2 = "lk"', '        i1 = "ij"\n        id2 = "kl"', "Apply_Pmat")
# ---------------------------------------------------------------- C11 / C12
mut("C11", "transiso-c12", E + "Models/Elastic/_laws.py", "[2 * kt * vl, kt + Gt, kt - Gt, 0, 0, 0],", "[2 * kt * vl, kt + Gt, kt + Gt, 0, 0, 0],", "TransverselyIsotropic._Behavior")
mut("C11", "planestress-lambda", E + "Models/Elastic/_laws.py", "lmbda = E * v / (1 - v**2)", "lmbda = E * v / (1 - v)", "Isotropic._Behavior")
mut("C11", "reduction-from-C", E + "Models/Elastic/_laws.py", "                if len(shape) == 2:\n                    s = global_sM[x, :][:, x]", "                if len(shape) == 2:\n                    s = np.linalg.inv(global_cM[x, :][:, x])", "_Apply_basis_transformation")
mut("C11", "aniso-dead-flag", E + "Models/Elastic/_laws.py", "            C_mandel_global = C_mandel\n", "            C_mandel_global = C\n", "Anisotropic._Behavior")
mut("C11", "update-only-C", E + "Models/Elastic/_laws.py", "    def _Update(self) -> None:\n        C, S = self._Behavior(self.dim)\n        self.C = C\n        self.S = S\n\n    def get_lambda(self):", "    def _Update(self) -> None:\n        C, S = self._Behavior(self.dim)\n        self.C = C\n\n    def get_lambda(self):", "Isotropic._Update")
mut("C12", "inv3-sign", E + "FEM/_linalg.py", "        adj[..., 0, 1] = -det01\n", "        adj[..., 0, 1] = det01\n", "Inv")
mut("C12", "det2", E + "FEM/_linalg.py", "det = (a * d) - (c * b)", "det = (a * d) + (c * b)", "Det")
mut("C12", "ddot-subscript", E + "FEM/_linalg.py", 'idx2 = "".join(chr(ord(v) + ndim1 - 2) for v in _idx[ndim2])', 'idx2 = "".join(chr(ord(v) + ndim1 - 1) for v in _idx[ndim2])', "_ddot_subscript")
mut("C12", "broadcast-no-tensor-ndim", E + "FEM/Operators/Bilinear.py", "    C = FeArray.broadcast(C, Ne, nPg, tensor_ndim=2)\n", "    C = FeArray.broadcast(C, Ne, nPg)\n", "LinearizedElasticity")
mut("C12", "fe-axis-drop", E + "FEM/_group_elem.py", "@ np.asarray(invF_e_pg[e, 0])", "@ invF_e_pg[e, 0]", "_Get_Mapping")
# ---------------------------------------------------------------- C13 / C14 / C15
mut("C13", "activation-dof", E + "FEM/_forms.py", "            u._Set_current_active_dof(i % dof_n)", "            u._Set_current_active_dof(i // nPe)", "BiLinearForm.Integrate_e")
mut("C13", "linear-assemble-rows", E + "FEM/_forms.py", "        rows = groupElem.Get_assembly_e(dof_n).ravel()\n        columns = np.zeros_like(rows)", "        rows = groupElem.Get_assembly_e(dof_n).ravel()\n        columns = np.ones_like(rows)", "LinearForm.Assemble")
mut("C13", "weakforms-slot", E + "Simulations/_weakforms.py", "        return {self.mesh.groupElem: (K_e, C_e, M_e, F_e)}", "        return {self.mesh.groupElem: (K_e, M_e, C_e, F_e)}", "WeakForms.Construct_local_matrix_system")
mut("C14", "rotate-no-notify", E + "FEM/_mesh.py", "        newCoord = Rotate(oldCoord, theta, center, direction)\n        for groupElem in self.dict_groupElem.values():\n            groupElem.coord = newCoord\n        self._Notify(\"The mesh has been modified\")", "        newCoord = Rotate(oldCoord, theta, center, direction)\n        for groupElem in self.dict_groupElem.values():\n            groupElem.coord = newCoord", "Mesh.Rotate")
mut("C14", "group-coord-no-init", E + "FEM/_group_elem.py", "        self.__coord = np.asarray(coord[self.nodes], dtype=float)\n        self._InitMatrix()", "        self.__coord = np.asarray(coord[self.nodes], dtype=float)", "coord")
mut("C14", "update-keeps-cache", E + "Simulations/_simu.py", "            clear_cached_computed_values(self)\n            self.Need_Update()\n        else:\n            Terminal.MyPrintError(\"Notification not yet implemented\")", "            self.Need_Update()\n        else:\n            Terminal.MyPrintError(\"Notification not yet implemented\")", "__Mass_e")
mut("C14", "getKCMF-no-clear", E + "Simulations/_simu.py", "            self.Need_Update(False)\n\n        return self.__K", "            pass\n\n        return self.__K", "Get_K_C_M_F")
mut("C15", "getter-no-copy", E + "Simulations/_simu.py", "        arr = self.__dict_u_n[problemType].copy()", "        arr = self.__dict_u_n[problemType]", "_Get_u_n")
mut("C15", "inplace-live", E + "Simulations/_simu.py", "        self.__Check_New_Sol_Values(problemType, values)\n        self.__dict_v_n[problemType] = values", "        self.__Check_New_Sol_Values(problemType, values)\n        self.__dict_v_n[problemType][:] = values", "__dict_v_n")
mut("C15", "get-results-mutates", E + "Simulations/_simu.py", "        entry = self.__list_results[iter]\n        if isinstance(entry, str):", "        entry = self.__list_results[iter]\n        self.__indexMesh = entry[\"indexMesh\"] if isinstance(entry, dict) else self.__indexMesh\n        if isinstance(entry, str):", "Get_results")
mut("C15", "thermal-key", E + "Simulations/_thermal.py", 'iter["thermalDot"] = self.thermalDot', 'iter["thermal_dot"] = self.thermalDot', "Thermal")
mut("C15", "result-no-restore", E + "Simulations/_thermal.py", "        if iter is not None:\n            self.Set_Iter(iter)\n\n        if not self._Results_Check_Available(result):", "        if not self._Results_Check_Available(result):", "Thermal.Result")
# ---------------------------------------------------------------- C16 / C17 / C18 / C19 / C20
mut("C16", "elastic-index", E + "Simulations/_elastic.py", "            elif \"y\" in result:\n                return 1\n            elif \"z\" in result:\n                return 2", "            elif \"y\" in result:\n                return 1\n            elif \"z\" in result:\n                return 1", "Elastic.Result")
mut("C16", "elastic-vx-source", E + "Simulations/_elastic.py", "        elif result in [\"vx\", \"vy\", \"vz\"]:\n            values_n = self.speed.reshape(Nn, -1)", "        elif result in [\"vx\", \"vy\", \"vz\"]:\n            values_n = self.accel.reshape(Nn, -1)", "Elastic.Result")
mut("C16", "advertise-unhandled", E + "Simulations/_thermal.py", "    def Results_Available(self) -> list[str]:\n", "    def Results_Available(self) -> list[str]:\n        return [\"thermal\", \"thermalDot\", \"flux\"]\n", "Thermal.Result")
mut("C16", "vonmises-coef", E + "Models/_utils.py", "+ 6 * (xy**2 + yz**2 + xz**2)", "+ 3 * (xy**2 + yz**2 + xz**2)", "__Result_in_Strain_or_Stress_field")
mut("C17", "anisot-drop-cross", E + "Models/_phasefield.py", "            elif self.split == self.SplitType.AnisotStrain_PM:\n                cP_e_pg = Cpp + Cpm\n                cM_e_pg = Cmm + Cmp", "            elif self.split == self.SplitType.AnisotStrain_PM:\n                cP_e_pg = Cpp + Cpm\n                cM_e_pg = Cmm", "AnisotStrain_PM")
mut("C17", "miehe-Rp-twice", E + "Models/_phasefield.py", "            cM_e_pg = lamb * (Rm_e_pg * IxI) + 2 * mu * projM_e_pg", "            cM_e_pg = lamb * (Rp_e_pg * IxI) + 2 * mu * projM_e_pg", "Miehe")
mut("C17", "projM-independent", E + "Models/_phasefield.py", "            projM = np.eye(3) - projP", "            projM = np.eye(3) - 0.5 * projP", "__Spectral_Decomposition")
mut("C17", "history-min", E + "Simulations/_phasefield.py", "            elements, gaussPoints = np.where(inc_H < 0)", "            elements, gaussPoints = np.where(inc_H > 0)", "history")
mut("C18", "neohookean-dWdI3", E + "Models/HyperElastic/_laws.py", "        dWdI1 = K / I3 ** (1 / 3)\n        dWdI3 = -I1 * K / (3 * I3 ** (4 / 3))\n        dW = 2 * (dWdI1 * dI1dC + dWdI3 * dI3dC)", "        dWdI1 = K / I3 ** (1 / 3)\n        dWdI3 = -I1 * K / (3 * I3 ** (5 / 3))\n        dW = 2 * (dWdI1 * dI1dC + dWdI3 * dI3dC)", "NeoHookean.Compute_dWde")
mut("C18", "svk-missing-term", E + "Models/HyperElastic/_laws.py", "            d2WdI1dI1 * TensorProd(dI1dC, dI1dC) + d2WdI3dI3 * TensorProd(dI3dC, dI3dC)", "            d2WdI1dI1 * TensorProd(dI1dC, dI1dC)", "SaintVenantKirchhoff.Compute_d2Wde")
mut("C18", "mooney-ref-energy", E + "Models/HyperElastic/_laws.py", "            K * (np.sqrt(I3) - 1) ** 2\n            + K1 * (I1 / I3 ** (1 / 3) - 3)", "            K * (np.sqrt(I3) - 1) ** 2\n            + K1 * (I1 / I3 ** (1 / 3) - 2)", "MooneyRivlin")
mut("C19", "flow-writes-zold", E + "Models/InElastic/_behavior.py", "        Ne, nPg = eps6_e_pg.shape[:2]\n        C6_e_pg = self._C_e_pg(Ne, nPg)\n        if self.__layout.n == 0:", "        Ne, nPg = eps6_e_pg.shape[:2]\n        zOld_e_pg[..., 0] *= 1.0\n        C6_e_pg = self._C_e_pg(Ne, nPg)\n        if self.__layout.n == 0:", "__Integrate_3d")
mut("C19", "assembly-commits", E + "Simulations/_inelastic.py", "            self.__z[groupElem.elemType] = z_e_pg\n", "            self.__z[groupElem.elemType] = z_e_pg\n            self.__zOld[groupElem.elemType] = z_e_pg\n", "Construct_local_matrix_system")
mut("C19", "save-no-copy", E + "Simulations/_inelastic.py", "        self.__zOld = {et: arr.copy() for et, arr in self.__z.items()}", "        self.__zOld = dict(self.__z)", "Save_Iter")
mut("C20", "energy-all-rows", E + "Simulations/_simu.py", "        return Reduce_sum(0.5 * x[dofs] @ (A[dofs][:, : x.size] @ x))", "        return Reduce_sum(0.5 * x @ (A[:, : x.size] @ x))", "Calc_Energy")
mut("C20", "reaction-rows", E + "Simulations/_simu.py", "            reaction[dofs] += M[dofs][:, :Ndof] @ self._Get_a_n(problemType)", "            reaction += M[:, :Ndof] @ self._Get_a_n(problemType)", "Calc_Reaction")
mut("C20", "partition-unsorted", E + "FEM/_group_elem.py", "        elements = np.sort(np.asarray(elements, dtype=int))", "        elements = np.asarray(elements, dtype=int)", None)
mut("C20", "ghost-any-axis", E + "FEM/_mesher.py", "mask = np.isin(other_connect, owned_arr).any(axis=1)", "mask = np.isin(other_connect, owned_arr).all(axis=1)", "__Get_partitioned_groupElems")

# ---------------------------------------------------------------- rules added after the first seeded round
mut("C02", "thermal-thickness-model-dim", E + "Simulations/_thermal.py", "            if self.mesh.dim == 2:\n                thickness = thermalModel.thickness", "            if self.dim == 2:\n                thickness = thermalModel.thickness", "Thermal")
mut("C17", "history-damage-not-stored", E + "Simulations/_phasefield.py", "            self._Set_solutions(self.ProblemTypes.damage, d_np1)\n            self.__updatedDisplacement = False\n", "", "PhaseField.Solve")
mut("C20", "claim-lower-ranks-only", E + "FEM/_mesher.py", "*(dict_rank_nodes[r] for r in range(Nproc) if r != rank)", "*(dict_rank_nodes[r] for r in range(Nproc) if r < rank)", "__Get_partitioned_groupElems")
mut("C20", "claim-not-recorded", E + "FEM/_mesher.py", "            dict_rank_nodes[rank].update(nodes)\n            Nn += len(nodes)", "            Nn += len(nodes)", "__Get_partitioned_groupElems")
mut("C19", "phi-slope-drop-lam", E + "Models/InElastic/_spectral.py", "    dphi_e_pg = -(w_e_pg * lam * d_e_pg).sum(axis=-1) / safe_e_pg", "    dphi_e_pg = -(w_e_pg * d_e_pg).sum(axis=-1) / safe_e_pg", "_Phi")
mut("C19", "tangent-sign", E + "Models/InElastic/_spectral.py", "    dtheta_e_pg = -(1.0 - res.theta * res.slope) / slope_e_pg", "    dtheta_e_pg = (1.0 - res.theta * res.slope) / slope_e_pg", "Tangent")
mut("C19", "voce-dR", E + "Models/InElastic/IsotropicHardening.py", "        lambda p: Q * b * np.exp(-b * p),", "        lambda p: Q * np.exp(-b * p),", "Voce")
mut("C19", "hill-normal-scale", E + "Models/InElastic/Yield.py", "        return Ps_e_pg / safe\n\n    def dNdSig", "        return 2 * Ps_e_pg / safe\n\n    def dNdSig", "Hill")
mut("C19", "norton-dinverse", E + "Models/InElastic/ViscoPlastic.py", "        return sigma_0 / (n * A) * (np.maximum(g, _TINY) / A) ** (1 / n - 1)", "        return sigma_0 / (n * A) * (np.maximum(g, _TINY) / A) ** (1 / n)", "Norton")
mut("C18", "dI2-shear-coef", E + "Models/HyperElastic/_state.py", "        coef = -np.sqrt(2)\n\n        dI2dC_e_pg[:, :, 0] = cyy + czz", "        coef = -2.0\n\n        dI2dC_e_pg[:, :, 0] = cyy + czz", "Compute_dI2dC")
mut("C18", "spk-thickness-residual-only", E + "FEM/Operators/NonLinear.py", "        thickness = material.thickness\n        tangent_e *= thickness\n        residual_e *= thickness\n\n    return __reorder_dofs(dim, nPe, tangent_e, residual_e)\n\n\ndef GonzalezStressTensor", "        thickness = material.thickness\n        residual_e *= thickness\n\n    return __reorder_dofs(dim, nPe, tangent_e, residual_e)\n\n\ndef GonzalezStressTensor", "SecondPiolaKirchhoffStressTensor")
mut("C03", "assembly-drop-empty-K", E + "Simulations/_simu.py", "        dict_KCMF = self.Construct_local_matrix_system(problemType)\n", "        dict_KCMF = {g: t for g, t in self.Construct_local_matrix_system(problemType).items() if t[0] is not None}\n", "Assembly")
mut("C07", "weighted-jacobian-mean", E + "FEM/_mesh.py", "            values_e = jacobian_e_pg.max(1) / jacobian_e_pg.min(1)", "            values_e = jacobian_e_pg.max(1) / jacobian_e_pg.mean(1)", "unweighted")
mut("C17", "plane-sqrt-unclamped", E + "Models/_phasefield.py", "            delta = np.maximum(delta, 0.0)\n", "", "sqrt")
mut("C17", "plane-beta-limit-dropped", E + "Models/_phasefield.py", "            BetaP[eq12] = dvalp[..., 0][eq12]\n", "", "__Spectral_Decomposition")
mut("C17", "plane-beta-limit-one", E + "Models/_phasefield.py", "            BetaP[eq12] = dvalp[..., 0][eq12]\n", "            BetaP[eq12] = 1.0\n", "__Spectral_Decomposition")
mut("C17", "plane-M1-not-normalised", E + "Models/_phasefield.py", "                m1_tot = (matrix_e_pg - eigs_e_pg[:, :, 1] * I_e_pg) / v1_m_v2\n", "                m1_tot = (matrix_e_pg - eigs_e_pg[:, :, 1] * I_e_pg)\n", "_Eigen_values_vectors_projectors")
same("C17", "plane-sqrt-clip", E + "Models/_phasefield.py", "            delta = np.maximum(delta, 0.0)\n", "            delta = np.clip(delta, 0.0, None)\n")
mut("C13", "field-value-ignores-dof", E + "FEM/_field.py", "        array[..., self._Get_current_active_dof()] = N_pg[..., node].reshape(1, nPg)\n", "        array[..., :] = N_pg[..., node].reshape(1, nPg, 1)\n", "Integrate_e")
mut("C10", "beam-own-axis-dropped", E + "FEM/Elems/_beam.py", "            F_e_pg = np.abs(F_e_pg)\n", "            pass\n", "Get_dN_e_pg")
mut("C17", "history-single-array", E + "Simulations/_phasefield.py", "        self.__psiP_e_pg[groupElem] = FeArray.asfearray(psiP_e_pg)\n\n        return self.__psiP_e_pg[groupElem]\n", "        self.__psiP_e_pg = FeArray.asfearray(psiP_e_pg)\n\n        return self.__psiP_e_pg\n", "per-group-state")
mut("C09", "empty-load-modulo", E + "FEM/_boundary_conditions.py", "        if self.nodes.size == 0:\n            # a condition on no node (e.g. a load on nodes that bound no element) holds no dof\n            assert self.dofs.size == 0, \"dofs must be empty when nodes is empty\"\n        else:\n            assert (\n                self.dofs.size % self.nodes.size == 0\n            ), f\"dofs.size must be a multiple of {self.nodes.size}\"\n", "        assert (\n            self.dofs.size % self.nodes.size == 0\n        ), f\"dofs.size must be a multiple of {self.nodes.size}\"\n", "empty-selection")
mut("C09", "empty-normals-concatenate", E + "FEM/_mesh.py", "        if len(list_normal) == 0:\n            # the nodes bound no boundary element\n            return np.zeros((0, 3), dtype=float), nodes\n", "", "empty-selection")
same("C09", "empty-normals-empty", E + "FEM/_mesh.py", "            return np.zeros((0, 3), dtype=float), nodes\n", "            return np.empty((0, 3), dtype=float), nodes\n")
same("C05", "scheme-setter-records-selection", E + "Simulations/_simu.py", "        self.__algo = algo\n        self.__hyperbolicParams = (dt, beta, gamma, alpha)\n", "        self.__algo = algo\n        self.__hyperbolicParams = (dt, beta, gamma, alpha)\n        self._lastSchemeSelected = str(algo)\n")
same("C03", "structure-matrix-bool", E + "Simulations/_simu.py", "        matrix = sparse.csr_matrix((np.ones(rows.size), (rows, cols)), shape=shape)", "        matrix = sparse.csr_matrix((np.ones(rows.size, dtype=float), (rows, cols)), shape=shape)")
same("C16", "active-guard-count-nonzero", E + "Simulations/_hyperelastic.py", "        if np.any(self.material.active_stress != 0.0):\n            S_e_pg = S_e_pg + self.material.Compute_active_stress(hyperElasticState)", "        if np.count_nonzero(self.material.active_stress) > 0:\n            S_e_pg = S_e_pg + self.material.Compute_active_stress(hyperElasticState)")
same("C08", "mapping-sorted-unique", E + "FEM/_group_elem.py", "        for e in np.unique(elements_e):\n", "        for e in np.sort(np.unique(elements_e)):\n")
same("C04", "lagrange-rows-descending", E + "Simulations/Solvers.py", "    values_Dirichlet = summed_values\n", "    values_Dirichlet = summed_values[::-1]\n    dofs_Dirichlet = dofs_Dirichlet[::-1]\n")
mut("C05", "scheme-switch-resets-rates", E + "Simulations/_simu.py", "        # nothing is stored before the arguments are accepted\n        self.__algo = algo\n        self.__hyperbolicParams = (dt, beta, gamma, alpha)\n", "        if algo != self.__algo:\n            for pt, u_n in self.__dict_u_n.items():\n                self.__dict_v_n[pt] = np.zeros_like(u_n, dtype=float)\n        # nothing is stored before the arguments are accepted\n        self.__algo = algo\n        self.__hyperbolicParams = (dt, beta, gamma, alpha)\n", "R5.14")
mut("C14", "mesh-indim-frozen", E + "FEM/_mesh.py", "        return max(groupElem.inDim for groupElem in self.__dict_groupElem.values())\n", "        if not hasattr(self, \"_inDim0\"):\n            self._inDim0 = max(groupElem.inDim for groupElem in self.__dict_groupElem.values())\n        return self._inDim0\n", "inDim")
mut("C08", "mapping-given-order", E + "FEM/_group_elem.py", "        for e in np.unique(elements_e):\n", "        for e in elements_e:\n", "R8.19")
mut("C20", "merge-no-closure", E + "FEM/_mesh.py", "                _, labels = connected_components(graph, directed=False)\n", "                labels = np.arange(N)\n                labels[pairs[:, 1]] = pairs[:, 0]\n                _, labels = np.unique(labels, return_inverse=True)\n", "R20.10")
mut("C02", "invF-first-point", E + "FEM/_group_elem.py", "        invF_e_pg = FeArray.asfearray(Inv(F_e_pg))\n", "        invF_e_pg = FeArray.asfearray(np.repeat(Inv(F_e_pg[:, :1]), F_e_pg.shape[1], axis=1))\n", "R2.12")
mut("C07", "weighted-jacobian-abs-product", E + "FEM/_group_elem.py", "        wJ_e_pg = np.asarray(jacobian_e_pg) * weight_pg\n", "        wJ_e_pg = np.abs(np.asarray(jacobian_e_pg) * weight_pg)\n", "R7.11")
mut("C19", "flow-bound-before-step", E + "Models/InElastic/_behavior.py", "            u = self.__Bound(u - np.linalg.solve(J, r[..., None])[..., 0])\n", "            u = self.__Bound(u) - np.linalg.solve(J, r[..., None])[..., 0]\n", "R19.18")
mut("C16", "stress-read-virgin-state", E + "Models/InElastic/_behavior.py", "        eps6_e_pg = self.Compute_strain_6d(eps_e_pg, z_e_pg, 0.0)\n        sig6_e_pg = self.Compute_sigma(eps6_e_pg, z_e_pg)\n        if self.dim == 3:", "        eps6_e_pg = self.Compute_strain_6d(eps_e_pg, None, 0.0)\n        sig6_e_pg = self.Compute_sigma(eps6_e_pg, z_e_pg)\n        if self.dim == 3:", "R16.16")
mut("C13", "weakforms-skip-unused-forms", E + "Simulations/_weakforms.py", "        computeM = weakForms.computeM\n        if computeM is None:\n", "        computeM = weakForms.computeM\n        if computeM is None or self.algo not in AlgoType.Get_Hyperbolic_Types():\n", "R13.3")
mut("C03", "assembly-shares-cached-pattern", E + "Simulations/_simu.py", "            (csr_data, indices.copy(), indptr.copy()), shape=shape\n", "            (csr_data, indices, indptr), shape=shape\n", "R3.12")
same("C03", "assembly-copies-pattern-np-array", E + "Simulations/_simu.py", "            (csr_data, indices.copy(), indptr.copy()), shape=shape\n", "            (csr_data, np.array(indices), np.array(indptr)), shape=shape\n")
mut("C04", "lagrange-row-per-entry", E + "Simulations/Solvers.py", "    dofs_Dirichlet, inverse = np.unique(dofs_Dirichlet, return_inverse=True)\n    summed_values = np.zeros(dofs_Dirichlet.size, dtype=values_Dirichlet.dtype)\n    np.add.at(summed_values, inverse, values_Dirichlet)\n    values_Dirichlet = summed_values\n", "", "__Solver_2")
mut("C04", "lagrange-last-value-wins", E + "Simulations/Solvers.py", "    np.add.at(summed_values, inverse, values_Dirichlet)\n", "    summed_values[inverse] = values_Dirichlet\n", "__Solver_2")
mut("C04", "lagrange-dim-raw-count", E + "Simulations/_simu.py", "            nBc += np.unique(self.Bc_dofs_Dirichlet(problemType)).size", "            nBc += len(self.Bc_dofs_Dirichlet(problemType))", "_Bc_Lagrange_dim")
same("C04", "lagrange-sum-by-bincount", E + "Simulations/Solvers.py", "    np.add.at(summed_values, inverse, values_Dirichlet)\n", "    summed_values += np.bincount(inverse, weights=values_Dirichlet, minlength=dofs_Dirichlet.size)\n")
mut("C04", "lagrange-col-unscaled", E + "Simulations/Solvers.py", "    A[dofs_Dirichlet, linesDirichlet] = alpha\n", "    A[dofs_Dirichlet, linesDirichlet] = 1.0\n", "__Solver_2")
mut("C02", "timo2d-shear-sign", E + "FEM/Elems/_beam.py", "            B_e_pg[:, :, 2, idx_rz] -= Nu_pg  # -θ", "            B_e_pg[:, :, 2, idx_rz] += Nu_pg  # -θ", "Get_beam_B_e_pg")
mut("C01", "eb3d-torsion-on-ry", E + "FEM/Elems/_beam.py", "            B_e_pg[:, :, 1, idx_rx] = dN_e_pg[:, :, 0]  # torsion: drx/dx (Lagrange)", "            B_e_pg[:, :, 1, idx_rx + 1] = dN_e_pg[:, :, 0]  # torsion: drx/dx (Lagrange)", "Get_beam_B_e_pg")
mut("C09", "beam-lineload-row", E + "Simulations/_beam.py", "                P_e[:, row % 3, :],\n                N_e_pg[:, :, block : block + 3, :],", "                P_e[:, u % 3, :],\n                N_e_pg[:, :, block : block + 3, :],", "add_lineLoad")
mut("C09", "nodal-load-wrong-order", E + "Simulations/_simu.py", "                    eval_n[nodes] = values[u]\n                    eval_e = eval_n[connect]  # (Ne, nPe)", "                    eval_n[np.sort(nodes)] = values[u]\n                    eval_e = eval_n[connect]  # (Ne, nPe)", "__Bc_Integration_Dim")
mut("C11", "param-get-no-copy", E + "Utilities/_params.py", "        return copy.copy(instance.__dict__[self.__name])", "        return instance.__dict__[self.__name]", "__get__")
mut("C11", "param-set-early-return", E + "Utilities/_params.py", "        instance.__dict__[self.__name] = value\n        if isinstance(instance, Updatable):", "        instance.__dict__[self.__name] = value\n        if np.ndim(value) == 0:\n            return\n        if isinstance(instance, Updatable):", "__set__")
mut("C14", "staggered-keep-damage-memo", E + "Simulations/_phasefield.py", "            u_np1 = self.__Solve_elastic()\n            # new displacement -> new damage matrices\n            self.__updatedDamage = False", "            u_np1 = self.__Solve_elastic()\n            # new displacement -> new damage matrices", "PhaseField.Solve")
mut("C15", "save-records-last-mesh", E + "Simulations/_simu.py", '        iter["indexMesh"] = self.__indexMesh\n', '        iter["indexMesh"] = self.__NindexMesh\n', "Set_Iter")
mut("C16", "field-e-sum", E + "Models/_utils.py", "                    field_e_pg(groupElem), result, coef\n                ).mean(1)", "                    field_e_pg(groupElem), result, coef\n                ).sum(1)", "Result_strain_or_stress_field_e")
mut("C16", "reaction-parabolic-as-newmark", E + "Simulations/_simu.py", "        if self.algo == AlgoType.parabolic:\n            reaction[dofs] += C[dofs][:, :Ndof] @ self._Get_v_n(problemType)", "        if self.algo == AlgoType.newmark:\n            reaction[dofs] += C[dofs][:, :Ndof] @ self._Get_v_n(problemType)", "Calc_Reaction")
mut("C18", "path-tangent-weight", E + "FEM/Operators/NonLinear.py", "                d2Wde_quad += (w * s / coefK) * material.Compute_d2Wde(state)", "                d2Wde_quad += (w / coefK) * material.Compute_d2Wde(state)", "TimeQuadratureStressTensor")
mut("C19", "condense-sign", E + "Models/InElastic/_behavior.py", "        return C_in - TensorProd(c_iz, c_zi) / c_zz", "        return C_in + TensorProd(c_iz, c_zi) / c_zz", "__Condense")
mut("C19", "jacobian-dR-at-old-state", E + "Models/InElastic/_behavior.py", "            dG_e_pg = u_e_pg[..., nz, None, None]\n            alpha_e_pg = z_e_pg[..., A][..., 0]", "            dG_e_pg = u_e_pg[..., nz, None, None]\n            alpha_e_pg = zOld_e_pg[..., A][..., 0]", "__Jacobian")
mut("C17", "r-inplace-on-history", E + "Models/_phasefield.py", "        # J/m3\n        if self.regularization == self.ReguType.AT1:\n            f = 2 * PsiP_e_pg - ((3 * Gc) / (8 * l0))", "        # J/m3\n        if self.regularization == self.ReguType.AT1:\n            PsiP_e_pg *= 2\n            f = PsiP_e_pg - ((3 * Gc) / (8 * l0))", "Get_f_e_pg")
mut("C08", "coord-global-index", E + "FEM/_group_elem.py", "        connect = self._global_to_local_nodes[self.connect]\n        coord_e = self.coord[connect]", "        connect = self.connect\n        coord_e = self.coord[connect]", "index")
mut("C08", "tag-with-local-rows", E + "FEM/_group_elem.py", "        closest_nodes = self.nodes[closest_node_indices]\n", "        closest_nodes = self._global_to_local_nodes[self.nodes[closest_node_indices]]\n", "_Get_nearby_elements")
same("C08", "nearby-nodes-inline", E + "FEM/_group_elem.py", "        closest_nodes = self.nodes[closest_node_indices]\n\n        return closest_nodes", "        return self.nodes[closest_node_indices]")
same("C19", "plane-stress-test-rewrite", E + "Models/InElastic/_behavior.py", "            if it > 0 and np.max(np.abs(r_e_pg)) < tol:", "            if it > 0 and np.abs(r_e_pg).max() < tol:")
same("C18", "kelvin-voigt-distribute", E + "FEM/Operators/NonLinear.py", "    Kgeo_e = thickness * (A_mat + A_geo)", "    Kgeo_e = thickness * A_mat + thickness * A_geo")
same("C08", "jacobian-abs-flag-local", E + "FEM/_group_elem.py", "        if absoluteValues:\n            jacobian_e_pg = np.abs(jacobian_e_pg)\n\n        return jacobian_e_pg", "        if absoluteValues:\n            jacobian_e_pg = np.absolute(jacobian_e_pg)\n        return jacobian_e_pg")
same("C13", "field-copy-explicit", E + "FEM/_field.py", "        return copy.deepcopy(self)", "        new = copy.deepcopy(self)\n        return new")
same("C19", "condense-rewrite", E + "Models/InElastic/_behavior.py", "        return C_in - TensorProd(c_iz, c_zi) / c_zz", "        return C_in - TensorProd(c_iz / c_zz, c_zi)")
same("C16", "reaction-explicit-full-tuple", E + "Simulations/_simu.py", "        elif self.algo in AlgoType.Get_Hyperbolic_Types():\n            reaction[dofs] += C[dofs]", "        elif self.algo in (AlgoType.newmark, AlgoType.midpoint, AlgoType.hht, AlgoType.hht_newmark, AlgoType.euler_implicit, AlgoType.euler_explicit):\n            reaction[dofs] += C[dofs]")
same("C11", "param-set-reordered", E + "Utilities/_params.py", "        instance.__dict__[self.__name] = value\n        if isinstance(instance, Updatable):\n            instance.Need_Update()", "        if isinstance(instance, Updatable):\n            instance.Need_Update()\n        instance.__dict__[self.__name] = value")
same("C14", "staggered-need-update", E + "Simulations/_phasefield.py", "        # damage and displacement field will change thats why we need to update the assembled matrices\n        self.__updatedDamage = False\n        self.__updatedDisplacement = False", "        # damage and displacement field will change thats why we need to update the assembled matrices\n        self.Need_Update()")
same("C15", "set-iter-unconditional", E + "Simulations/_simu.py", "        if indexMesh != self.__indexMesh:\n            self.__indexMesh = indexMesh\n            self.__Update_mesh(indexMesh)", "        self.__indexMesh = indexMesh\n        self.__Update_mesh(indexMesh)")
same("C09", "nodal-load-via-dict", E + "Simulations/_simu.py", "                    eval_n = np.zeros(Nn, dtype=float)\n                    eval_n[nodes] = values[u]", "                    eval_n = np.zeros(Nn)\n                    eval_n[nodes] = np.asarray(values[u])")


# --- generated behaviour-preserving edits: rename every local variable of an anchored function
RENAME = [
    ("C03", "EasyFEA.Simulations._simu._Simu.__Assemble_csr"), ("C03", "EasyFEA.Simulations._simu._Simu.__Get_csr_map"), ("C03", "EasyFEA.Simulations._simu._Simu.Assembly"),
    ("C03", "EasyFEA.FEM._group_elem._GroupElem._Get_assembly_e"), ("C03", "EasyFEA.FEM._group_elem._GroupElem.Get_rows_e"),
    ("C04", "EasyFEA.Simulations.Solvers.__Solver_1"), ("C04", "EasyFEA.Simulations.Solvers.__Solver_2"), ("C04", "EasyFEA.Simulations.Solvers._Solve_Axb"),
    ("C04", "EasyFEA.Simulations._simu._Simu.Bc_dofs_known_unknown"), ("C04", "EasyFEA.Simulations._simu._Simu.__Solver_Get_Dirichlet_A_x"), ("C04", "EasyFEA.Simulations._simu._Simu._Solver_Apply_Dirichlet"), ("C04", "EasyFEA.Simulations._simu._Simu.Bc_vector_Dirichlet"),
    ("C05", "EasyFEA.Simulations._simu._Simu._Solver_Apply_Neumann"), ("C05", "EasyFEA.Simulations._simu._Simu._Solver_Update_solutions"), ("C05", "EasyFEA.Simulations._simu._Simu._Solver_Evaluate_u_v_a_for_time_scheme"), ("C05", "EasyFEA.Simulations._simu._Simu._Solver_Get_K_C_M_coefs_for_time_scheme"),
    ("C01", "EasyFEA.FEM._group_elem._GroupElem.Get_B_e_pg"), ("C01", "EasyFEA.FEM._group_elem._GroupElem.Get_F_e_pg"), ("C01", "EasyFEA.Models._utils.Project_Kelvin"),
    ("C02", "EasyFEA.FEM.Operators.Bilinear.LinearizedElasticity"), ("C02", "EasyFEA.FEM.Operators.Bilinear.BeamShear"), ("C02", "EasyFEA.FEM.Operators.Bilinear.UV"),
    ("C07", "EasyFEA.FEM._gauss.Gauss._Prism"), ("C07", "EasyFEA.FEM._gauss.Gauss.Gauss_factory"),
    ("C08", "EasyFEA.FEM._group_elem._GroupElem.Get_pointsInElem"), ("C08", "EasyFEA.Geoms._utils._Rotation_matrix"), ("C08", "EasyFEA.Geoms._utils.Symmetry"),
    ("C09", "EasyFEA.Simulations._simu._Simu.__Bc_Integration_Dim"), ("C09", "EasyFEA.Simulations._simu._Simu.add_surfLoad"), ("C09", "EasyFEA.Simulations._simu._Simu.__Bc_pressureload"), ("C09", "EasyFEA.Simulations._simu._Simu.__Bc_pointLoad"),
    ("C10", "EasyFEA.FEM.Elems._beam._EulerBernoulli._Compute_P_e_pg"), ("C10", "EasyFEA.Models._utils.Get_Pmat"), ("C10", "EasyFEA.Models._utils.Apply_Pmat"),
    ("C11", "EasyFEA.Models.Elastic._laws._Elastic._Apply_basis_transformation"), ("C11", "EasyFEA.Models.Elastic._laws.Anisotropic._Behavior"), ("C11", "EasyFEA.Models.Elastic._laws.TransverselyIsotropic._Behavior"), ("C11", "EasyFEA.Models.Elastic._laws.Isotropic._Behavior"),
    ("C12", "EasyFEA.FEM._linalg.Inv"), ("C12", "EasyFEA.FEM._linalg.Det"), ("C12", "EasyFEA.FEM._linalg.FeArray._ddot_subscript"), ("C12", "EasyFEA.FEM._group_elem._GroupElem._Get_Mapping"),
    ("C13", "EasyFEA.FEM._forms.BiLinearForm.Integrate_e"), ("C13", "EasyFEA.FEM._forms.LinearForm.Assemble"), ("C13", "EasyFEA.Simulations._weakforms.WeakForms.Construct_local_matrix_system"),
    ("C14", "EasyFEA.FEM._mesh.Mesh.Rotate"), ("C14", "EasyFEA.Simulations._simu._Simu._Update"), ("C14", "EasyFEA.Simulations._simu._Simu.Get_K_C_M_F"),
    ("C15", "EasyFEA.Simulations._simu._Simu.Get_results"), ("C15", "EasyFEA.Simulations._simu._Simu.Save_Iter"), ("C15", "EasyFEA.FEM._mesh.Mesh.Save"), ("C15", "EasyFEA.FEM._mesh.Load_Mesh"), ("C15", "EasyFEA.Simulations._phasefield.PhaseField.Set_Iter"), ("C15", "EasyFEA.Simulations._inelastic.InElastic.Save_Iter"),
    ("C16", "EasyFEA.Simulations._elastic.Elastic.Result"), ("C16", "EasyFEA.Models._utils.__Result_in_Strain_or_Stress_field"), ("C16", "EasyFEA.FEM._mesh.Mesh.Get_Node_Values"), ("C16", "EasyFEA.Simulations._beam.Beam.Result"),
    ("C17", "EasyFEA.Models._phasefield.PhaseField.__Split_Strain"), ("C17", "EasyFEA.Models._phasefield.PhaseField.__Split_Stress"), ("C17", "EasyFEA.Models._phasefield.PhaseField._Eigen_values_vectors_projectors"), ("C17", "EasyFEA.Simulations._phasefield.PhaseField.__Calc_psiPlus_e_pg"), ("C17", "EasyFEA.Models._phasefield.PhaseField.__Spectral_Decomposition"),
    ("C18", "EasyFEA.Models.HyperElastic._laws.HolzapfelOgden.Compute_d2Wde"), ("C18", "EasyFEA.Models.HyperElastic._laws.NeoHookean.Compute_dWde"),
    ("C19", "EasyFEA.Models.InElastic._behavior.Behavior.Integrate"), ("C19", "EasyFEA.Models.InElastic._behavior.Behavior.__Flow"), ("C19", "EasyFEA.Simulations._inelastic.InElastic.Construct_local_matrix_system"), ("C19", "EasyFEA.Simulations._inelastic.InElastic.Save_Iter"),
    ("C20", "EasyFEA.Simulations._simu._Simu.Calc_Reaction"), ("C20", "EasyFEA.Simulations._simu._Simu.Calc_Energy"), ("C20", "EasyFEA.FEM._mesher.Mesher.__Get_partitioned_groupElems"), ("C20", "EasyFEA.FEM._mesh.Mesh.Merge"), ("C20", "EasyFEA.FEM._group_elem._GroupElem._Set_partitioned_data"),
    ("C02", "EasyFEA.FEM.Elems._beam._Timoshenko.Get_beam_B_e_pg"), ("C01", "EasyFEA.FEM.Elems._beam._EulerBernoulli.Get_beam_B_e_pg"), ("C02", "EasyFEA.FEM.Elems._beam._EulerBernoulli.Get_Hermitian_ddN_e_pg"),
    ("C08", "EasyFEA.FEM._group_elem._GroupElem._Get_nearby_nodes"), ("C08", "EasyFEA.FEM._group_elem._GroupElem._Get_nearby_elements"), ("C08", "EasyFEA.FEM._group_elem._GroupElem.Get_Elements_Nodes"), ("C08", "EasyFEA.FEM._group_elem._GroupElem._Get_Mapping"),
    ("C02", "EasyFEA.Simulations._thermal.Thermal.Construct_local_matrix_system"), ("C17", "EasyFEA.Simulations._phasefield.PhaseField.Solve"),
    ("C04", "EasyFEA.Simulations._simu._Simu.add_dirichlet"), ("C09", "EasyFEA.Simulations._simu._Simu.__Bc_evaluate"), ("C09", "EasyFEA.FEM._group_elem._GroupElem.Get_Elements_Nodes"),
    ("C07", "EasyFEA.FEM._group_elem._GroupElem.center"), ("C08", "EasyFEA.FEM._group_elem._GroupElem.Get_jacobian_e_pg"), ("C12", "EasyFEA.FEM._linalg._FeShape"),
    ("C13", "EasyFEA.FEM._field.Field.copy"), ("C14", "EasyFEA.Simulations._hyperelastic.HyperElastic.__Mass_e"), ("C16", "EasyFEA.Simulations._simu._Simu.Results_Reshape_values"),
    ("C18", "EasyFEA.Models.HyperElastic._state.HyperElasticState._Compute_Anisotropic_Invariants_First_Derivatives"), ("C18", "EasyFEA.Models.HyperElastic._state.HyperElasticState.Compute_dI2dC"), ("C18", "EasyFEA.Models.HyperElastic._state.HyperElasticState.Compute_d2I3dC"),
    ("C18", "EasyFEA.FEM.Operators.NonLinear.KelvinVoigtDamping"), ("C18", "EasyFEA.FEM.Operators.NonLinear.SecondPiolaKirchhoffStressTensor"), ("C18", "EasyFEA.FEM.Operators.NonLinear.GonzalezStressTensor"),
    ("C19", "EasyFEA.Simulations._inelastic.InElastic.Set_Iter"), ("C19", "EasyFEA.Models.InElastic._behavior.Behavior.__Plane_stress_strain"), ("C19", "EasyFEA.Models.InElastic._spectral.Solve"), ("C19", "EasyFEA.Models.InElastic._spectral._Phi"), ("C19", "EasyFEA.Models.InElastic._spectral.Tangent"),
    ("C19", "EasyFEA.Models.InElastic.Yield.Hill"), ("C19", "EasyFEA.Models.InElastic.Yield._dNormal_J2"), ("C19", "EasyFEA.Models.InElastic.ViscoPlastic.Norton"),
    ("C20", "EasyFEA.FEM._mesher.Mesher.__Get_dict_groupElems"), ("C10", "EasyFEA.Models.Beam._beam._Beam._Calc_P"), ("C03", "EasyFEA.FEM._boundary_conditions.BoundaryCondition.Get_dofs_nodes"),
    ("C09", "EasyFEA.Simulations._beam.Beam.add_lineLoad"), ("C11", "EasyFEA.Utilities._params._Parameter.__set__"),
    ("C14", "EasyFEA.Simulations._phasefield.PhaseField.Solve"), ("C14", "EasyFEA.Simulations._phasefield.PhaseField.Set_Iter"), ("C14", "EasyFEA.Simulations._phasefield.PhaseField.Get_K_C_M_F"),
    ("C15", "EasyFEA.Simulations._simu._Simu.Set_Iter"), ("C16", "EasyFEA.Models._utils.Result_strain_or_stress_field_e"), ("C16", "EasyFEA.Simulations._simu._Simu.Calc_Reaction"),
    ("C17", "EasyFEA.Models._phasefield.PhaseField.Get_f_e_pg"), ("C17", "EasyFEA.Simulations._phasefield.PhaseField.__Construct_Damage_Matrix"),
    ("C18", "EasyFEA.FEM.Operators.NonLinear.TimeQuadratureStressTensor"),
    ("C19", "EasyFEA.Models.InElastic._behavior.Behavior.__Residual"), ("C19", "EasyFEA.Models.InElastic._behavior.Behavior.__Jacobian"), ("C19", "EasyFEA.Models.InElastic._behavior.Behavior.__Condense"),
    ("C06", "EasyFEA.FEM._group_elem._GroupElem._Eval_Functions"), ("C06", "EasyFEA.FEM.Elems._tri.TRI6._N"), ("C06", "EasyFEA.FEM._group_elem._GroupElem.Get_dN_pg"),
]

# ---------------------------------------------------------------- third session: protocol model, forms, generic history rules
mut("C12", "align-pad-right", E + "FEM/_linalg.py", "op[(slice(None), slice(None)) + (None,) * (nt - rank)]", "op[(Ellipsis,) + (None,) * (nt - rank)]", "R12.7")
mut("C12", "wrap-one-axis", E + "FEM/_linalg.py", "elif res.ndim >= 2 and res.shape[:2] == feShape:", "elif res.ndim >= 2 and res.shape[:1] == feShape[:1]:", "R12.7")
mut("C12", "T-order-high-rank", E + "FEM/_linalg.py", "axes = tuple(range(2)) + tuple(range(n - 1, 1, -1))", "axes = tuple(range(2)) + (n - 1,) + tuple(range(2, n - 1))", "R12.7")
mut("C12", "rmatmul-dropped", E + "FEM/_linalg.py", "    def __rmatmul__(self, other) -> FeArrayALike:", "    def _unused_rmatmul(self, other) -> FeArrayALike:", "R12.7")
same("C12", "align-reshape", E + "FEM/_linalg.py", "        nt = max(ranks)\n        return tuple(", "        nt = max(ranks)\n        widest = nt\n        nt = widest\n        return tuple(")
mut("C13", "rsub-forward", E + "FEM/_field.py", "        return other - self()", "        return self() - other", "R13.8")
mut("C13", "symgrad-minus", E + "FEM/_field.py", "    return 0.5 * (grad.T + grad)", "    return 0.5 * (grad.T - grad)", "R13.8")
mut("C13", "grad-layout", E + "FEM/_field.py", "            newArray[..., :, dof] = array", "            newArray[..., dof, :] = array", "R13.8")
same("C13", "rsub-rewrite", E + "FEM/_field.py", "        return other - self()", "        return -(self() - other)")
mut("C04", "newton-per-entry", E + "Simulations/_simu.py", "            dofsValues[first] -= u[dofs[first]]", "            dofsValues -= u[dofs]", "R4.6")
mut("C04", "bounds-not-reduced", E + "Simulations/Solvers.py", "        lb, ub = lb[dofsUnknown], ub[dofsUnknown]", "        lb, ub = lb, ub", "R4.1")
same("C04", "bounds-size-test", E + "Simulations/Solvers.py", "    if len(lb) > 0:", "    if len(lb) != 0:")
mut("C08", "inverse-map-residual", E + "FEM/_group_elem.py", "                        J = N[0, 0] @ coordElemBase[:, :dim] - xP  # cost function", "                        J = N[0, 0] @ coordElemBase[:, :dim] + xP  # cost function", "R8.8")
mut("C08", "rotate-transposed", E + "Geoms/_utils.py", 'np.einsum("ij,nj->ni", rotMat, oldCoord - center, optimize="optimal") + center', 'np.einsum("ji,nj->ni", rotMat, oldCoord - center, optimize="optimal") + center', "R8.13")
mut("C08", "rotate-no-radians", E + "Geoms/_utils.py", "    theta *= np.pi / 180\n", "    theta *= np.pi / 360\n", "R8.13")
mut("C08", "rotate-centre-not-restored", E + "Geoms/_utils.py", 'np.einsum("ij,nj->ni", rotMat, oldCoord - center, optimize="optimal") + center', 'np.einsum("ij,nj->ni", rotMat, oldCoord - center, optimize="optimal")', "R8.13")
same("C08", "rotate-matmul-form", E + "Geoms/_utils.py", 'np.einsum("ij,nj->ni", rotMat, oldCoord - center, optimize="optimal") + center', '(oldCoord - center) @ rotMat.T + center')
same("C08", "inverse-map-two-steps", E + "FEM/_group_elem.py", "                        J = N[0, 0] @ coordElemBase[:, :dim] - xP  # cost function", "                        x_of_xi = N[0, 0] @ coordElemBase[:, :dim]\n                        J = x_of_xi - xP  # cost function")
mut("C09", "lineload-frame-transposed", E + "Simulations/_beam.py", "                P_e[:, row % 3, :],", "                P_e[:, :, row % 3],", "R9.7")
mut("C14", "new-mesh-not-observed", E + "Simulations/_simu.py", "            # the simulation looks for modifications of the new mesh too\n            mesh._Add_observer(self)\n", "", "R14.17")
mut("C14", "dirichlet-no-resize", E + "Simulations/_simu.py", "        if len(self.__Bc_Lagrange) > 0:\n            # with Lagrange multipliers the size of the matrix system follows the Dirichlet dofs\n            self.Need_Update()\n", "", "R14.3b")
same("C14", "getKCMF-locals", E + "Simulations/_simu.py", "        return self.__K.copy(), self.__C.copy(), self.__M.copy(), self.__F.copy()", "        K = self.__K.copy()\n        C, M, F = self.__C.copy(), self.__M.copy(), self.__F.copy()\n        return K, C, M, F")
same("C14", "coord-setter-validation", E + "FEM/_group_elem.py", "        self.__coord = np.asarray(coord[self.nodes], dtype=float)\n        self._InitMatrix()", "        if not isinstance(coord, np.ndarray):\n            raise TypeError(\"coord must be an array\")\n        self.__coord = np.asarray(coord[self.nodes], dtype=float)\n        self._InitMatrix()")
mut("C10", "yaxis-not-unit", E + "Models/Beam/_beam.py", "            yAxis = Normalize(np.cross(zAxis, xAxis))", "            yAxis = np.cross(zAxis, xAxis) * 2", "R10.8")
same("C10", "yaxis-two-steps", E + "Models/Beam/_beam.py", "            zAxis = Normalize(np.cross(xAxis, yAxis))", "            zAxis = np.cross(xAxis, yAxis)\n            zAxis = Normalize(zAxis)")
mut("C15", "load-mesh-swapped-kw", E + "FEM/_mesh.py", "            elements=elements, nodes=nodes, rank=rank, ghostElements=ghostElements", "            elements=nodes, nodes=elements, rank=rank, ghostElements=ghostElements", "R15.5")
same("C15", "load-mesh-unpack", E + "FEM/_mesh.py", "        connect, coordinates = data[0]\n", "        (connect, coordinates), _part, _tags = data\n")
mut("C11", "axis-guard-one-sided", E + "Models/Elastic/_laws.py", '        assert abs(axis_l @ axis_t) <= 1e-12, "axis1 and axis2 must be perpendicular"', '        assert axis_l @ axis_t <= 1e-12, "axis1 and axis2 must be perpendicular"', "R11.7")
mut("C11", "axis-guard-before-normalising", E + "Models/Elastic/_laws.py", "        axis_1 = Normalize(AsCoords(axis_1))\n        axis_2 = Normalize(AsCoords(axis_2))\n", "        axis_1 = AsCoords(axis_1)\n        axis_2 = AsCoords(axis_2)\n", "R11.7")
same("C11", "axis-guard-two-comparisons", E + "Models/Elastic/_laws.py", '        assert abs(axis1 @ axis2) <= 1e-12, "axis1 and axis2 must be perpendicular"', '        assert -1e-12 <= axis1 @ axis2 <= 1e-12, "axis1 and axis2 must be perpendicular"')
same("C11", "axis-normalised-at-store", E + "Models/Elastic/_laws.py", "        self.__axis_l = axis_l\n        self.__axis_t = axis_t\n", "        self.__axis_l = Normalize(axis_l)\n        self.__axis_t = Normalize(axis_t)\n")
mut("C08", "candidates-closest-node-only", E + "FEM/_group_elem.py", "        unique_elements = np.unique(np.concatenate((all_elements, inSphere)))", "        unique_elements = np.unique(all_elements)", "R8.14")
mut("C08", "candidates-half-radius", E + "FEM/_group_elem.py", "        radius_e *= 1 + 1e-6\n", "        radius_e *= 0.5\n", "R8.14")
same("C08", "candidates-wider-margin", E + "FEM/_group_elem.py", "        radius_e *= 1 + 1e-6\n", "        radius_e *= 1 + 1e-3\n")
mut("C12", "transpose-ignores-field-rank", E + "FEM/_linalg.py", "    if isinstance(mat, FeArray) and mat._ndim < 2:\n", "    if False:\n", "R12.9")
same("C12", "transpose-rank-via-T", E + "FEM/_linalg.py", "    if isinstance(mat, FeArray) and mat._ndim < 2:\n        # the (Ne, nPg) axes are not tensor axes: a scalar or vector field is its own transpose (as with .T)\n        return mat\n", "    if isinstance(mat, FeArray) and mat._ndim < 2:\n        return mat.T\n")
mut("C13", "linear-form-vector-values-only", E + "FEM/_forms.py", "            data[:, i, 0] = np.reshape(values_e, -1)", "            data[:, i] = values_e", "R13.8")
mut("C13", "bilinear-form-scalar-values-only", E + "FEM/_forms.py", "                data[:, i, j] = np.reshape(values_e, -1)", "                data[:, i, j] = values_e", "R13.8")
mut("C02", "thermal-capacity-no-thickness", E + "Simulations/_thermal.py", "                K_e *= thickness\n                C_e *= thickness\n", "                K_e *= thickness\n", "R2.10")
mut("C02", "phasefield-source-no-thickness", E + "Simulations/_phasefield.py", "                K_e *= thickness\n                F_e *= thickness\n", "                K_e *= thickness\n", "R2.10")
mut("C02", "inelastic-force-no-thickness", E + "Simulations/_inelastic.py", "            F_e = -thickness * Operators.Linear.InternalForce(", "            F_e = -1.0 * Operators.Linear.InternalForce(", "R2.10")
mut("C02", "weakform-mass-no-thickness", E + "Simulations/_weakforms.py", "            M_e = computeM.Integrate_e(field) * thickness", "            M_e = computeM.Integrate_e(field)", "R2.10")
mut("C02", "elastic-thickness-twice-in-damping", E + "Simulations/_elastic.py", "            C_e = self.__coefK * K_e + self.__coefM * M_e\n", "            C_e = (self.__coefK * K_e + self.__coefM * M_e) * self.material.thickness\n", "R2.10")
same("C02", "elastic-thickness-at-construction", E + "Simulations/_elastic.py", "            if self.dim == 2:\n                thickness = self.material.thickness\n                K_e *= thickness\n                M_e *= thickness\n", "            thickness = self.material.thickness if self.dim == 2 else 1.0\n            K_e = thickness * K_e\n            M_e = M_e * thickness\n")
mut("C03", "complex-imaginary-part-dropped", E + "Simulations/_simu.py", "            ) + 1j * np.bincount(inv, weights=data.imag, minlength=nnz)\n", "            )\n", "R3.9")
mut("C03", "complex-parts-swapped", E + "Simulations/_simu.py", "                inv, weights=data.real, minlength=nnz\n            ) + 1j * np.bincount(inv, weights=data.imag, minlength=nnz)", "                inv, weights=data.imag, minlength=nnz\n            ) + 1j * np.bincount(inv, weights=data.real, minlength=nnz)", "R3.9")
mut("C13", "complex-form-kept-real", E + "FEM/_forms.py", "                if np.iscomplexobj(values_e) and not np.iscomplexobj(data):\n                    data = data.astype(complex)  # a complex form keeps its imaginary part\n", "", "R13.8")
mut("C08", "image-path-any-order", E + "FEM/_group_elem.py", "            coordinatesInImage = np.array_equal(\n                coordinates_n[:, 0], pixels % nX\n            ) and np.array_equal(coordinates_n[:, 1], pixels // nX)\n", "            coordinatesInImage = True\n", "R8.16")
mut("C08", "image-path-far-bound", E + "FEM/_group_elem.py", "                np.floor(coordElem[:, 0].max()) + 1,", "                np.ceil(coordElem[:, 0].max()),", "R8.16")
mut("C17", "eigen-double-halves", E + "Models/_phasefield.py", "                M3[case2] = line_in_plane(eye3 - M1_c2)\n", "                M3[case2] = 0.5 * (eye3 - M1_c2)\n", "R17.12")
mut("C17", "eigen-case2-wrong-root", E + "Models/_phasefield.py", "                eps2 = val2_e_pg[case2][:, None, None]\n", "                eps2 = val1_e_pg[case2][:, None, None]\n", "R17.12")
mut("C17", "eigen-case3-values", E + "Models/_phasefield.py", "                val3_e_pg[case3] += 2 / 3 * sg\n", "                val3_e_pg[case3] += 1 / 3 * sg\n", "R17.12")
mut("C17", "theta-limit-dropped", E + "Models/_phasefield.py", "                eq23, dvalp[..., 1] / 2, (valp[..., 1] - valp[..., 2]) / (2 * v2_m_v3)", "                eq23, 0.0 * dvalp[..., 1], (valp[..., 1] - valp[..., 2]) / (2 * v2_m_v3)", "R17.13")
mut("C17", "projp-diagonal-weight", E + "Models/_phasefield.py", "        dvalp = np.heaviside(val_e_pg, 0.5)\n", "        dvalp = np.heaviside(val_e_pg, 1.0)\n", "R17.13")
same("C17", "eigen-plane-direction-other-axis", E + "Models/_phasefield.py", "            k = np.argmax(np.linalg.norm(P, axis=-2), axis=-1)\n", "            k = np.argmax(np.linalg.norm(P, axis=-1), axis=-1)\n")
mut("C17", "arccos-unclipped", E + "Models/_phasefield.py", "            np.clip(arg, -1.0, 1.0, out=arg)\n", "", "R17.14")
same("C17", "arccos-clip-inline", E + "Models/_phasefield.py", "            np.clip(arg, -1.0, 1.0, out=arg)\n\n            # Lode's angle such that 0 <= theta <= pi/3\n            theta = 1 / 3 * np.arccos(arg)", "            # Lode's angle such that 0 <= theta <= pi/3\n            theta = 1 / 3 * np.arccos(np.clip(arg, -1.0, 1.0))")
mut("C11", "integer-parameters-kept", E + "Utilities/_params.py", "        if isinstance(value, np.ndarray) and value.dtype.kind in \"iu\":\n", "        if False:\n", "R11.10")
mut("C11", "ti-dtype-from-kt-only", E + "Models/Elastic/_laws.py", "        sum = El + Et + Gl + vl + vt\n        dtype = object if isinstance(sum, np.ndarray) else float", "        dtype = object if isinstance(kt, np.ndarray) else float", "R11.11")
same("C11", "ti-dtype-any-parameter", E + "Models/Elastic/_laws.py", "        sum = El + Et + Gl + vl + vt\n        dtype = object if isinstance(sum, np.ndarray) else float", "        dtype = object if any(isinstance(p, np.ndarray) for p in (El, Et, Gl, vl, vt)) else float")
mut("C09", "phasefield-volume-load-default", E + "Simulations/_phasefield.py", "    def add_volumeLoad(\n        self,\n        nodes: _types.IntArray,\n        values: list,\n        unknowns: list[str],\n        problemType=ProblemTypes.elastic,", "    def add_volumeLoad(\n        self,\n        nodes: _types.IntArray,\n        values: list,\n        unknowns: list[str],\n        problemType=None,", "R9.14")
mut("C15", "weakforms-velocity-unchecked", E + "Simulations/_weakforms.py", '            a = results["a"] if "a" in results else np.zeros_like(u)', '            a = results.get("a")', "R15.14")
mut("C05", "scheme-stored-before-validation", E + "Simulations/_simu.py", "        assert dt > 0, \"Time increment must be > 0\"\n\n        # nothing is stored before the arguments are accepted\n        self.__algo = AlgoType.parabolic\n", "        self.__algo = AlgoType.parabolic\n        assert dt > 0, \"Time increment must be > 0\"\n", "R5.13")
mut("C08", "projector-every-detection", E + "FEM/_mesh.py", "        np.asarray(nodes, dtype=int)[owner_n[np.asarray(nodes, dtype=int)] == element]\n", "        np.asarray(nodes, dtype=int)\n", "R8.17")
mut("C18", "op-no-geometric-tangent", E + "FEM/Operators/NonLinear.py", "    return A_lin + A_geo, residual_e", "    return A_lin, residual_e", "R18.12")
mut("C18", "op-reorder-transposes", E + "FEM/Operators/NonLinear.py", "            reordered[i] = array[:, ri, rj]", "            reordered[i] = array[:, rj, ri]", "R18.12")
mut("C18", "op-kv-tangent-swapped", E + "FEM/Operators/NonLinear.py", "    A_mat = material.eta * einsum(subscripts, wJ_e_pg, B_e_pg, Beta_e_pg)", "    A_mat = material.eta * einsum(subscripts, wJ_e_pg, Beta_e_pg, B_e_pg)", "R18.12")
mut("C18", "op-gonzalez-half", E + "FEM/Operators/NonLinear.py", "        g = inv_dEdE * (B_np1.T @ s_np1 - 0.5 * (B_mid.T @ v) - B_np1.T @ s_mid) - (", "        g = inv_dEdE * (B_np1.T @ s_np1 - (B_mid.T @ v) - B_np1.T @ s_mid) - (", "R18.12")
mut("C18", "op-gonzalez-alpha-sign", E + "FEM/Operators/NonLinear.py", "    S_hat = s_mid + alpha * dE  # scalar-field", "    S_hat = s_mid - alpha * dE  # scalar-field", "R18.12")
mut("C18", "op-tq-pairs-Bt-with-itself", E + "FEM/Operators/NonLinear.py", '        "ep,epji,epjk,epkl->eil", wJ_e_pg, B_t, d2Wde_quad, B_np1\n', '        "ep,epji,epjk,epkl->eil", wJ_e_pg, B_t, d2Wde_quad, B_t\n', "R18.12")
mut("C18", "op-pressure-tangent-sign", E + "FEM/Operators/NonLinear.py", "    K_e[active] = -K_active", "    K_e[active] = K_active", "R18.13")
mut("C18", "op-pressure-swapped-tangents", E + "FEM/Operators/NonLinear.py", "    n_e_pg = np.cross(dxdr_e_pg, dxds_e_pg)  # area-weighted deformed normal", "    n_e_pg = np.cross(dxds_e_pg, dxdr_e_pg)  # area-weighted deformed normal", "R18.13")
mut("C18", "op-contact-elementwise-active-set", E + "FEM/Operators/NonLinear.py", "    H_e_pg = (gap_e_pg < 0).astype(float)  # active-set indicator", "    inContact_e = np.asarray(pen_e_pg).max(axis=1) > 0\n    H_e_pg = np.zeros(pen_e_pg.shape)\n    H_e_pg[inContact_e] = 1.0  # active-set indicator", "R18.13")
mut("C18", "op-gradient-column", E + "FEM/_group_elem.py", '            if dim > 1:\n                grad_e_pg[:, p, :dim, 1] = np.einsum(\n                    "en,end->ed",\n                    dyN_e_pg[:, p],', '            if dim > 1:\n                grad_e_pg[:, p, :dim, 1] = np.einsum(\n                    "en,end->ed",\n                    dxN_e_pg[:, p],', "R18.12")
same("C18", "op-sum-order", E + "FEM/Operators/NonLinear.py", "    return A_lin + A_geo, residual_e", "    return A_geo + A_lin, residual_e")
same("C18", "op-residual-two-steps", E + "FEM/Operators/NonLinear.py", '    residual_e = einsum("ep,epi,epij->ej", wJ_e_pg, dWde_e_pg, B_e_pg)\n    return A_lin + A_geo, residual_e', '    wS = einsum("ep,epi->epi", wJ_e_pg, dWde_e_pg)\n    residual_e = einsum("epi,epij->ej", wS, B_e_pg)\n    return A_lin + A_geo, residual_e')
mut("C18", "build-de-entry", E + "Models/HyperElastic/_state.py", "Add(3, [0, g02, g01, 0, g12, g11, 0, g22, g21], cM)", "Add(3, [0, g01, g02, 0, g12, g11, 0, g22, g21], cM)", "R18.11")
mut("C18", "green-lagrange-half", E + "Models/HyperElastic/_state.py", "        E_e_pg = 1 / 2 * (C_e_pg - np.eye(3))", "        E_e_pg = (C_e_pg - np.eye(3))", "R18.11")
same("C18", "build-de-reorder", E + "Models/HyperElastic/_state.py", "            Add(0, [g00, 0, g10, 0])  # xx\n            Add(1, [0, g01, 0, g11])  # yy\n", "            Add(1, [0, g01, 0, g11])  # yy\n            Add(0, [g00, 0, g10, 0])  # xx\n")
mut("C19", "jacobian-increment", E + "Models/InElastic/_behavior.py", "                J_e_pg[..., Bi, nz] = -(N_e_pg - component.recall * z_e_pg[..., Bi])", "                J_e_pg[..., Bi, nz] = -(N_e_pg - component.recall * u_e_pg[..., Bi])", "__Jacobian")
same("C19", "jacobian-rewrite", E + "Models/InElastic/_behavior.py", "                J_e_pg[..., Bi, nz] = -(N_e_pg - component.recall * z_e_pg[..., Bi])", "                J_e_pg[..., Bi, nz] = component.recall * z_e_pg[..., Bi] - N_e_pg")
mut("C17", "trace-selector-swapped", E + "Models/_phasefield.py", "        Rp_e_pg = (1 + np.sign(trace)) / 2\n        Rm_e_pg = (1 + np.sign(-trace)) / 2", "        Rp_e_pg = (1 + np.sign(-trace)) / 2\n        Rm_e_pg = (1 + np.sign(trace)) / 2", "R17.8")

mut("C03", "csr-data-order", E + "Simulations/_simu.py", "data = np.concatenate([dict_group_data[g].ravel() for g in groups])", "data = np.concatenate([dict_group_data[g].ravel() for g in reversed(groups)])", "R3.9")
mut("C03", "csr-minlength", E + "Simulations/_simu.py", "            csr_data = np.bincount(inv, weights=data, minlength=nnz)\n", "            csr_data = np.bincount(inv[:-1], weights=data[:-1], minlength=nnz)\n", "R3.9")


def rename_locals_edit(repo_root, qualname):
    """(file, old_text, new_text) renaming every local variable of the function (parameters kept)"""
    import ast

    sys.path.insert(0, HERE)
    from sa.repo import Repo

    repo = rename_locals_edit._repo.get(repo_root)
    if repo is None:
        repo = rename_locals_edit._repo[repo_root] = Repo(repo_root)
    f = repo.functions.get(qualname)
    if f is None:
        return None
    node = f.node
    params = {a.arg for a in node.args.posonlyargs + node.args.args + node.args.kwonlyargs}
    if node.args.vararg:
        params.add(node.args.vararg.arg)
    if node.args.kwarg:
        params.add(node.args.kwarg.arg)
    assigned = set()
    for n in ast.walk(node):
        if isinstance(n, ast.Name) and isinstance(n.ctx, ast.Store):
            assigned.add(n.id)
        elif isinstance(n, (ast.FunctionDef, ast.Lambda)) and n is not node:
            a = n.args
            params |= {x.arg for x in a.posonlyargs + a.args + a.kwonlyargs}
        elif isinstance(n, ast.FunctionDef) and n is not node:
            assigned.discard(n.name)
    # nested function names are defined with FunctionDef, not Name: keep them
    glob = {n.id for n in ast.walk(node) if isinstance(n, (ast.Global, ast.Nonlocal)) for n.id in getattr(n, "names", [])} if False else set()
    targets = {x for x in assigned if x not in params and not x.startswith("__") and x != "_"}
    import copy

    new = copy.deepcopy(node)
    for n in ast.walk(new):
        if isinstance(n, ast.Name) and n.id in targets:
            n.id = n.id + "_rn"
    lines = f.module.source.splitlines(keepends=True)
    start = min([node.lineno] + [d.lineno for d in node.decorator_list]) - 1
    end = node.end_lineno
    old = "".join(lines[start:end])
    indent = " " * node.col_offset
    body = ast.unparse(new)
    new_text = "".join(indent + ln + "\n" if ln else "\n" for ln in body.split("\n"))
    return f.file, old, new_text, len(targets)


rename_locals_edit._repo = {}


def seeded_edits(props):
    """the sub-agent seeded changes kept under /verif/seeded: each is a breaking edit for the properties recorded in
    its meta.json under "detected_by" (the matrix is re-established by tools/seed_matrix.py)"""
    out = []
    sd = os.path.join(HERE, "seeded")
    if not os.path.isdir(sd):
        return out
    for d in sorted(os.listdir(sd)):
        mp = os.path.join(sd, d, "meta.json")
        pp = os.path.join(sd, d, "patch.diff")
        if not (os.path.exists(mp) and os.path.exists(pp)):
            continue
        try:
            meta = json.load(open(mp))
        except Exception:
            continue
        for pr in meta.get("detected_by", []):
            if props is None or pr in props:
                out.append(dict(prop=pr, id=f"seeded:{d}", patch=pp, file="?", old="", new="", expect=None))
    return out

# ---------------------------------------------------------------- session 5: rules whose expected count on a healthy tree is zero
for _prop, _rid in (("C18", "R18.21"), ("C14", "R14.31"), ("C08", "R8.24")):
    mut(_prop, "foreign-state-on-group", E + "FEM/Operators/Linear.py", "    Ne, nPg = vec_e_pg.shape[:2]\n    f = FeArray.broadcast(f, Ne, nPg)\n", "    Ne, nPg = vec_e_pg.shape[:2]\n    groupElem._last_source = f\n    f = FeArray.broadcast(f, Ne, nPg)\n", _rid)

mut("C20", "gmsh-session-kept", E + "FEM/_mesher.py", "        list_dict_groupElem = self.__Get_dict_groupElems(Nproc, coef)\n\n        gmsh.finalize()\n", "        list_dict_groupElem = self.__Get_dict_groupElems(Nproc, coef)\n\n        gmsh.clear()\n", "R20.14")
# ---------------------------------------------------------------- round 6: behaviour-preserving rewrites of what the new interpretive rules read
same("C03", "r6-buffer-fill-correct-offsets", E + "Simulations/_simu.py", "        data = np.concatenate([dict_group_data[g].ravel() for g in groups])\n",
     "        list_X_e = [np.asarray(dict_group_data[g]) for g in groups]\n        sizes = [X_e.size for X_e in list_X_e]\n        starts = [sum(sizes[:k]) for k in range(len(sizes))]\n        data = np.empty(sum(sizes), dtype=np.result_type(*list_X_e))\n        for X_e, start in zip(list_X_e, starts):\n            data[start : start + X_e.size] = X_e.ravel()\n")
same("C03", "r6-blockwise-lookup-ceil", E + "Simulations/_simu.py", "        inv = np.searchsorted(canon, rows.astype(np.int64) * ncol + cols).astype(\n            np.int32\n        )\n",
     "        block = 1 << 22\n        inv = np.zeros(rows.size, dtype=np.int32)\n        for b in range(-(-rows.size // block)):\n            s = slice(b * block, min((b + 1) * block, rows.size))\n            inv[s] = np.searchsorted(canon, rows[s].astype(np.int64) * ncol + cols[s])\n")
same("C05", "r6-rhs-rebinding", E + "Simulations/_simu.py", "        b += F\n\n        if self.isNonLinear:", "        b = b + F\n\n        if self.isNonLinear:")
same("C13", "r6-rhs-rebinding", E + "Simulations/_simu.py", "        b += F\n\n        if self.isNonLinear:", "        b = F + b\n\n        if self.isNonLinear:")
same("C10", "r6-beam-N-dim-set", E + "FEM/Elems/_beam.py", "        N_e_pg = FeArray.asfearray(N_e_pg)\n\n        if dim > 1:\n", "        N_e_pg = FeArray.asfearray(N_e_pg)\n\n        if dim in (2, 3):\n")
same("C16", "r6-shear-op-local-name", E + "FEM/Elems/_beam.py", "        Pglob_e_pg = self._Compute_P_e_pg(beamStructure=beamStructure)\n        B_shear = B_shear @ Pglob_e_pg\n\n        return B_shear\n", "        P = self._Compute_P_e_pg(beamStructure)\n        return B_shear @ P\n")
same("C10", "r6-active-stress-direct-kelvin", E + "Models/HyperElastic/_laws.py", "        self.__TxT = Project_matrix_to_vector(TensorProd(T_hat, T_hat))  # (Ne, nPg, 6)\n",
     "        Tx, Ty, Tz = np.moveaxis(np.asarray(T_hat), -1, 0)\n        c = np.sqrt(2)\n        self.__TxT = FeArray.asfearray(np.stack([Tx * Tx, Ty * Ty, Tz * Tz, c * Ty * Tz, c * Tx * Tz, c * Tx * Ty], axis=-1))\n")
same("C11", "r6-admissible-squared-form", E + "Models/Elastic/_laws.py", "        assert np.all(np.abs(v23) < np.sqrt(E2 / E3)), \"|v23| < sqrt(E2 / E3)\"\n", "        assert np.all(v23**2 < E2 / E3), \"v23^2 < E2 / E3\"\n")
same("C12", "r6-transpose-np-transpose", E + "FEM/_linalg.py", "            return FeArray.asfearray(np.asarray(self).transpose(axes))\n", "            return FeArray.asfearray(np.transpose(np.asarray(self), axes))\n")
same("C12", "r6-rsub-negated-sub", E + "FEM/_field.py", "        return other - self()\n", "        return -(self() - other)\n")
same("C13", "r6-rtruediv-local", E + "FEM/_field.py", "        return other / self()\n", "        value = self()\n        return other / value\n")
same("C14", "r6-model-event-flags-inline", E + "Simulations/_phasefield.py", "        if isinstance(observable, _IModel):\n            self.Need_Update()\n        elif isinstance(observable, Mesh):\n            self._Check_dim_mesh_material()\n            self.Need_Update()\n",
     "        if isinstance(observable, _IModel):\n            self.__updatedDamage = False\n            self.__updatedDisplacement = False\n        elif isinstance(observable, Mesh):\n            self._Check_dim_mesh_material()\n            self.Need_Update()\n")
same("C15", "r6-save-folder-first", E + "Simulations/_simu.py", "        path_simu = Folder.Join(folder, f\"{filename}{suffix}.pickle\", mkdir=True)\n\n        # The folder setter handles flushing any pending in-memory iteration\n        # dicts to disk when transitioning from `folder == \"\"` to set.\n        self.folder = folder\n",
     "        self.folder = folder\n        path_simu = Folder.Join(folder, f\"{filename}{suffix}.pickle\", mkdir=True)\n")
same("C16", "r6-hooke-repeat", E + "Models/Elastic/_laws.py", "            C_e_pg = FeArray.broadcast(C, Ne, nPg, tensor_ndim=2)\n        else:\n            C_e_pg = FeArray.asfearray(C, True)\n\n        return C_e_pg @ Epsilon_e_pg\n",
     "            if C.ndim == 3:\n                C = np.repeat(C[:, None], nPg, axis=1)\n            C_e_pg = FeArray.asfearray(C)\n        else:\n            C_e_pg = FeArray.asfearray(C, True)\n\n        return C_e_pg @ Epsilon_e_pg\n")
same("C17", "r6-history-np-maximum", E + "Simulations/_phasefield.py", "            inc_H = psiP_e_pg - old_psiPlus_e_pg\n\n            elements, gaussPoints = np.where(inc_H < 0)\n\n            psiP_e_pg[elements, gaussPoints] = old_psiPlus_e_pg[elements, gaussPoints]\n",
     "            psiP_e_pg = np.maximum(psiP_e_pg, old_psiPlus_e_pg)\n")
same("C15", "r6-history-get-default", E + "Simulations/_phasefield.py", "            old_psiPlus_e_pg = self.__old_psiP_e_pg.get(groupElem)\n", "            old_psiPlus_e_pg = self.__old_psiP_e_pg.get(groupElem, None)\n")
same("C17", "r6-bounds-take", E + "Simulations/Solvers.py", "        lb, ub = lb[dofsUnknown], ub[dofsUnknown]\n", "        lb = lb[dofsUnknown]\n        ub = ub[dofsUnknown]\n")
same("C18", "r6-strain-path-convex", E + "FEM/Operators/NonLinear.py", "        C_n = state_n.Compute_C()\n        self.__C_e_pg = C_n + s * (state_np1.Compute_C() - C_n)\n", "        self.__C_e_pg = (1 - s) * state_n.Compute_C() + s * state_np1.Compute_C()\n")
same("C19", "r6-spectral-keyword", E + "Models/InElastic/_behavior.py", "            self.__hardening,\n            self.__yield.scale,\n            self.__rate,\n            dt,\n            self._tol,\n            self._maxIter,\n        )\n", "            self.__hardening,\n            sigma_y=self.__yield.scale,\n            rate=self.__rate,\n            dt=dt,\n            tol=self._tol,\n            maxIter=self._maxIter,\n        )\n")
same("C19", "r6-reducible-len", E + "Models/InElastic/_behavior.py", "            and not self.__kinematic\n            and not self.__branches\n", "            and len(self.__branches) == 0\n            and len(self.__kinematic) == 0\n")
same("C20", "r6-ghost-np-any", E + "FEM/_mesher.py", "                mask = np.isin(other_connect, owned_arr).any(axis=1)\n", "                mask = np.any(np.isin(other_connect, owned_arr), axis=1)\n")
same("C20", "r6-merge-tree-all-columns", E + "FEM/_mesh.py", "            pairs: _types.IntArray = cKDTree(all_coords).query_pairs(\n", "            pairs: _types.IntArray = cKDTree(all_coords[:, :3]).query_pairs(\n")

same("C20", "r6-claim-difference-method", E + "FEM/_mesher.py", "            nodes = set(connect_r.ravel()) - otherRankNodes\n", "            nodes = set(connect_r.ravel()).difference(otherRankNodes)\n")
same("C20", "r6-other-rank-nodes-loop", E + "FEM/_mesher.py", "            otherRankNodes = set().union(\n                *(dict_rank_nodes[r] for r in range(Nproc) if r != rank)\n            )\n", "            otherRankNodes = set()\n            for r in range(Nproc):\n                if r != rank:\n                    otherRankNodes |= dict_rank_nodes[r]\n")
same("C20", "r6-rows-sorted-set", E + "FEM/_mesher.py", "            all_idx = np.unique(\n                np.concatenate([idx_r, np.array(list(ghost_idx), dtype=int)])\n            )\n", "            all_idx = np.array(sorted(set(idx_r.tolist()) | ghost_idx), dtype=int)\n")

same("C20", "r6-merge-offsets-cumsum-minus", E + "FEM/_mesh.py", "        offsets = np.concatenate(([0], np.cumsum(sizes[:-1])))\n", "        offsets = np.cumsum(sizes) - sizes\n")
same("C20", "r6-merge-mapping-loop", E + "FEM/_mesh.py", "            mapping = [old_to_new[off : off + s] for off, s in zip(offsets, sizes)]\n", "            mapping = []\n            for k in range(len(list_mesh)):\n                mapping.append(old_to_new[offsets[k] : offsets[k] + sizes[k]])\n")

same("C20", "r6-energy-local-names", E + "Simulations/_simu.py", "        return Reduce_sum(0.5 * x[dofs] @ (A[dofs][:, : x.size] @ x))\n", "        x_d = x[dofs]\n        Ax_d = A[dofs][:, : x.size] @ x\n        energy = 0.5 * (x_d @ Ax_d)\n        return Reduce_sum(energy)\n")
same("C20", "r6-owned-nodes-unpack", E + "FEM/_mesh.py", "            return list_groupElem[0]._Get_partitioned_data()[3]\n", "            _, _, _, nodes, _ = list_groupElem[0]._Get_partitioned_data()\n            return nodes\n")
mut("C20", "r6-energy-all-rows-of-x", E + "Simulations/_simu.py", "        return Reduce_sum(0.5 * x[dofs] @ (A[dofs][:, : x.size] @ x))\n", "        return Reduce_sum(0.5 * x @ (A[:, : x.size] @ x))\n", "Calc_Energy")
mut("C20", "r6-reaction-mass-missing", E + "Simulations/_simu.py", "            reaction[dofs] += M[dofs][:, :Ndof] @ self._Get_a_n(problemType)\n", "            reaction[dofs] += M[dofs][:, :Ndof] @ self._Get_v_n(problemType)\n", "Calc_Reaction")
mut("C20", "r6-owned-nodes-ghost-slot", E + "FEM/_mesh.py", "            return list_groupElem[0]._Get_partitioned_data()[3]\n", "            return list_groupElem[0]._Get_partitioned_data()[4]\n", "_Get_mpi_owned_nodes")

mut("C16", "r6-energy-default-mass-scheme", E + "Simulations/_elastic.py", "        smoothedStress=False,\n        matrixType=MatrixType.rigi,\n    ):", "        smoothedStress=False,\n        matrixType=MatrixType.mass,\n    ):", "_Calc_Psi_Elas")
mut("C16", "r6-energy-thickness-3d-test", E + "Simulations/_elastic.py", "        thickness = self.material.thickness if self.dim == 2 else 1\n\n        # strain and elastic energy density", "        thickness = self.material.thickness if self.dim == 3 else 1\n\n        # strain and elastic energy density", "_Calc_Psi_Elas")
mut("C16", "r6-energy-psi-factor", E + "Models/Elastic/_laws.py", "        return 1 / 2 * (Sigma_e_pg @ Epsilon_e_pg)\n", "        return Sigma_e_pg @ Epsilon_e_pg\n", "_Calc_Psi_Elas")
same("C16", "r6-energy-rename-thickness", E + "Simulations/_elastic.py", "        thickness = self.material.thickness if self.dim == 2 else 1\n\n        # strain and elastic energy density", "        mat = self.material\n        thickness = mat.thickness if self.dim == 2 else 1.0\n\n        # strain and elastic energy density")
same("C16", "r6-stiffness-local-law", E + "Simulations/_elastic.py", "            K_e = Operators.Bilinear.LinearizedElasticity(groupElem, self.material.C)\n", "            law = self.material\n            K_e = Operators.Bilinear.LinearizedElasticity(groupElem, law.C)\n")

same("C17", "r6-projM-negated-difference", E + "Models/_phasefield.py", "            projM = np.eye(3) - projP\n", "            projM = -(projP - np.eye(3))\n")
same("C17", "r6-M2-sum-form", E + "Models/_phasefield.py", "            M2 = I_e_pg - M1\n\n            tic.Tac(\"Split\", \"Eigenprojectors\", False)", "            M2 = -M1 + I_e_pg\n\n            tic.Tac(\"Split\", \"Eigenprojectors\", False)")

same("C17", "r6-sqrt-clamp-mask-store", E + "Models/_phasefield.py", "            delta = np.maximum(delta, 0.0)\n", "            delta[delta < 0.0] = 0.0\n")
same("C17", "r6-sqrt-clamp-where", E + "Models/_phasefield.py", "            delta = np.maximum(delta, 0.0)\n", "            delta = np.where(delta > 0.0, delta, 0.0)\n")
same("C17", "r6-arccos-minmax", E + "Models/_phasefield.py", "            np.clip(arg, -1.0, 1.0, out=arg)\n", "            arg = np.minimum(1.0, np.maximum(-1.0, arg))\n")

same("C19", "r6-convergence-local-magnitude", E + "Models/InElastic/_behavior.py", "            if it > 0 and np.max(np.abs(r_e_pg)) < tol:\n", "            err_e_pg = np.abs(r_e_pg)\n            if it > 0 and err_e_pg.max() < tol:\n")
same("C19", "r6-convergence-two-sided-chain", E + "Models/InElastic/_materialpoint.py", "                if np.max(np.abs(r)) < self._tol:\n", "                if -self._tol < np.min(r) and np.max(r) < self._tol:\n")

# ---------------------------------------------------------------- round 7 repairs: the rules that decided them
mut("C19", "r7-jacobian-branch-sign", E + "Models/InElastic/_behavior.py", "                J_e_pg[..., P, slot] = branch.g * dG_e_pg * dNdSig_C\n", "                J_e_pg[..., P, slot] = -branch.g * dG_e_pg * dNdSig_C\n", "__Jacobian")
mut("C19", "r7-jacobian-D-viscous-sign", E + "Models/InElastic/_behavior.py", "            D_e_pg[..., slot, :] = -theta * I6\n", "            D_e_pg[..., slot, :] = theta * I6\n", "__Jacobian")
mut("C19", "r7-jacobian-backstrain-branch-dropped", E + "Models/InElastic/_behavior.py", "                    J_e_pg[..., Bj, slot] = branch.g * dG_e_pg * dNdSig_C\n", "                    pass\n", "__Jacobian")
mut("C19", "r7-plane-stress-test-first", E + "Models/InElastic/_behavior.py", "            if it > 0 and np.max(np.abs(r_e_pg)) < tol:\n", "            if np.max(np.abs(r_e_pg)) < tol:\n", "__Plane_stress_strain")
mut("C14", "r7-reloaded-mesh-unobserved", E + "Simulations/_simu.py", "            mesh._Add_observer(self)\n\n        self.__mesh = mesh\n", "\n        self.__mesh = mesh\n", "__Update_mesh")
mut("C10", "r7-bar-direction-dropped", E + "FEM/Elems/_beam.py", "            idx_ux = idx[:, 0]\n            B_e_pg = np.zeros((Ne, nPg, 1, dof_n * nPe), dtype=float)\n            B_e_pg[:, :, 0, idx_ux] = self._Get_x_direction_e_pg() * np.asarray(\n", "            idx_ux = idx[:, 0]\n            B_e_pg = np.zeros((Ne, nPg, 1, dof_n * nPe), dtype=float)\n            B_e_pg[:, :, 0, idx_ux] = np.asarray(\n", "Get_beam_B_e_pg")
mut("C04", "r7-joint-single-condition", E + "Simulations/_beam.py", "                for node in nodes[1:]:\n                    pair = np.asarray([nodes[0], node])\n", "                for node in nodes[1:2]:\n                    pair = np.asarray([nodes[0], node])\n", "add_connection")
mut("C16", "r7-reaction-multiplier-columns", E + "Simulations/_simu.py", "        reaction[dofs] = K[dofs][:, :Ndof] @ u\n", "        reaction[dofs] = K[dofs] @ u\n", "Calc_Reaction")
mut("C12", "r7-rank3-subscript-dropped", E + "FEM/_linalg.py", "        _idx = {0: \"\", 1: \"i\", 2: \"ij\", 3: \"ijk\", 4: \"ijkl\"}\n        idx1 = _idx[ndim1]\n        idx2 = \"\".join(chr(ord(v) + ndim1 - 1) for v in _idx[ndim2])", "        _idx = {0: \"\", 1: \"i\", 2: \"ij\", 4: \"ijkl\"}\n        idx1 = _idx[ndim1]\n        idx2 = \"\".join(chr(ord(v) + ndim1 - 1) for v in _idx[ndim2])", "_dot_subscript")
same("C19", "r7-jacobian-loop-zip", E + "Models/InElastic/_behavior.py", "                for j in range(len(self.__kinematic)):\n                    Bj = layout.slots[f\"{Slot.alpha}{j}\"]\n                    J_e_pg[..., Bj, slot] = branch.g * dG_e_pg * dNdSig_C\n", "                for j, _component in enumerate(self.__kinematic):\n                    J_e_pg[..., layout.slots[f\"{Slot.alpha}{j}\"], slot] = dG_e_pg * dNdSig_C * branch.g\n")
same("C04", "r7-joint-loop-index", E + "Simulations/_beam.py", "                for node in nodes[1:]:\n                    pair = np.asarray([nodes[0], node])\n", "                for k in range(1, len(nodes)):\n                    pair = np.asarray([nodes[0], nodes[k]])\n")

same("C19", "r7-elastic-path-test-form", E + "Models/InElastic/_behavior.py", "        if self.__layout.n == 0:\n            return (\n                self.Compute_sigma(eps6_e_pg, zOld_e_pg),", "        if self.__layout.n < 1:\n            return (\n                self.Compute_sigma(eps6_e_pg, zOld_e_pg),")
same("C19", "r7-bound-two-statements", E + "Models/InElastic/_behavior.py", "            u = self.__Bound(u - np.linalg.solve(J, r[..., None])[..., 0])\n", "            step = np.linalg.solve(J, r[..., None])[..., 0]\n            u = u - step\n            u = self.__Bound(u)\n")
mut("C19", "r7-elastic-path-half-tangent", E + "Models/InElastic/_behavior.py", "                self.Compute_sigma(eps6_e_pg, zOld_e_pg),\n                C6_e_pg,\n                zOld_e_pg,", "                self.Compute_sigma(eps6_e_pg, zOld_e_pg),\n                0.5 * C6_e_pg,\n                zOld_e_pg,", "__Integrate_3d")

same("C19", "r7-state-sum-np-add", E + "Models/InElastic/_behavior.py", "        layout = self.__layout\n        nz = layout.n\n        z_e_pg = zOld_e_pg + u_e_pg[..., :nz]\n\n        eel_e_pg", "        layout = self.__layout\n        nz = layout.n\n        z_e_pg = np.add(zOld_e_pg, u_e_pg[..., :nz])\n\n        eel_e_pg")
mut("C19", "r7-residual-R-at-increment", E + "Models/InElastic/_behavior.py", "            alpha_e_pg = z_e_pg[..., A][..., 0]\n            dG_e_pg = u_e_pg[..., nz]\n", "            alpha_e_pg = u_e_pg[..., A][..., 0]\n            dG_e_pg = u_e_pg[..., nz]\n", "__Residual")

mut("C08", "r7-solid-no-orientation", E + "FEM/_group_elem.py", "            n_f[inward_f] *= -1\n", "            pass\n", "Get_pointsInElem")
same("C08", "r7-solid-orientation-where", E + "FEM/_group_elem.py", "            n_f[inward_f] *= -1\n", "            n_f = np.where(inward_f[:, np.newaxis], -n_f, n_f)\n")

mut("C17", "r7-bourdin-flag-of-the-model", E + "Models/_phasefield.py", "        C = self.__material.C\n        if self.__material.isHeterogeneous:\n", "        C = self.__material.C\n        if self.isHeterogeneous:\n", "__Split_Bourdin")
same("C17", "r7-bourdin-flag-local", E + "Models/_phasefield.py", "        C = self.__material.C\n        if self.__material.isHeterogeneous:\n", "        material = self.__material\n        C = material.C\n        het = material.isHeterogeneous\n        if het:\n")


def refactored_edits(props):
    """behaviour-preserving rewrites written by independent sub-agents (/verif/refactored/<Cxx-Rk>): each must leave the check of
    the property it was written for silent (exit 0).  refactored/KNOWN_LIMITS.json lists the rewrites on which a check still
    ends in an analysis error, with the reason (DESIGN 7.13)."""
    out = []
    rd = os.path.join(HERE, "refactored")
    if not os.path.isdir(rd):
        return out
    try:
        limits = json.load(open(os.path.join(rd, "KNOWN_LIMITS.json")))
    except Exception:
        limits = {}
    for d in sorted(os.listdir(rd)):
        pp = os.path.join(rd, d, "patch.diff")
        if not os.path.exists(pp) or d in limits:
            continue
        pr = d.split("-")[0]
        if props is None or pr in props:
            out.append(dict(prop=pr, id=f"refactored:{d}", patch=pp, file="?", old="", new="", expect=None))
    return out


def apply_edit(root, e):
    if e.get("patch"):
        p = subprocess.run(["patch", "-p1", "-s", "-f", "-d", root, "-i", e["patch"]], capture_output=True, text=True)
        if p.returncode != 0:
            return False, "seeded patch no longer applies: " + (p.stdout + p.stderr)[-120:]
        return True, ""
    path = os.path.join(root, e["file"])
    with open(path) as fh:
        src = fh.read()
    n = src.count(e["old"])
    if n != 1:
        return False, f"anchor text occurs {n} times"
    if e["old"] == e["new"]:
        return False, "no local variable to rename"
    with open(path, "w") as fh:
        fh.write(src.replace(e["old"], e["new"]))
    return True, ""


def run_one(e, repo_root, breaking):
    tmp = tempfile.mkdtemp(prefix="verif_selftest_")
    try:
        shutil.copytree(os.path.join(repo_root, "EasyFEA"), os.path.join(tmp, "EasyFEA"), ignore=shutil.ignore_patterns("__pycache__"))
        ok, why = apply_edit(tmp, e)
        if not ok:
            return dict(e=e["id"], prop=e["prop"], status="SKIPPED", detail=why)
        # the variant must still be syntactically valid python
        try:
            if not e.get("patch"):
                compile(open(os.path.join(tmp, e["file"])).read(), e["file"], "exec")
        except SyntaxError as x:
            return dict(e=e["id"], prop=e["prop"], status="BAD-EDIT", detail=str(x))
        env = dict(os.environ, VERIF_EVIDENCE_DIR=os.path.join(tmp, "ev"))
        p = subprocess.run([os.path.join(HERE, "check"), e["prop"], "--tier", "quick", "--root", tmp], capture_output=True, text=True, env=env, timeout=900)
        out = p.stdout + p.stderr
        if breaking:
            named = e["expect"] is None or e["expect"] in out
            if p.returncode == 1 and "VIOLATION" in out and named:
                return dict(e=e["id"], prop=e["prop"], status="DETECTED", detail="")
            return dict(e=e["id"], prop=e["prop"], status="MISSED", detail=f"exit {p.returncode}; named={named}; tail: {out[-300:]}")
        else:
            if p.returncode == 0:
                return dict(e=e["id"], prop=e["prop"], status="SILENT", detail="")
            return dict(e=e["id"], prop=e["prop"], status="FALSE-ALARM" if p.returncode == 1 else "ANALYSIS-ERROR", detail=out[-400:])
    finally:
        shutil.rmtree(tmp, ignore_errors=True)


def run(prop, repo_root="/repo", verbose=True):
    """returns 0 when every breaking edit of `prop` is detected and every preserving edit is silent"""
    props = None if prop in (None, "all") else {prop}
    jobs = [(e, True) for e in M if props is None or e["prop"] in props] + [(e, False) for e in S if props is None or e["prop"] in props]
    jobs += [(e, True) for e in seeded_edits(props)]
    jobs += [(e, False) for e in refactored_edits(props)]
    for prop_r, qn in RENAME:
        if props is not None and prop_r not in props:
            continue
        ed = rename_locals_edit(repo_root, qn)
        if ed is None:
            jobs.append((dict(prop=prop_r, id="rename:" + qn.split(".")[-1], file="?", old="\0missing", new=""), False))
            continue
        file, old, new, nvars = ed
        jobs.append((dict(prop=prop_r, id=f"rename-locals({nvars}):" + ".".join(qn.split(".")[-2:]), file=file, old=old, new=new), False))
    only = os.environ.get("SELFTEST_ONLY")
    if only:  # development aid: run the edits whose id starts with the given prefix
        jobs = [(e, b) for e, b in jobs if str(e["id"]).startswith(only)]
    if not jobs:
        print(f"selftest: no edits registered for {prop}")
        return 0
    t0 = time.time()
    res = []
    with cf.ThreadPoolExecutor(max_workers=min(16, len(jobs))) as ex:
        futs = [ex.submit(run_one, e, repo_root, b) for e, b in jobs]
        for f in futs:
            res.append(f.result())
    bad = [r for r in res if r["status"] in ("MISSED", "FALSE-ALARM", "ANALYSIS-ERROR", "BAD-EDIT")]
    skipped = [r for r in res if r["status"] == "SKIPPED"]
    for r in res:
        if verbose or r["status"] not in ("DETECTED", "SILENT"):
            print(f"  selftest {r['prop']} {r['e']}: {r['status']} {r['detail'][:300]}")
    print(f"selftest {prop}: {len(res)} edits, {len([r for r in res if r['status']=='DETECTED'])} detected, {len([r for r in res if r['status']=='SILENT'])} silent, {len(skipped)} skipped, {len(bad)} wrong, {time.time()-t0:.1f}s")
    # record in the evidence file of the property (thorough tier)
    if props is not None:
        evp = os.path.join(os.environ.get("VERIF_EVIDENCE_DIR") or os.path.join(HERE, "evidence"), f"{prop}.json")
        if os.path.exists(evp):
            ev = json.load(open(evp))
            ev["coverage"]["selftest"] = {"edits": len(res), "results": res}
            json.dump(ev, open(evp, "w"), indent=1, default=str)
    if bad:
        return 1
    if len(skipped) > len(res) // 2:
        print("selftest: more than half of the edits could not be applied: the battery no longer matches the source")
        return 1
    return 0


if __name__ == "__main__":
    sys.exit(run(sys.argv[1] if len(sys.argv) > 1 else "all", sys.argv[2] if len(sys.argv) > 2 else "/repo"))
