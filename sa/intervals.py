"""A small interval analysis over the local statements of one function.

`range_at(fnode, expr, call)` gives an interval (lo, hi) that contains the value of `expr` whenever control reaches the
node `call`, as far as the local definitions tell: numeric constants, + - * / **, unary minus, the clamping idioms of
numpy (maximum / minimum / clip / abs / where with a comparison of the same name against a constant / fmax / fmin),
sqrt / cos / sin / arccos, masked stores `x[x < c] = v`, `out=` targets, pass-through wrappers (asarray, copy, ...).
Anything else is unbounded (-inf, +inf): the analysis never claims a bound it cannot justify.

Control flow: an `if` joins its two arms (or follows the arm that holds the call); a loop joins the state before it with
the state after its body, widened to unbounded where the two differ (so a bound is kept only if the body re-establishes
it); `try` bodies and handlers are joined.
"""

from __future__ import annotations

import ast
import math

from .repo import dotted

INF = math.inf
TOP = (-INF, INF)


def _join(a, b):
    return (min(a[0], b[0]), max(a[1], b[1]))


def _meet(a, b):
    lo, hi = max(a[0], b[0]), min(a[1], b[1])
    return (lo, hi) if lo <= hi else None


def _num(e):
    if isinstance(e, ast.Constant) and isinstance(e.value, (int, float)) and not isinstance(e.value, bool):
        return float(e.value)
    if isinstance(e, ast.UnaryOp) and isinstance(e.op, ast.USub):
        v = _num(e.operand)
        return None if v is None else -v
    if isinstance(e, ast.UnaryOp) and isinstance(e.op, ast.UAdd):
        return _num(e.operand)
    if isinstance(e, ast.Attribute) and (dotted(e) or "").split(".")[-1] == "pi":
        return math.pi
    return None


def _tail(e):
    return (dotted(e.func) or "").split(".")[-1] if isinstance(e, ast.Call) else ""


def _mul(a, b):
    c = []
    for x in a:
        for y in b:
            if (x in (INF, -INF) and y == 0) or (y in (INF, -INF) and x == 0):
                c.append(0.0)
            else:
                c.append(x * y)
    return (min(c), max(c))


def _restrict(iv, op, c, negate=False):
    """the part of the interval iv where (value op c) holds (or does not hold, with negate)"""
    if negate:
        op = {ast.Lt: ast.GtE, ast.LtE: ast.Gt, ast.Gt: ast.LtE, ast.GtE: ast.Lt}.get(op, None)
        if op is None:
            return iv
    if op in (ast.Lt, ast.LtE):
        return _meet(iv, (-INF, c))
    if op in (ast.Gt, ast.GtE):
        return _meet(iv, (c, INF))
    return iv


def _cmp_on(e, name):
    """(op, const) when e is `name op const` / `const op name` (normalised to name on the left), else None"""
    if not (isinstance(e, ast.Compare) and len(e.ops) == 1):
        return None
    l, r, op = e.left, e.comparators[0], type(e.ops[0])
    flip = {ast.Lt: ast.Gt, ast.LtE: ast.GtE, ast.Gt: ast.Lt, ast.GtE: ast.LtE}
    if isinstance(l, ast.Name) and l.id == name and _num(r) is not None and op in flip:
        return op, _num(r)
    if isinstance(r, ast.Name) and r.id == name and _num(l) is not None and op in flip:
        return flip[op], _num(l)
    return None


def ev(e, env):
    v = _num(e)
    if v is not None:
        return (v, v)
    if isinstance(e, ast.Name):
        return env.get(e.id, TOP)
    if isinstance(e, ast.UnaryOp) and isinstance(e.op, ast.USub):
        a = ev(e.operand, env)
        return (-a[1], -a[0])
    if isinstance(e, ast.BinOp):
        a, b = ev(e.left, env), ev(e.right, env)
        if isinstance(e.op, ast.Add):
            return (a[0] + b[0], a[1] + b[1])
        if isinstance(e.op, ast.Sub):
            return (a[0] - b[1], a[1] - b[0])
        if isinstance(e.op, ast.Mult):
            return _mul(a, b)
        if isinstance(e.op, ast.Div):
            if b[0] > 0 or b[1] < 0:
                return _mul(a, (1 / b[1] if b[1] not in (INF, -INF) else 0.0, 1 / b[0] if b[0] not in (INF, -INF) else 0.0))
            return TOP
        if isinstance(e.op, ast.Pow):
            k = _num(e.right)
            if k is not None and k == int(k) and int(k) % 2 == 0 and k > 0:
                m = max(abs(a[0]), abs(a[1]))
                lo = 0.0 if a[0] <= 0 <= a[1] else min(abs(a[0]), abs(a[1])) ** k
                return (lo, m**k if m != INF else INF)
            return TOP
        return TOP
    if isinstance(e, ast.Subscript):
        # an element / a view of an array lies in the range of the array
        return ev(e.value, env) if isinstance(e.value, ast.Name) else TOP
    if isinstance(e, ast.Call):
        t = _tail(e)
        args = e.args
        if t in ("maximum", "fmax") and len(args) >= 2:
            a, b = ev(args[0], env), ev(args[1], env)
            return (max(a[0], b[0]), max(a[1], b[1]))
        if t in ("minimum", "fmin") and len(args) >= 2:
            a, b = ev(args[0], env), ev(args[1], env)
            return (min(a[0], b[0]), min(a[1], b[1]))
        if t == "clip" and args:
            # np.clip(x, lo, hi) / x.clip(lo, hi) / keywords a_min, a_max
            if isinstance(e.func, ast.Attribute) and not (dotted(e.func.value) or "") in ("np", "numpy"):
                x, rest = ev(e.func.value, env), list(args)
            else:
                x, rest = ev(args[0], env), list(args[1:])
            kw = {k.arg: k.value for k in e.keywords}
            lo_e = rest[0] if rest else kw.get("a_min", kw.get("min"))
            hi_e = rest[1] if len(rest) > 1 else kw.get("a_max", kw.get("max"))
            lo = ev(lo_e, env) if lo_e is not None and not (isinstance(lo_e, ast.Constant) and lo_e.value is None) else (-INF, -INF)
            hi = ev(hi_e, env) if hi_e is not None and not (isinstance(hi_e, ast.Constant) and hi_e.value is None) else (INF, INF)
            return (max(x[0], lo[0]), min(x[1], hi[1]) if min(x[1], hi[1]) >= max(x[0], lo[0]) else max(x[0], lo[0]))
        if t in ("abs", "fabs", "absolute") and args:
            a = ev(args[0], env)
            lo = 0.0 if a[0] <= 0 <= a[1] else min(abs(a[0]), abs(a[1]))
            return (lo, max(abs(a[0]), abs(a[1])))
        if t == "sqrt" and args:
            a = ev(args[0], env)
            return (math.sqrt(a[0]) if a[0] > 0 and a[0] != INF else 0.0, math.sqrt(a[1]) if 0 <= a[1] < INF else INF)
        if t in ("cos", "sin", "tanh"):
            return (-1.0, 1.0)
        if t == "arccos":
            return (0.0, math.pi)
        if t == "arcsin":
            return (-math.pi / 2, math.pi / 2)
        if t == "where" and len(args) == 3:
            a, b = ev(args[1], env), ev(args[2], env)
            for nm_e, other, neg in ((args[1], args[2], False), (args[2], args[1], True)):
                if isinstance(nm_e, ast.Name):
                    c = _cmp_on(args[0], nm_e.id)
                    if c is not None:
                        part = _restrict(env.get(nm_e.id, TOP), c[0], c[1], negate=neg)
                        o = ev(other, env)
                        return o if part is None else _join(part, o)
            return _join(a, b)
        if t in ("max", "amax", "nanmax", "min", "amin", "nanmin", "mean", "average", "median"):
            # a reduction that stays inside the range of its operand (np.max(x), x.max(), max(a, b) of scalars)
            if isinstance(e.func, ast.Attribute) and (dotted(e.func.value) or "") not in ("np", "numpy"):
                return ev(e.func.value, env)
            if len(args) == 1 or (args and e.keywords):
                return ev(args[0], env)
            if len(args) >= 2 and (dotted(e.func) or "") in ("max", "min"):
                rs = [ev(a, env) for a in args]
                pick = max if t == "max" else min
                return (pick(r[0] for r in rs), pick(r[1] for r in rs))
            return TOP
        if t in ("sum", "nansum") and (args or isinstance(e.func, ast.Attribute)):
            a = ev(e.func.value, env) if isinstance(e.func, ast.Attribute) and (dotted(e.func.value) or "") not in ("np", "numpy") else ev(args[0], env)
            return (0.0, INF) if a[0] >= 0 else (-INF, 0.0) if a[1] <= 0 else TOP
        if t in ("norm", "Norm", "__Norm", "_Behavior__Norm", "hypot"):
            return (0.0, INF)
        if t in ("asarray", "array", "asfearray", "copy", "ravel", "reshape", "squeeze", "real", "astype", "view", "flatten", "ascontiguousarray", "float", "float64") :
            if args:
                return ev(args[0], env)
            if isinstance(e.func, ast.Attribute):
                return ev(e.func.value, env)
        return TOP
    if isinstance(e, ast.IfExp):
        return _join(ev(e.body, env), ev(e.orelse, env))
    return TOP


def _stored_names(st):
    out = set()
    for n in ast.walk(st):
        if isinstance(n, ast.Name) and isinstance(n.ctx, (ast.Store, ast.Del)):
            out.add(n.id)
    return out


def _apply(st, env):
    """effect of one simple statement"""
    if isinstance(st, ast.Assign):
        val = st.value
        for t in st.targets:
            if isinstance(t, ast.Name):
                env[t.id] = ev(val, env)
            elif isinstance(t, ast.Subscript) and isinstance(t.value, ast.Name):
                nm = t.value.id
                cur = env.get(nm, TOP)
                c = _cmp_on(t.slice, nm)
                v = ev(val, env)
                if c is not None:
                    rest = _restrict(cur, c[0], c[1], negate=True)
                    env[nm] = v if rest is None else _join(rest, v)
                else:
                    env[nm] = _join(cur, v)
            else:
                for nm in _stored_names(t):
                    env[nm] = TOP
        return
    if isinstance(st, ast.AnnAssign) and isinstance(st.target, ast.Name):
        env[st.target.id] = ev(st.value, env) if st.value is not None else TOP
        return
    if isinstance(st, ast.AugAssign):
        if isinstance(st.target, ast.Name):
            env[st.target.id] = ev(ast.BinOp(left=ast.Name(id=st.target.id, ctx=ast.Load()), op=st.op, right=st.value), env)
        elif isinstance(st.target, ast.Subscript) and isinstance(st.target.value, ast.Name):
            env[st.target.value.id] = TOP
        return
    if isinstance(st, ast.Expr) and isinstance(st.value, ast.Call):
        for k in st.value.keywords:
            if k.arg == "out" and isinstance(k.value, ast.Name):
                env[k.value.id] = ev(st.value, env)
                return
        # in-place methods on a name: x.clip(..., out=x) handled above; anything else that may write: unknown
        f = st.value.func
        if isinstance(f, ast.Attribute) and isinstance(f.value, ast.Name) and f.attr in ("sort", "fill", "put", "resize", "itemset", "partition"):
            env[f.value.id] = TOP
        return
    for nm in _stored_names(st):
        env[nm] = TOP


class _Found(Exception):
    def __init__(self, env):
        self.env = env


def _contains(st, target):
    return any(n is target for n in ast.walk(st))


def _run(block, env, target):
    for st in block:
        if isinstance(st, (ast.FunctionDef, ast.AsyncFunctionDef, ast.ClassDef)):
            continue
        if isinstance(st, ast.If):
            if _contains(st.test, target):
                raise _Found(env)
            e1, e2 = dict(env), dict(env)
            in1 = any(_contains(s, target) for s in st.body)
            in2 = any(_contains(s, target) for s in st.orelse)
            # (an arm that holds the call raises _Found with the state at the call)
            _run(st.body, e1, target if in1 else None)
            _run(st.orelse, e2, target if in2 else None)
            for k in set(e1) | set(e2):
                env[k] = _join(e1.get(k, TOP), e2.get(k, TOP))
            continue
        if isinstance(st, (ast.For, ast.AsyncFor, ast.While)):
            inside = any(_contains(s, target) for s in st.body)
            before = dict(env)
            if isinstance(st, (ast.For, ast.AsyncFor)):
                for nm in _stored_names(st.target):
                    env[nm] = TOP
            if inside:
                # state at the call on ANY iteration: first widen with one pass over the body
                e = dict(env)
                try:
                    _run(st.body, e, None)
                except _Found:
                    pass
                for k in set(e) | set(env):
                    if e.get(k, TOP) != env.get(k, TOP):
                        env[k] = TOP
                _run(st.body, env, target)
            e = dict(env)
            _run(st.body, e, None)
            for k in set(e) | set(before):
                a, b = e.get(k, TOP), before.get(k, TOP)
                env[k] = a if a == b else TOP
            _run(st.orelse, env, target)
            continue
        if isinstance(st, (ast.With, ast.AsyncWith)):
            for it in st.items:
                if it.optional_vars is not None:
                    for nm in _stored_names(it.optional_vars):
                        env[nm] = TOP
            _run(st.body, env, target)
            continue
        if isinstance(st, ast.Try):
            e0 = dict(env)
            _run(st.body, env, target)
            for h in st.handlers:
                eh = dict(e0)
                _run(h.body, eh, target)
                for k in set(eh) | set(env):
                    env[k] = _join(eh.get(k, TOP), env.get(k, TOP))
            _run(st.orelse, env, target)
            _run(st.finalbody, env, target)
            continue
        if target is not None and _contains(st, target):
            raise _Found(env)
        _apply(st, env)


def range_at(fnode, expr, call):
    """interval of `expr` when control reaches the node `call` (a node inside fnode)"""
    env = {}
    try:
        _run(fnode.body, env, call)
    except _Found as f:
        return ev(expr, f.env)
    return TOP
