"""E2 -- call graph, effect analysis and alias / in-place analysis over the
resolved program model (pure ast)."""

from __future__ import annotations

import ast
from typing import Iterable, Optional

from .repo import Repo, FuncInfo, ClassInfo, ModuleInfo, dotted, norm_text, walk_no_nested

MUTATING_METHODS = {"append", "extend", "insert", "clear", "update", "pop", "popitem", "remove", "sort", "reverse", "setdefault", "fill", "resize", "itemset", "put", "partition", "setfield", "add", "discard"}
INPLACE_NP = {"np.copyto", "np.put", "np.place", "np.putmask", "np.fill_diagonal", "np.add.at", "np.subtract.at"}
VIEW_CALLS = {"np.asarray", "np.asanyarray", "FeArray.asfearray", "np.reshape", "np.ravel", "np.squeeze", "np.transpose", "np.swapaxes", "np.atleast_1d", "np.atleast_2d", "np.broadcast_to", "np.moveaxis"}
VIEW_METHODS = {"reshape", "view", "ravel", "transpose", "squeeze", "swapaxes", "T", "real", "imag", "flat"}
FRESH_METHODS = {"copy", "astype", "flatten", "tolist", "sum", "mean", "max", "min", "toarray", "todense", "dot", "conj", "round", "clip", "cumsum", "tocsr", "tocsc", "tolil", "integrate"}


def resolve_accessor_call(repo, f, call):
    """`Base.prop.fset(self, v)` / `Base.prop.fget(self)` / `super(C, C).prop.__set__(self, v)`: the explicit call of a
    property accessor of a (base) class -- the way an overriding setter reaches the one it overrides"""
    fn = call.func
    if not (isinstance(fn, ast.Attribute) and fn.attr in ("fset", "fget", "__set__", "__get__") and isinstance(fn.value, ast.Attribute)):
        return None
    prop = fn.value.attr
    owner = fn.value.value
    want_setter = fn.attr in ("fset", "__set__")
    ci = None
    if isinstance(owner, ast.Call) and dotted(owner.func) == "super" and f.cls is not None and len(f.cls.mro) > 1:
        ci = f.cls.mro[1]
    else:
        d = dotted(owner)
        r = repo.resolve_name(f.module, d) if d else None
        if isinstance(r, ClassInfo):
            ci = r
    if ci is None:
        return None
    if want_setter:
        return repo.lookup_setter(ci, prop)
    g = repo.lookup_method(ci, prop)
    return g if g is not None and g.is_property() else None


class CallGraph:
    def __init__(self, repo: Repo):
        self.repo = repo
        self._callees = {}
        self._by_method_name = {}
        for ci in repo.classes.values():
            for name, f in ci.methods.items():
                if f.cls is ci:
                    self._by_method_name.setdefault(f.name, set()).add(f)
        self.by_method_name = {k: sorted(v, key=lambda f: f.qualname) for k, v in self._by_method_name.items()}

    # -- resolution -----------------------------------------------------
    def resolve_self_attr(self, ci: ClassInfo, attr: str, include_overrides=True):
        """methods / property getters that `self.<attr>` can denote inside class ci"""
        out = []
        name = ci.mangle(attr)
        f = self.repo.lookup_method(ci, name)
        if f is not None:
            out.append(f)
        if include_overrides and not attr.startswith("__"):
            for sub in self.repo.subclasses(ci):
                g = sub.methods.get(attr)
                if g is not None and g.cls is sub and g not in out:
                    out.append(g)
        return out

    def resolve_call(self, f: FuncInfo, call: ast.Call):
        """FuncInfo candidates for a call node inside function f"""
        fn = call.func
        repo = self.repo
        if isinstance(fn, ast.Name):
            r = repo.resolve_name(f.module, fn.id)
            if isinstance(r, FuncInfo):
                return [r]
            if isinstance(r, ClassInfo):
                init = repo.lookup_method(r, "__init__")
                return [init] if init is not None else []
            return []
        if isinstance(fn, ast.Attribute):
            acc = resolve_accessor_call(repo, f, call)
            if acc is not None:
                return [acc]
            base = fn.value
            if isinstance(base, ast.Name) and base.id in ("self", "cls") and f.cls is not None:
                return self.resolve_self_attr(f.cls, fn.attr)
            if isinstance(base, ast.Call) and dotted(base.func) == "super" and f.cls is not None:
                g = repo.lookup_method(f.cls, fn.attr, start_after=f.cls)
                return [g] if g is not None else []
            d = dotted(fn)
            if d:
                r = repo.resolve_name(f.module, d)
                if isinstance(r, FuncInfo):
                    return [r]
                if isinstance(r, ClassInfo):
                    init = repo.lookup_method(r, "__init__")
                    return [init] if init is not None else []
            # unknown receiver: by method name when it is specific enough
            cands = self.by_method_name.get(fn.attr, [])
            if 0 < len(cands) <= 8 and not fn.attr.startswith("__"):
                return list(cands)
        return []

    def callees(self, f: FuncInfo, with_properties=True):
        key = (id(f), with_properties)
        if key in self._callees:
            return self._callees[key]
        out = []
        for n in walk_no_nested_body(f.node):
            if isinstance(n, ast.Call):
                for g in self.resolve_call(f, n):
                    if g not in out:
                        out.append(g)
            elif with_properties and isinstance(n, ast.Attribute) and isinstance(n.value, ast.Name) and n.value.id == "self" and f.cls is not None and isinstance(n.ctx, ast.Load):
                for g in self.resolve_self_attr(f.cls, n.attr, include_overrides=True):
                    if g.is_property() and g not in out:
                        out.append(g)
        # nested defs and lambdas belong to the function
        self._callees[key] = out
        return out

    def reachable(self, roots: Iterable[FuncInfo], limit=4000, stop=None):
        seen, todo = [], list(roots)
        ids = set()
        while todo and len(seen) < limit:
            f = todo.pop()
            if id(f) in ids:
                continue
            ids.add(id(f))
            seen.append(f)
            if stop is not None and stop(f):
                continue
            todo.extend(self.callees(f))
        return seen


def walk_no_nested_body(node):
    """walk the function including nested defs / lambdas / comprehensions (they run as part of it)"""
    return ast.walk(node)


# ---------------------------------------------------------------------------
# effects
# ---------------------------------------------------------------------------


def self_attr_of(node, selfname="self"):
    """base attribute name X for expressions self.X, self.X[...], self.X.y[...]"""
    while isinstance(node, (ast.Subscript, ast.Attribute)):
        if isinstance(node, ast.Attribute) and isinstance(node.value, ast.Name) and node.value.id == selfname:
            return node.attr
        node = node.value
    return None


def self_stores(f: FuncInfo, selfname="self"):
    """[(attr, node, kind)] for stores through `self` in f (direct attribute
    assignment, subscript store, augmented assignment, delete, mutating method
    call on an attribute)."""
    out = []
    cls = f.cls
    for n in ast.walk(f.node):
        targets = []
        if isinstance(n, ast.Assign):
            targets = [(t, "assign") for t in n.targets]
        elif isinstance(n, ast.AnnAssign) and n.value is not None:
            targets = [(n.target, "assign")]
        elif isinstance(n, ast.AugAssign):
            targets = [(n.target, "augassign")]
        elif isinstance(n, ast.Delete):
            targets = [(t, "delete") for t in n.targets]
        for t, kind in targets:
            for tt in (t.elts if isinstance(t, (ast.Tuple, ast.List)) else [t]):
                a = self_attr_of(tt, selfname)
                if a is not None:
                    direct = isinstance(tt, ast.Attribute) and isinstance(tt.value, ast.Name)
                    out.append((cls.mangle(a) if cls else a, n, kind if direct else kind + "-inplace"))
        if isinstance(n, ast.Call) and isinstance(n.func, ast.Attribute) and n.func.attr in MUTATING_METHODS:
            a = self_attr_of(n.func.value, selfname)
            if a is not None and not (isinstance(n.func.value, ast.Name)):
                out.append((cls.mangle(a) if cls else a, n, "mutating-call:" + n.func.attr))
        if isinstance(n, ast.Call) and (dotted(n.func) or "") in ("setattr",) and n.args and isinstance(n.args[0], ast.Name) and n.args[0].id == selfname:
            out.append(("<setattr>", n, "setattr"))
    return out


def self_reads(f: FuncInfo, selfname="self"):
    out = set()
    cls = f.cls
    for n in ast.walk(f.node):
        if isinstance(n, ast.Attribute) and isinstance(n.value, ast.Name) and n.value.id == selfname and isinstance(n.ctx, ast.Load):
            out.add(cls.mangle(n.attr) if cls else n.attr)
    return out


# ---------------------------------------------------------------------------
# aliasing / in-place writes
# ---------------------------------------------------------------------------


def is_view_expr(e, aliases) -> bool:
    """does expression e evaluate to (a view of / the same object as) one of the alias names?"""
    if isinstance(e, ast.Name):
        return e.id in aliases
    if isinstance(e, ast.Subscript):
        return is_view_expr(e.value, aliases)
    if isinstance(e, ast.Attribute):
        if e.attr in VIEW_METHODS:
            return is_view_expr(e.value, aliases)
        return False
    if isinstance(e, ast.Call):
        d = dotted(e.func) or ""
        if d in VIEW_CALLS and e.args:
            return is_view_expr(e.args[0], aliases)
        if isinstance(e.func, ast.Attribute) and e.func.attr in VIEW_METHODS:
            return is_view_expr(e.func.value, aliases)
        return False
    if isinstance(e, ast.IfExp):
        return is_view_expr(e.body, aliases) or is_view_expr(e.orelse, aliases)
    if isinstance(e, (ast.Tuple, ast.List)):
        return any(is_view_expr(x, aliases) for x in e.elts)
    if isinstance(e, ast.Starred):
        return is_view_expr(e.value, aliases)
    return False


def alias_closure(fnode, seeds):
    """names of the function that may alias one of the seed names (flow-insensitive)"""
    aliases = set(seeds)
    changed = True
    while changed:
        changed = False
        for n in ast.walk(fnode):
            if isinstance(n, (ast.Assign, ast.AnnAssign)):
                val = n.value
                tg = n.targets if isinstance(n, ast.Assign) else [n.target]
                if val is None:
                    continue
                for t in tg:
                    if isinstance(t, ast.Name) and t.id not in aliases and is_view_expr(val, aliases):
                        aliases.add(t.id)
                        changed = True
                    elif isinstance(t, (ast.Tuple, ast.List)) and isinstance(val, (ast.Tuple, ast.List)) and len(t.elts) == len(val.elts):
                        for a, b in zip(t.elts, val.elts):
                            if isinstance(a, ast.Name) and a.id not in aliases and is_view_expr(b, aliases):
                                aliases.add(a.id)
                                changed = True
            elif isinstance(n, ast.For):
                if isinstance(n.target, ast.Name) and n.target.id not in aliases and is_view_expr(n.iter, aliases):
                    aliases.add(n.target.id)
                    changed = True
            elif isinstance(n, ast.NamedExpr):
                if n.target.id not in aliases and is_view_expr(n.value, aliases):
                    aliases.add(n.target.id)
                    changed = True
    return aliases


def inplace_sinks(fnode, aliases):
    """[(node, description)] in-place writes to an alias inside the function"""
    out = []
    for n in ast.walk(fnode):
        if isinstance(n, ast.Assign):
            for t in n.targets:
                for tt in (t.elts if isinstance(t, (ast.Tuple, ast.List)) else [t]):
                    if isinstance(tt, ast.Subscript) and is_view_expr(tt.value, aliases):
                        out.append((n, f"subscript store {norm_text(tt)} = ..."))
        elif isinstance(n, ast.AugAssign):
            t = n.target
            if isinstance(t, ast.Subscript) and is_view_expr(t.value, aliases):
                out.append((n, f"augmented subscript store {norm_text(t)}"))
            elif isinstance(t, ast.Name) and t.id in aliases:
                out.append((n, f"augmented assignment on the array `{t.id}` (in place for ndarrays)"))
        elif isinstance(n, ast.Call):
            d = dotted(n.func) or ""
            for k in n.keywords:
                if k.arg == "out" and is_view_expr(k.value, aliases):
                    out.append((n, f"out= argument of {d}"))
            if d in INPLACE_NP and n.args and is_view_expr(n.args[0], aliases):
                out.append((n, f"{d} on an alias"))
            if isinstance(n.func, ast.Attribute) and n.func.attr in ("fill", "sort", "resize", "itemset", "partition", "setfield", "put") and is_view_expr(n.func.value, aliases):
                out.append((n, f".{n.func.attr}() on an alias"))
    return out


def returns_alias(fnode, aliases):
    for n in ast.walk(fnode):
        if isinstance(n, ast.Return) and n.value is not None and is_view_expr(n.value, aliases):
            return True
    return False


def param_inplace(cg: CallGraph, f: FuncInfo, params, depth=4, _seen=None):
    """Interprocedural: in-place writes to (aliases of) the given parameters of f,
    following calls that pass an alias as argument.  Returns [(FuncInfo, node, description)]."""
    _seen = _seen if _seen is not None else set()
    key = (id(f), tuple(sorted(params)))
    if key in _seen or depth < 0:
        return []
    _seen.add(key)
    aliases = alias_closure(f.node, params)
    out = [(f, n, d) for n, d in inplace_sinks(f.node, aliases)]
    for n in ast.walk(f.node):
        if not isinstance(n, ast.Call):
            continue
        passed = []
        for i, a in enumerate(n.args):
            if is_view_expr(a, aliases):
                passed.append((i, None))
        for k in n.keywords:
            if k.arg and is_view_expr(k.value, aliases):
                passed.append((None, k.arg))
        if not passed:
            continue
        for g in cg.resolve_call(f, n):
            ps = g.params()
            offset = 0
            if g.cls is not None and not g.is_static() and ps and ps[0] in ("self", "cls"):
                # bound call: positional args start after self
                if not (isinstance(n.func, ast.Attribute) and isinstance(n.func.value, ast.Name) and n.func.value.id == g.cls.name):
                    offset = 1
            names = set()
            for i, kw in passed:
                if kw is not None and kw in ps:
                    names.add(kw)
                elif i is not None and i + offset < len(ps):
                    names.add(ps[i + offset])
            if names:
                out.extend(param_inplace(cg, g, names, depth - 1, _seen))
    return out


# ---------------------------------------------------------------------------
# local-variable inlining: rules compare *provenance*, never local names
# ---------------------------------------------------------------------------


class Locals:
    """Single-definition locals of a function.  ``expand(expr)`` substitutes
    every such local by its defining expression (recursively), so the resulting
    text mentions only parameters, attributes, calls and literals: it does not
    change when locals are renamed, split or merged."""

    def __init__(self, fnode):
        import copy

        self.fnode = fnode
        a = fnode.args
        self.params = {x.arg for x in a.posonlyargs + a.args + a.kwonlyargs}
        if a.vararg:
            self.params.add(a.vararg.arg)
        if a.kwarg:
            self.params.add(a.kwarg.arg)
        stores = {}
        for n in ast.walk(fnode):
            if isinstance(n, ast.Name) and isinstance(n.ctx, ast.Store):
                stores[n.id] = stores.get(n.id, 0) + 1
        aug = {n.target.id for n in ast.walk(fnode) if isinstance(n, ast.AugAssign) and isinstance(n.target, ast.Name)}
        self.defs = {}
        self.loopvars = {}
        for n in ast.walk(fnode):
            if isinstance(n, ast.Assign) and len(n.targets) == 1:
                t = n.targets[0]
                if isinstance(t, ast.Name) and stores.get(t.id) == 1 and t.id not in aug and t.id not in self.params:
                    self.defs[t.id] = n.value
                elif isinstance(t, (ast.Tuple, ast.List)):
                    for i, e in enumerate(t.elts):
                        if isinstance(e, ast.Name) and stores.get(e.id) == 1 and e.id not in aug and e.id not in self.params:
                            if isinstance(n.value, (ast.Tuple, ast.List)) and len(n.value.elts) == len(t.elts):
                                self.defs[e.id] = n.value.elts[i]
                            else:
                                self.defs[e.id] = ast.Subscript(value=n.value, slice=ast.Constant(value=i), ctx=ast.Load())
            elif isinstance(n, ast.AnnAssign) and isinstance(n.target, ast.Name) and n.value is not None and stores.get(n.target.id) == 1:
                self.defs[n.target.id] = n.value
            elif isinstance(n, (ast.For, ast.comprehension)):
                t = n.target
                elts = t.elts if isinstance(t, (ast.Tuple, ast.List)) else [t]
                for i, e in enumerate(elts):
                    if isinstance(e, ast.Name) and stores.get(e.id) == 1:
                        self.loopvars[e.id] = (n.iter, i if len(elts) > 1 else None)

    def all_defs(self, name):
        """every expression assigned to a (possibly multiply defined) local"""
        out = []
        for n in ast.walk(self.fnode):
            if isinstance(n, ast.Assign):
                for t in n.targets:
                    if isinstance(t, ast.Name) and t.id == name:
                        out.append(n.value)
        return out

    def resolve(self, expr, depth=8):
        """follow a chain of plain names to the defining expression"""
        while isinstance(expr, ast.Name) and expr.id in self.defs and depth > 0:
            expr = self.defs[expr.id]
            depth -= 1
        return expr

    def expand(self, expr, depth=6):
        import copy

        defs, loop = self.defs, self.loopvars
        outer = self

        class T(ast.NodeTransformer):
            def __init__(self, d):
                self.d = d

            def visit_Name(self, n):
                if isinstance(n.ctx, ast.Load) and self.d > 0:
                    if n.id in defs:
                        return T(self.d - 1).visit(copy.deepcopy(defs[n.id]))
                    if n.id in loop:
                        it, i = loop[n.id]
                        inner = T(self.d - 1).visit(copy.deepcopy(it))
                        call = ast.Call(func=ast.Name(id="each", ctx=ast.Load()), args=[inner] + ([ast.Constant(value=i)] if i is not None else []), keywords=[])
                        return call
                return n

        return T(depth).visit(copy.deepcopy(expr))

    def text(self, expr, depth=6):
        return norm_text(ast.fix_missing_locations(self.expand(expr, depth)))


# --------------------------------------------------------------------------
# syntax-directed must-pass-through: does every normally-completing path through
# a statement list execute a statement satisfying `hit`?
# --------------------------------------------------------------------------


def must_pass(stmts, hit, transparent=lambda test: False, ignore_return=lambda st: False):
    """True when every path through `stmts` that completes normally (falls off the end or returns, no raise)
    executes a statement for which hit(stmt) is true.  `transparent(test)` names the if-conditions that are part of
    the rule's precondition (the rule is only stated for executions where they hold): such an `if` counts as taken."""

    def paths(block):
        """(some path reaches the end of block without a hit, some path leaves the function without a hit)"""
        reach, exits = True, False
        for st in block:
            if not reach:
                break
            if hit(st):
                reach = False
            elif isinstance(st, ast.Raise):
                reach = False
            elif isinstance(st, ast.Return):
                if ignore_return(st):
                    reach = False  # a declared "no result" exit (e.g. `return None` for a degenerate case)
                else:
                    exits, reach = True, False
            elif isinstance(st, (ast.Break, ast.Continue)):
                reach = False  # continues after / at the head of the enclosing loop, whose exit state is "unhit" anyway
            elif isinstance(st, ast.If):
                if transparent(st.test):
                    reach, e = paths(st.body)
                    exits = exits or e
                else:
                    f1, e1 = paths(st.body)
                    f2, e2 = paths(st.orelse)
                    reach, exits = f1 or f2, exits or e1 or e2
            elif isinstance(st, (ast.With, ast.AsyncWith)):
                reach, e = paths(st.body)
                exits = exits or e
            elif isinstance(st, ast.Try):
                f, e = paths(st.body)
                hs = [paths(h.body) for h in st.handlers]
                f = f or any(x[0] for x in hs)
                e = e or any(x[1] for x in hs)
                if st.orelse:
                    fo, eo = paths(st.orelse)
                    f, e = (f and fo) or any(x[0] for x in hs), e or eo
                if st.finalbody:
                    ff, ef = paths(st.finalbody)
                    if not ff and not ef:
                        f, e = False, False  # the finally block hits on every way out
                    else:
                        e = e or ef
                reach, exits = f, exits or e
            elif isinstance(st, (ast.For, ast.While, ast.AsyncFor)):
                _, e = paths(st.body)
                exits = exits or e
                # the body may run zero times: reach stays True
        return reach, exits

    reach, exits = paths(list(stmts))
    return not reach and not exits


# --------------------------------------------------------------------------
# multiplicity (duplicate-sensitivity) analysis: a selection list handed in by the user may repeat an entry; it must be
# consumed through operations that erase multiplicity (set, unique, isin, boolean masks) and never through a reduction
# that counts entries.
# --------------------------------------------------------------------------

MULT_ERASERS = {"set", "frozenset", "np.unique", "np.isin", "np.in1d", "np.intersect1d", "np.union1d", "np.setdiff1d", "np.max", "np.min", "max", "min", "np.any", "np.all"}
MULT_ERASER_METHODS = {"max", "min", "any", "all"}
MULT_COUNTERS = {"np.sum", "np.bincount", "np.count_nonzero", "len", "np.add.at", "np.cumsum", "np.mean", "np.histogram", "np.size"}
MULT_COUNTER_METHODS = {"sum", "mean", "cumsum", "count", "trace"}
MULT_COUNTER_ATTRS = {"size", "shape"}


def multiplicity_sinks(fnode, seeds):
    """[(node, description)]: places where a value carrying the multiplicity of a seed name is counted"""
    carry = set(seeds)

    def carries(e):
        if isinstance(e, ast.Name):
            return e.id in carry
        if isinstance(e, ast.Call):
            d = dotted(e.func) or ""
            if d in MULT_ERASERS:
                return False
            if isinstance(e.func, ast.Attribute):
                if e.func.attr in MULT_ERASER_METHODS:
                    return False
                if carries(e.func.value):
                    return True  # X.nonzero(), X.ravel(), X.astype() ... keep one entry per entry of X
            if d in ("list", "tuple", "np.asarray", "np.array", "np.ravel", "np.sort", "sorted", "np.concatenate", "np.append", "np.hstack"):
                return any(carries(a) for a in e.args)
            return False
        if isinstance(e, ast.Subscript):
            # A[seed] selects one row per entry (carries); seed[mask] keeps multiplicity
            return carries(e.value) or carries(e.slice)
        if isinstance(e, (ast.Tuple, ast.List)):
            return any(carries(x) for x in e.elts)
        if isinstance(e, ast.Attribute):
            return e.attr in ("T", "flat") and carries(e.value)
        if isinstance(e, ast.BinOp):
            return carries(e.left) or carries(e.right)
        if isinstance(e, ast.Compare):
            return False  # a mask
        if isinstance(e, ast.Starred):
            return carries(e.value)
        return False

    changed = True
    while changed:
        changed = False
        for n in ast.walk(fnode):
            if isinstance(n, ast.Assign) and len(n.targets) == 1:
                t = n.targets[0]
                names = [t] if isinstance(t, ast.Name) else (list(t.elts) if isinstance(t, (ast.Tuple, ast.List)) else [])
                if carries(n.value):
                    for x in names:
                        if isinstance(x, ast.Name) and x.id not in carry:
                            carry.add(x.id)
                            changed = True
    # an emptiness test (count compared with 0) does not depend on multiplicities: a list is empty iff its set is
    emptiness = set()
    for n in ast.walk(fnode):
        if isinstance(n, ast.Compare) and len(n.ops) == 1 and len(n.comparators) == 1:
            a, b = n.left, n.comparators[0]
            for x, y in ((a, b), (b, a)):
                if isinstance(y, ast.Constant) and y.value == 0 and not isinstance(y.value, bool):
                    emptiness.add(id(x))
    out = []
    for n in ast.walk(fnode):
        if id(n) in emptiness:
            continue
        if isinstance(n, ast.Call):
            d = dotted(n.func) or ""
            if d in MULT_COUNTERS and any(carries(a) for a in n.args):
                out.append((n, f"{d}(...) counts the entries"))
            elif isinstance(n.func, ast.Attribute) and n.func.attr in MULT_COUNTER_METHODS and carries(n.func.value):
                out.append((n, f".{n.func.attr}() adds the entries up"))
        elif isinstance(n, ast.Attribute) and n.attr in MULT_COUNTER_ATTRS and carries(n.value):
            out.append((n, f".{n.attr} depends on the number of entries"))
    return out
