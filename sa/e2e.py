"""End-to-end scenarios: whole user-level call sequences of the library (build a mesh, a material, a simulation, apply
conditions and loads, ``Solve()``, read results) are **interpreted from the source** on small meshes with exact rational
coordinates and *symbolic* data (field coefficients, loads), and the outcome is compared with what the property states.

Nothing of EasyFEA is imported or executed: ``sa.xeval`` walks the AST of every function on the path (constructors,
property setters, the memoising decorator ``cache_computed_values`` itself, observers, the element kernels, the
FeArray protocol layer under ``sa.femodel``, assembly, boundary conditions, the solver front end), numpy is the exact
shim of ``sa.xeval`` / ``sa.xarray`` (Fractions and polynomials), ``scipy.sparse`` is ``sa.xsparse`` and every linear
solver backend is replaced by exact Gaussian elimination (trusted: a backend that reports convergence returns the solution
of the system it is given).

Because the data are symbolic, one scenario decides its statement for **all** values of the symbols (all linear fields,
all load intensities ...) on that mesh -- the quantifier a sampled test cannot reach; the mesh itself is one instance.

Status of an interpreter limit inside a scenario: these scenarios walk through thousands of lines; a construct the exact
shim does not model makes the *scenario* undecided (``UNDECIDED`` note, counted in the evidence) -- it is neither a
violation nor a pass of that scenario, and the rule fails closed (analysis error) only when fewer scenarios are decided
than the stated minimum.
"""

from __future__ import annotations

from fractions import Fraction
from fractions import Fraction as Q

from .alg import MQ, Poly, Rat, is_zero
from .repo import AnalysisError, FuncInfo
from .xarray import XArray
from .xeval import EnumVal, Opaque, Sink, Uninterpretable, XObj, XRaise

ELEMTYPE = "EasyFEA.FEM._utils.ElemType"
FACTORY = "EasyFEA.FEM._group_elem.GroupElemFactory"
MESH = "EasyFEA.FEM._mesh.Mesh"

# ---------------------------------------------------------------------------------------------------------------------
# reference topologies (gmsh conventions; independent of the repository): vertices of the linear cell, facets (vertex
# indices, any orientation -- oriented by geometry below), and the vertex map  x(xi) = sum_i w_i(xi) X_i
TOPO = {
    "SEG": dict(dim=1, verts=[(-1,), (1,)], facets=[(0,), (1,)]),
    "TRI": dict(dim=2, verts=[(0, 0), (1, 0), (0, 1)], facets=[(0, 1), (1, 2), (2, 0)]),
    "QUAD": dict(dim=2, verts=[(-1, -1), (1, -1), (1, 1), (-1, 1)], facets=[(0, 1), (1, 2), (2, 3), (3, 0)]),
    "TETRA": dict(dim=3, verts=[(0, 0, 0), (1, 0, 0), (0, 1, 0), (0, 0, 1)], facets=[(0, 2, 1), (0, 1, 3), (0, 3, 2), (1, 2, 3)]),
    "HEXA": dict(dim=3, verts=[(-1, -1, -1), (1, -1, -1), (1, 1, -1), (-1, 1, -1), (-1, -1, 1), (1, -1, 1), (1, 1, 1), (-1, 1, 1)], facets=[(0, 3, 2, 1), (4, 5, 6, 7), (0, 1, 5, 4), (1, 2, 6, 5), (2, 3, 7, 6), (3, 0, 4, 7)]),
    "PRISM": dict(dim=3, verts=[(0, 0, -1), (1, 0, -1), (0, 1, -1), (0, 0, 1), (1, 0, 1), (0, 1, 1)], facets=[(0, 2, 1), (3, 4, 5), (0, 1, 4, 3), (1, 2, 5, 4), (2, 0, 3, 5)]),
}
BOUNDARY_TYPE = {  # element type -> {number of facet vertices: boundary element type}
    "SEG2": {1: "POINT"}, "SEG3": {1: "POINT"}, "SEG4": {1: "POINT"}, "SEG5": {1: "POINT"},
    "TRI3": {2: "SEG2"}, "TRI6": {2: "SEG3"}, "TRI10": {2: "SEG4"}, "TRI15": {2: "SEG5"},
    "QUAD4": {2: "SEG2"}, "QUAD8": {2: "SEG3"}, "QUAD9": {2: "SEG3"},
    "TETRA4": {3: "TRI3"}, "TETRA10": {3: "TRI6"},
    "HEXA8": {4: "QUAD4"}, "HEXA20": {4: "QUAD8"}, "HEXA27": {4: "QUAD9"},
    "PRISM6": {3: "TRI3", 4: "QUAD4"}, "PRISM15": {3: "TRI6", 4: "QUAD8"}, "PRISM18": {3: "TRI6", 4: "QUAD9"},
}


def topo_of(name):
    return "".join(c for c in name if not c.isdigit())


def vertex_weights(topo, xi):
    """weights of the (multi-)linear vertex map of the reference cell at the reference point xi"""
    xi = [Q(x) for x in xi]
    if topo == "POINT":
        return [Q(1)]
    if topo == "SEG":
        return [(1 - xi[0]) / 2, (1 + xi[0]) / 2]
    if topo == "TRI":
        return [1 - xi[0] - xi[1], xi[0], xi[1]]
    if topo == "TETRA":
        return [1 - xi[0] - xi[1] - xi[2], xi[0], xi[1], xi[2]]
    if topo in ("QUAD", "HEXA"):
        out = []
        for v in TOPO[topo]["verts"]:
            w = Q(1)
            for a, b in zip(xi, v):
                w *= (1 + a * b) / 2
            out.append(w)
        return out
    if topo == "PRISM":
        tri = [1 - xi[0] - xi[1], xi[0], xi[1]]
        return [tri[i % 3] * (1 + xi[2] * (-1 if i < 3 else 1)) / 2 for i in range(6)]
    raise AnalysisError(f"topology {topo}")


def vmap(topo, verts, xi):
    w = vertex_weights(topo, xi)
    return tuple(sum((wi * v[k] for wi, v in zip(w, verts)), Q(0)) for k in range(3))


def _sub(a, b):
    return tuple(x - y for x, y in zip(a, b))


def _cross(a, b):
    return (a[1] * b[2] - a[2] * b[1], a[2] * b[0] - a[0] * b[2], a[0] * b[1] - a[1] * b[0])


def _dot(a, b):
    return sum(x * y for x, y in zip(a, b))


class MeshData:
    """nodes (exact coordinates), main cells and boundary facets of a small mesh, element type by element type"""

    def __init__(self):
        self.coords = []  # list of 3-tuples
        self.index = {}
        self.groups = {}  # elemType name -> list of node rows
        self.dim = 0

    def node(self, x):
        x = tuple(Q(v) for v in x)
        if x not in self.index:
            self.index[x] = len(self.coords)
            self.coords.append(x)
        return self.index[x]

    @property
    def Nn(self):
        return len(self.coords)


def build_mesh_data(lib, elem, cells, with_points=True, extra_nodes=()):
    """`cells`: list of vertex-coordinate lists (vertices in the reference order of the LINEAR cell of the topology, positively
    oriented).  Nodes of the element type `elem` are placed through the vertex map at the type's own local coordinates (read
    from the repository's Get_Local_Coords table, which C06 ties to the shape functions); boundary facets (facets met once)
    become elements of the matching boundary type, oriented outwards (3-D) / with the interior on their left (2-D).
    `elem` may also be a list [(elem, cells), ...]: a mesh with several element groups of the main dimension."""
    parts = elem if isinstance(elem, list) else [(elem, cells)]
    md = MeshData()
    md.dim = TOPO[topo_of(parts[0][0])]["dim"]
    pad = lambda v: tuple(list(v) + [Q(0)] * (3 - len(v)))
    parts = [(e, [[pad(v) for v in c] for c in cs]) for e, cs in parts]
    # vertices first (so that vertex numbers are the smallest, as gmsh does), then the other nodes
    for e, cs in parts:
        for c in cs:
            for v in c:
                md.node(v)
    for e, cs in parts:
        topo = topo_of(e)
        ed = lib.get(e)
        md.groups[e] = [[md.node(vmap(topo, c, xi)) for xi in ed.coords] for c in cs]
    # boundary facets: met once over ALL the cells
    seen = {}
    for e, cs in parts:
        for c in cs:
            for f in TOPO[topo_of(e)]["facets"]:
                key = frozenset(c[i] for i in f)
                seen.setdefault(key, []).append((e, c, f))
    centroid = lambda pts: tuple(sum(p[k] for p in pts) / len(pts) for k in range(3))
    for key, owners in seen.items():
        if len(owners) != 1:
            continue
        e, c, f = owners[0]
        fv = [c[i] for i in f]
        bname = BOUNDARY_TYPE[e][len(f)]
        if md.dim == 3:
            n = _cross(_sub(fv[1], fv[0]), _sub(fv[2], fv[0]))
            if _dot(n, _sub(centroid(fv), centroid(c))) < 0:
                fv = [fv[0]] + fv[:0:-1]
        elif md.dim == 2:
            # interior on the left of the oriented edge (counter-clockwise boundary), in the plane of the cell
            nrm = _cross(_sub(c[1], c[0]), _sub(c[2], c[0]))
            t = _sub(fv[1], fv[0])
            left = _cross(nrm, t)
            if _dot(left, _sub(centroid(c), centroid(fv))) < 0:
                fv = fv[::-1]
        if bname == "POINT":
            md.groups.setdefault("POINT", []).append([md.node(fv[0])])
            continue
        bd = lib.get(bname)
        btopo = topo_of(bname)
        row = []
        for xi in bd.coords:
            x = vmap(btopo, fv, xi)
            if x not in md.index:
                raise AnalysisError(f"boundary node of {bname} at {x} is not a node of the mesh")
            row.append(md.index[x])
        md.groups.setdefault(bname, []).append(row)
    for x in extra_nodes:
        md.node(pad(x))
    if with_points and md.dim == 2:
        # the corner points of the domain: boundary vertices whose two boundary edges are not aligned
        inc = {}
        for key, owners in seen.items():
            if len(owners) == 1:
                a, b = list(key)
                inc.setdefault(a, []).append(_sub(b, a))
                inc.setdefault(b, []).append(_sub(a, b))
        pts = [v for v, ds in inc.items() if len(ds) == 2 and any(cc != 0 for cc in _cross(ds[0], ds[1]))]
        if pts:
            md.groups["POINT"] = [[md.index[v]] for v in sorted(pts)]
    return md


def grid_cells(topo, nx, ny=1, nz=1, lx=1, ly=1, lz=1, warp=None):
    """structured cells of a box; `warp(x, y, z) -> (x, y, z)` moves the vertices (exact, rational)"""
    warp = warp or (lambda x, y, z: (x, y, z))
    P = lambda i, j=0, k=0: tuple(Q(v) for v in warp(Q(lx) * i / nx, Q(ly) * j / ny if ny else Q(0), Q(lz) * k / nz if nz else Q(0)))
    cells = []
    if topo == "SEG":
        return [[P(i), P(i + 1)] for i in range(nx)]
    if topo in ("TRI", "QUAD"):
        for j in range(ny):
            for i in range(nx):
                q = [P(i, j), P(i + 1, j), P(i + 1, j + 1), P(i, j + 1)]
                if topo == "QUAD":
                    cells.append(q)
                elif (i + j) % 2 == 0:
                    cells += [[q[0], q[1], q[2]], [q[0], q[2], q[3]]]
                else:
                    cells += [[q[0], q[1], q[3]], [q[1], q[2], q[3]]]
        return cells
    for k in range(nz):
        for j in range(ny):
            for i in range(nx):
                h = [P(i, j, k), P(i + 1, j, k), P(i + 1, j + 1, k), P(i, j + 1, k), P(i, j, k + 1), P(i + 1, j, k + 1), P(i + 1, j + 1, k + 1), P(i, j + 1, k + 1)]
                if topo == "HEXA":
                    cells.append(h)
                elif topo == "PRISM":
                    cells += [[h[0], h[1], h[2], h[4], h[5], h[6]], [h[0], h[2], h[3], h[4], h[6], h[7]]]
                elif topo == "TETRA":
                    # Kuhn subdivision along the diagonal 0-6 (conforming between neighbouring boxes)
                    for a, b in ((1, 2), (2, 3), (3, 7), (7, 4), (4, 5), (5, 1)):
                        t = [h[0], h[a], h[b], h[6]]
                        vol = _dot(_cross(_sub(t[1], t[0]), _sub(t[2], t[0])), _sub(t[3], t[0]))
                        if vol < 0:
                            t[1], t[2] = t[2], t[1]
                        cells.append(t)
    return cells


# ---------------------------------------------------------------------------------------------------------------------
def leggauss_exact(n):
    """Gauss-Legendre nodes and weights for n <= 3 as exact numbers of Q(sqrt 3) / Q(sqrt 15) (trusted: numpy's leggauss is
    the Gauss-Legendre rule)"""
    n = int(n)
    if n == 1:
        return XArray((1,), [Q(0)]), XArray((1,), [Q(2)])
    if n == 2:
        r = MQ.sqrt(3) / 3
        return XArray((2,), [-r, r]), XArray((2,), [Q(1), Q(1)])
    if n == 3:
        r = MQ.sqrt(15) / 5
        return XArray((3,), [-r, Q(0), r]), XArray((3,), [Q(5, 9), Q(8, 9), Q(5, 9)])
    raise Uninterpretable(f"leggauss({n}): nodes are not in a multiquadratic field")


class Undecided(Exception):
    """the scenario met a construct outside the exact model: no verdict for this scenario"""


_WORLDS = []


class World:
    """One interpreter with the whole-program model switched on."""

    def __init__(self, repo, lib=None, mpi_size=1, max_steps=3_000_000_000, extra=None, round_digits=None, approx_roots=False):
        from .elems import ElemLib
        from .femodel import Model

        self.repo = repo
        self.lib = lib or ElemLib(repo)
        self.M = Model(repo, max_steps=max_steps)
        self.I = self.M.I
        self.I.extra.update({"print": lambda *a, **k: None, "MPI_SIZE": mpi_size, "MPI_RANK": 0, "CAN_USE_PYPARDISO": False, "CAN_USE_PETSC": False, "Tic": lambda *a, **k: Sink()})
        self.I.extra.update(extra or {})
        self.I.constructible = {c.qualname for c in repo.classes.values()}
        self.I.model_decorators = True
        self.I.model_descriptors = True
        self.I.exact_float = True
        self.M.user_call_hook = self._hook
        self.solves = []  # (A, b) handed to a linear backend
        # round_digits = n: the linear backend returns the exact solution ROUNDED to n decimal digits (a backend of finite
        # accuracy).  For staggered / incremental scenarios only: the size of exact rationals otherwise squares at every
        # step.  The statements decided with it are inequalities with a margin far above 10^-n.
        self.round_digits = round_digits
        if round_digits is not None and approx_roots:
            # approx_roots: square roots that are not rational, eigen-decompositions and dense solves are rounded too (a
            # material-point integration takes roots of running values; Kelvin-Mandel factors such as sqrt(2) then stop
            # being exact surds, which makes every later number long - hence opt-in per scenario)
            from . import xeval as _xe

            _xe.APPROX_SQRT_DIGITS = 2 * round_digits  # (scenarios run in forked workers: the switch stays in this process)
        self.ET = repo.cls(ELEMTYPE)
        _WORLDS.append(self)

    # -- hooks ---------------------------------------------------------------------------------------------------------
    def _hook(self, fn, args, kwargs):
        from . import xsparse

        fi = fn if isinstance(fn, FuncInfo) else getattr(fn, "finfo", None)
        if isinstance(fi, FuncInfo) and fi.module.name.startswith("EasyFEA.Utilities"):
            if fi.name in ("Tic", "Tac", "_CheckIsVector", "MyPrint", "MyPrintError", "Section"):
                return Sink()
        if type(fn).__name__ == "_NpAttr" and fn.path == "polynomial.legendre.leggauss":
            return leggauss_exact(args[0])
        if isinstance(fn, Opaque):
            tag = fn.tag
            if tag.startswith("import:scipy.sparse"):
                name = tag[len("import:scipy.sparse"):].lstrip(".")
                if name in ("linalg.spsolve",):
                    self.solves.append((args[0], args[1]))
                    return self._rounded(xsparse.spsolve(*args))
                if name in ("linalg.cg", "linalg.bicg", "linalg.gmres", "linalg.lgmres", "linalg.bicgstab", "linalg.minres"):
                    # a Krylov backend that reports convergence (info = 0) returns the solution of the system it is handed
                    self.solves.append((args[0], args[1]))
                    return (xsparse.spsolve(args[0], args[1]), 0)
                if name in ("linalg.norm",):
                    # Frobenius norm of a sparse matrix / vector (a convergence measure)
                    try:
                        from .xeval import _norm_sqrt

                        a = args[0]
                        vals = list(a.entries.values()) if isinstance(a, xsparse.XSp) else list(XArray.from_nested(a).data)
                        tot = 0
                        for v in vals:
                            tot = tot + v * v
                        return _norm_sqrt(tot) if vals else Q(0)
                    except Exception:
                        return Sink()
                return xsparse.sparse_hook(fn, args, kwargs)
            if tag in ("import:scipy.spatial.KDTree", "import:scipy.spatial.cKDTree"):
                from .props.c08 import _ExactKDTree

                return _ExactKDTree(args[0])
        return NotImplemented

    def _rounded(self, x):
        if self.round_digits is None or not isinstance(x, XArray):
            return x
        from fractions import Fraction

        sc = 10 ** self.round_digits
        out = []
        for v in x.data:
            if isinstance(v, Poly) and v.is_const():
                v = v.const_value()
            if isinstance(v, (int, Fraction)):
                v = Fraction(round(Fraction(v) * sc), sc)
            out.append(v)
        return XArray(x.shape, out)

    # -- object protocol -----------------------------------------------------------------------------------------------
    def enum(self, cls_qualname, member):
        ci = self.repo.cls(cls_qualname)
        return EnumVal(ci, member, self.repo.enum_members(cls_qualname)[member])

    def elemtype(self, name):
        return EnumVal(self.ET, name, name)

    def _guard(self, f):
        try:
            return f()
        except Uninterpretable as e:
            raise Undecided(str(e)[:300])
        except AnalysisError as e:
            raise Undecided(f"{type(e).__name__}: {str(e)[:300]}")
        except RecursionError:
            raise Undecided("recursion limit of the analyser")

    def new(self, cls_qualname, *args, **kwargs):
        ci = self.repo.cls(cls_qualname)
        obj = XObj(ci, {})
        init = self.repo.lookup_method(ci, "__init__")
        if init is not None:
            self._guard(lambda: self.I.call_function(init, list(args), kwargs, self_obj=obj))
        return obj

    def call(self, obj, method, *args, **kwargs):
        f = self.repo.lookup_method(obj.cls, method if not method.startswith("__") or method.endswith("__") else obj.cls.mangle(method))
        if f is None:
            raise AnalysisError(f"{obj.cls.name}.{method} not found")
        if f.is_static():
            return self._guard(lambda: self.I.call_function(f, list(args), kwargs))
        if f.is_cached():
            from .xeval import _Bound

            return self._guard(lambda: _Bound(self.I, f, obj)(*args, **kwargs))
        return self._guard(lambda: self.I.call_function(f, list(args), kwargs, self_obj=obj))

    def func(self, qualname, *args, **kwargs):
        f = self.repo.func(qualname)
        return self._guard(lambda: self.I.call_function(f, list(args), kwargs))

    def get(self, obj, prop):
        f = self.repo.lookup_method(obj.cls, prop)
        if f is None or not f.is_property():
            if prop in obj.attrs:
                return obj.attrs[prop]
            raise AnalysisError(f"{obj.cls.name}.{prop} is not a property")
        return self._guard(lambda: self.I.call_function(f, [], self_obj=obj))

    def set(self, obj, prop, value):
        """obj.prop = value as the interpreter executes it (property setters and data descriptors run)"""
        import ast as _ast

        node = _ast.parse(f"_o.{prop} = _v").body[0]
        mi = obj.cls.module

        def go():
            from .xeval import _Frame

            fr = _Frame(self.I, {"_o": obj, "_v": value}, mi.relpath, mi, None)
            fr.run(node)

        return self._guard(go)

    # -- meshes ----------------------------------------------------------------------------------------------------------
    def mesh(self, md: MeshData, order=None):
        coords = XArray((md.Nn, 3), [v for c in md.coords for v in c])
        fac = self.repo.cls(FACTORY)
        create = fac.methods["Create"]
        names = order or sorted(md.groups, key=lambda n: (self.lib.gmsh[n]["dim"], n))
        groups = {}
        for name in names:
            rows = md.groups[name]
            con = XArray((len(rows), len(rows[0])), [n for r in rows for n in r], "i")
            groups[self.elemtype(name)] = self._guard(lambda: self.I.call_function(create, [self.elemtype(name), con, XArray(coords.shape, list(coords.data))]))
        return self.new(MESH, groups)


# ---------------------------------------------------------------------------------------------------------------------
def polys(a):
    """flat list of Poly for an array-like result"""
    if isinstance(a, XArray):
        return [Poly.of(_num(v)) for v in a.data]
    if isinstance(a, (list, tuple)):
        return [Poly.of(_num(v)) for v in XArray.from_nested(a).data]
    return [Poly.of(_num(a))]


def _num(v):
    from .xeval import exact

    v = exact(v)
    if isinstance(v, MQ) and v.is_rational():
        v = v.rational()
    if isinstance(v, Poly) and not v.is_zero() and any(isinstance(c, MQ) for c in v.t.values()):
        if all(c.is_rational() for c in v.t.values() if isinstance(c, MQ)):
            v = Poly({m: (c.rational() if isinstance(c, MQ) else c) for m, c in v.t.items()})
    if isinstance(v, Rat):
        if v.is_poly():
            return v.as_poly()
        raise AnalysisError("rational-function value where a polynomial was expected")
    return v


def same(a, b):
    a, b = _num(a), _num(b)
    if isinstance(a, Rat) or isinstance(b, Rat):
        return Rat.of(a) == Rat.of(b)
    return is_zero(Poly.of(a) - Poly.of(b))


_SCEN = []


def _run_one(k):
    """worker (forked): returns (status, message, functions interpreted) with status in ok / fail / undecided"""
    del _WORLDS[:]
    from . import xeval as _xe

    _xe.APPROX_SQRT_DIGITS = None
    try:
        st, msg = _run_one_inner(k)
    finally:
        _xe.APPROX_SQRT_DIGITS = None  # (a scenario with a rounding backend switches approximate roots on for itself only)
    funcs = set()
    for w in _WORLDS:
        funcs |= set(w.I.trace_funcs)
    return st, msg, sorted(funcs)


def _run_one_inner(k):
    label, anchor, thunk = _SCEN[k]
    import os as _os, sys as _sys, time as _time

    if _os.environ.get("VERIF_E2E_TRACE"):
        print(f"[e2e] start {label} at {_time.strftime('%H:%M:%S')}", file=_sys.stderr, flush=True)
    try:
        msg = thunk()
    except Undecided as e:
        return ("undecided", str(e))
    except XRaise as e:
        return ("fail", f"the library raises {e}")
    except AnalysisError as e:
        return ("undecided", f"{type(e).__name__}: {str(e)[:300]}")
    except RecursionError:
        return ("undecided", "recursion limit of the analyser")
    except Exception as e:  # a limit of the checker's own reference computation: no verdict for this scenario
        import traceback

        tb = traceback.extract_tb(e.__traceback__)[-1]
        return ("undecided", f"checker-side {type(e).__name__}: {str(e)[:200]} ({tb.filename.split('/')[-1]}:{tb.lineno})")
    return ("ok", None) if msg is None else ("fail", msg)


def run_scenarios(ctx, rule, scenarios, min_decided=None, jobs=None):
    """`scenarios`: list of (label, anchor FuncInfo, thunk).  A thunk returns None (holds) or a message (violated);
    it may raise Undecided / XRaise.  An XRaise (the LIBRARY raises on a legitimate input) is a violation.
    Scenarios are independent: they run in forked worker processes."""
    import multiprocessing as mp
    import os

    global _SCEN
    _SCEN = list(scenarios)
    jobs = jobs or int(os.environ.get("VERIF_E2E_JOBS", "8"))
    jobs = max(1, min(jobs, len(_SCEN)))
    if jobs == 1:
        results = [_run_one(k) for k in range(len(_SCEN))]
    else:
        with mp.get_context("fork").Pool(jobs) as pool:
            results = pool.map(_run_one, range(len(_SCEN)), chunksize=1)
    decided = 0
    interpreted = set()
    for res in results:
        interpreted |= set(res[2])
    results = [(st, msg) for st, msg, _ in results]
    # what the scenarios walked through belongs to the evidence: functions interpreted, files they live in
    for q in interpreted:
        rule.analysed(q)
        try:
            ctx.repo.consulted.add(ctx.repo.func(q).file)
        except Exception:
            pass
    ctx.extra.setdefault("e2e_functions_interpreted", {})[rule.id] = len(interpreted)
    for (label, anchor, thunk), (status, msg) in zip(_SCEN, results):
        rule.instance(fn=anchor.qualname if anchor is not None else None)
        if status == "undecided":
            rule.note(f"UNDECIDED scenario '{label}': {msg}")
            print(f"UNDECIDED property={ctx.prop} rule={rule.id} scenario={label}: {msg}")
            rule.ok(None)
            continue
        decided += 1
        if status == "ok":
            rule.ok(label)
        else:
            q = anchor.qualname if anchor is not None else "scenario"
            rule.fail(q, f"e2e:{label}", anchor.file if anchor is not None else "?", anchor.lineno if anchor is not None else 0, q.split(".")[-1], f"end-to-end scenario '{label}': {msg}")
    ctx.extra.setdefault("e2e", {})[rule.id] = {"scenarios": len(_SCEN), "decided": decided, "undecided": [l for (l, _, _), (st, _) in zip(_SCEN, results) if st == "undecided"]}
    # no fail-closed here, by design (DESIGN 7.13): the scenarios are additive to the clause rules of the property; a
    # construct outside the exact model leaves a scenario without verdict (printed, counted in the evidence), it is not an alarm
    if decided < len(_SCEN):
        rule.note(f"{len(_SCEN) - decided} of {len(_SCEN)} scenarios undecided")
    return decided
