"""Exact model of the Lagrange element classes read from the source:
shape-function tables as polynomials, reference coordinates, topology tables."""

from __future__ import annotations

from fractions import Fraction

from .alg import Poly, Q, MQ, to_q
from .repo import Repo, AnalysisError, AnchorMissing
from .xeval import Interp, XObj, Closure, Uninterpretable, XRaise, EnumVal
from .xarray import XArray

FACTORY = "EasyFEA.FEM._group_elem.GroupElemFactory"
ELEMTYPE = "EasyFEA.FEM._utils.ElemType"
MATRIXTYPE = "EasyFEA.FEM._utils.MatrixType"
GAUSS = "EasyFEA.FEM._gauss.Gauss"
VARS = ("x", "y", "z")

TOPOLOGY_SHAPE = {"SEG": "SEG", "TRI": "TRI", "QUAD": "QUAD", "TETRA": "TETRA", "HEXA": "HEXA", "PRISM": "PRISM"}


def topology(name: str) -> str:
    return "".join(c for c in name if not c.isdigit())


class ElemData:
    def __init__(self, name):
        self.name = name
        self.cls = None
        self.nPe = self.dim = self.order = None
        self.info = None
        self.coords = None  # list of tuples
        self.tables = {}  # 'N','dN','ddN','dddN','ddddN' -> XArray of Poly (nPe, ncol) | ('raise', exc)
        self.raw = {}
        self.obj = None

    @property
    def vars(self):
        return VARS[: self.dim]

    @property
    def shape(self):
        return topology(self.name)


def to_poly(v, where=""):
    if isinstance(v, Poly):
        return v
    if isinstance(v, (int, Fraction, MQ)):
        return Poly.const(v)
    if isinstance(v, float):
        return Poly.const(to_q(v))
    raise AnalysisError(f"{where}: table entry is not polynomial ({type(v).__name__})")


class ElemLib:
    """Loads the gmsh data table, the class map and all element classes."""

    def __init__(self, repo: Repo):
        self.repo = repo
        self.I = Interp(repo)
        fac = repo.cls(FACTORY)
        gm, owner = repo.class_attr(fac, "DICT_GMSH_DATA")
        if gm is None:
            raise AnchorMissing("GroupElemFactory.DICT_GMSH_DATA not found")
        table = self.I.eval_expr(gm, {}, owner.file, owner.module)
        self.gmsh = {}
        for gid, row in table.items():
            et = row[0]
            self.gmsh[str(et.name)] = dict(
                gmshId=gid, nPe=int(row[1]), dim=int(row[2]), order=int(row[3]),
                Nvertex=int(row[4]), Nedge=int(row[5]), Nface=int(row[6]), Nvolume=int(row[7]),
            )
        cm, owner = repo.class_attr(fac, "GROUP_CLASS_MAP")
        if cm is None:
            raise AnchorMissing("GroupElemFactory.GROUP_CLASS_MAP not found")
        cmap = self.I.eval_expr(cm, {}, owner.file, owner.module)
        self.class_map = {str(k.name): v for k, v in cmap.items()}
        self.enum = repo.enum_members(ELEMTYPE)
        self._cache = {}

    def names(self, dims=(1, 2, 3)):
        return [n for n, d in self.gmsh.items() if d["dim"] in dims]

    def make_obj(self, name) -> XObj:
        ci = self.class_map[name]
        info = self.gmsh[name]
        et = EnumVal(self.repo.cls(ELEMTYPE), name, self.enum[name])
        obj = XObj(ci, dict(nPe=info["nPe"], dim=info["dim"], order=info["order"], elemType=et,
                            inDim=info["dim"], topology=topology(name)))
        return obj

    def get(self, name) -> ElemData:
        if name in self._cache:
            return self._cache[name]
        if name not in self.class_map:
            raise AnchorMissing(f"element class for {name} not in GROUP_CLASS_MAP")
        ed = ElemData(name)
        ed.cls = self.class_map[name]
        self.repo.consulted.add(ed.cls.file)
        info = self.gmsh[name]
        ed.info = info
        ed.nPe, ed.dim, ed.order = info["nPe"], info["dim"], info["order"]
        ed.obj = self.make_obj(name)
        # coordinates
        f = self.repo.lookup_method(ed.cls, "Get_Local_Coords")
        if f is None:
            raise AnchorMissing(f"{name}.Get_Local_Coords")
        c = self.I.call_function(f, [], self_obj=ed.obj)
        c = XArray.from_nested(c)
        if c.ndim == 1:
            c = c.reshape(-1, 1)
        if c.shape != (ed.nPe, ed.dim):
            raise AnalysisError(f"{name}.Get_Local_Coords has shape {c.shape}, expected {(ed.nPe, ed.dim)}")
        ed.coords = [tuple(to_q(x) if not isinstance(x, (Fraction, MQ)) else x for x in row.data) for row in c]
        for tab in ("_N", "_dN", "_ddN", "_dddN", "_ddddN"):
            ed.tables[tab[1:]] = self.table(ed, tab)
        self._cache[name] = ed
        return ed

    def table(self, ed: ElemData, method: str):
        f = self.repo.lookup_method(ed.cls, method)
        if f is None:
            raise AnchorMissing(f"{ed.name}.{method}")
        try:
            t = self.I.call_function(f, [], self_obj=ed.obj)
        except XRaise as e:
            return ("raise", e.exc_name, f)
        t = XArray.from_nested(t)
        ed.raw[method[1:]] = t
        ncol = 1 if method == "_N" else ed.dim
        if t.ndim == 1:
            t = t.reshape(-1, 1)
        if t.shape != (ed.nPe, ncol):
            # (a table with another number of rows than the element has basis functions: reported by the rule that reads it)
            return ("shape", t.shape, f)
        vs = [Poly.var(v) for v in ed.vars]
        out = []
        for k, fn in enumerate(t.data):
            if not isinstance(fn, Closure):
                raise AnalysisError(f"{ed.name}.{method}[{k}] is not a function")
            nargs = len(fn.node.args.args)
            if nargs != ed.dim:
                raise AnalysisError(f"{ed.name}.{method}[{k}] takes {nargs} arguments, element dimension is {ed.dim}")
            out.append(to_poly(fn(*vs), f"{ed.name}.{method}[{k}]"))
        res = XArray((ed.nPe, ncol), out)
        return ("ok", res, f, t)
