"""Exact n-d arrays (nested tables of algebra values) with the numpy semantics
needed to read the literal tables of the repository: construction from nested
lists, ``.T``, ``reshape``, basic/advanced indexing (read and write),
broadcasting element-wise arithmetic, ``@``.  Elements are arbitrary objects
(Fraction, MQ, Poly, Rat, Lin, closures, labels)."""

from __future__ import annotations

from fractions import Fraction
from itertools import product as _iproduct


class XArrayError(Exception):
    pass


def _prod(t):
    r = 1
    for x in t:
        r *= x
    return r


class Lbl:
    """Opaque label used by the provenance interpreters (never unpacked by
    array construction)."""

    __slots__ = ("v",)

    def __init__(self, *v):
        self.v = tuple(v)

    def __eq__(self, o):
        return isinstance(o, Lbl) and self.v == o.v

    def __hash__(self):
        return hash(self.v)

    def __repr__(self):
        return "Lbl" + repr(self.v)


class XTruncation(XArrayError):
    """a non-integer value is stored into an array of integer type: numpy truncates it silently"""


class XArray:
    # `order`: memory layout as far as it is observable (flags.c_contiguous / f_contiguous): None = C-contiguous, otherwise the
    # axis permutation p such that this array is base.transpose(p) of a C-contiguous base (only transposes / swapaxes make it)
    __slots__ = ("shape", "data", "dtype", "order")

    def __init__(self, shape, data, dtype=None):
        self.shape = tuple(int(s) for s in shape)
        self.data = list(data)
        self.dtype = dtype
        self.order = None
        if len(self.data) != _prod(self.shape):
            raise XArrayError(f"shape {self.shape} does not match {len(self.data)} items")

    # -- construction -------------------------------------------------------
    @staticmethod
    def from_nested(obj):
        if isinstance(obj, XArray):
            out = XArray(obj.shape, obj.data, obj.dtype)
            out.order = obj.order  # (np.asarray of an array is that array: same memory layout)
            return out

        def shape_of(o):
            if isinstance(o, XArray):
                return o.shape
            if isinstance(o, (list, tuple)):
                if not o:
                    return (0,)
                s0 = shape_of(o[0])
                for x in o[1:]:
                    if shape_of(x) != s0:
                        raise XArrayError("ragged nested sequence")
                return (len(o),) + s0
            return ()

        def flat(o, out):
            if isinstance(o, XArray):
                out.extend(o.data)
            elif isinstance(o, (list, tuple)):
                for x in o:
                    flat(x, out)
            else:
                out.append(o)

        sh = shape_of(obj)
        out = []
        flat(obj, out)
        return XArray(sh, out)

    @staticmethod
    def full(shape, value):
        if isinstance(shape, int):
            shape = (shape,)
        return XArray(shape, [value] * _prod(shape))

    @property
    def ndim(self):
        return len(self.shape)

    @property
    def size(self):
        return len(self.data)

    def copy(self):
        return XArray(self.shape, self.data, self.dtype)

    def tolist(self):
        def build(off, sh):
            if not sh:
                return self.data[off]
            step = _prod(sh[1:])
            return [build(off + i * step, sh[1:]) for i in range(sh[0])]

        return build(0, self.shape)

    def __len__(self):
        if not self.shape:
            raise TypeError("len() of 0-d array")
        return self.shape[0]

    def __iter__(self):
        for i in range(self.shape[0]):
            yield self[i]

    # -- shape manipulation -------------------------------------------------
    def reshape(self, *shape):
        if len(shape) == 1 and isinstance(shape[0], (tuple, list)):
            shape = tuple(shape[0])
        shape = [int(s) for s in shape]
        if shape.count(-1) > 1:
            raise XArrayError("more than one -1 in reshape")
        if -1 in shape:
            known = _prod(s for s in shape if s != -1)
            if known == 0 or self.size % known:
                raise XArrayError("cannot infer reshape dimension")
            shape[shape.index(-1)] = self.size // known
        if _prod(shape) != self.size:
            raise XArrayError(f"cannot reshape {self.shape} into {tuple(shape)}")
        return XArray(shape, self.data, self.dtype)

    def ravel(self):
        return XArray((self.size,), self.data, self.dtype)

    flatten = ravel

    def transpose(self, *axes):
        if len(axes) == 1 and isinstance(axes[0], (tuple, list)):
            axes = tuple(axes[0])
        if not axes:
            axes = tuple(reversed(range(self.ndim)))
        axes = tuple(a % self.ndim for a in axes)
        newshape = tuple(self.shape[a] for a in axes)
        strides = self._strides()
        out = []
        for idx in _iproduct(*[range(s) for s in newshape]):
            off = sum(idx[k] * strides[axes[k]] for k in range(self.ndim))
            out.append(self.data[off])
        res = XArray(newshape, out, self.dtype)
        base = self.order if self.order is not None else tuple(range(self.ndim))
        perm = tuple(base[a] for a in axes)
        res.order = None if perm == tuple(range(self.ndim)) else perm
        return res

    @property
    def T(self):
        return self.transpose()

    @property
    def flags(self):
        from types import SimpleNamespace

        c = self.order is None or self.ndim <= 1
        f_ = self.ndim <= 1 or (self.order is not None and self.order == tuple(reversed(range(self.ndim))))

        class _Flags(SimpleNamespace):
            _xeval_open = True

            def __getitem__(self_, k):
                return {"C_CONTIGUOUS": self_.c_contiguous, "F_CONTIGUOUS": self_.f_contiguous, "C": self_.c_contiguous, "F": self_.f_contiguous}[str(k).upper()]

        return _Flags(c_contiguous=c, f_contiguous=f_, contiguous=c, writeable=True, owndata=self.order is None)

    def _strides(self):
        st, acc = [], 1
        for s in reversed(self.shape):
            st.append(acc)
            acc *= s
        return tuple(reversed(st))

    # -- indexing -----------------------------------------------------------
    def _resolve_index(self, key):
        """Return (result_shape, list of flat offsets) for a numpy-style key."""
        if isinstance(key, XArray) and key.data and all(isinstance(v, bool) for v in key.data) and key.ndim >= 1 and key.shape == self.shape[: key.ndim]:
            # boolean mask over the leading axes: the positions where it holds, row-major
            import itertools as _it

            hits = [ix for ix, v in zip(_it.product(*[range(n) for n in key.shape]), key.data) if v]
            key = tuple(XArray((len(hits),), [h[k] for h in hits]) for k in range(key.ndim))
            if key[0].size == 0:
                rest = self.shape[len(key):]
                return (0,) + tuple(rest), []
        if not isinstance(key, tuple):
            key = (key,)
        key = list(key)
        if any(isinstance(k, XArray) and k.ndim >= 2 for k in key) and not any(k is None for k in key):
            return self._resolve_general(key)
        # expand ellipsis
        n_real = sum(1 for k in key if k is not None and k is not Ellipsis)
        if any(k is Ellipsis for k in key):
            i = next(j for j, k in enumerate(key) if k is Ellipsis)
            key[i : i + 1] = [slice(None)] * (self.ndim - n_real)
        else:
            key += [slice(None)] * (self.ndim - n_real)
        n_real = sum(1 for k in key if k is not None)
        if n_real != self.ndim:
            raise XArrayError(f"too many indices for shape {self.shape}")
        # classify
        axes = []  # per result-building step
        ax = 0
        adv = []  # (position in key, axis, list)
        for pos, k in enumerate(key):
            if k is None:
                axes.append(("new",))
                continue
            n = self.shape[ax]
            if isinstance(k, XArray):
                if k.ndim == 0:
                    k = k.data[0]
                elif k.ndim == 1:
                    k = list(k.data)
                else:
                    raise XArrayError("n-d index arrays unsupported")
            if isinstance(k, Fraction) and k.denominator == 1:
                k = int(k)
            if isinstance(k, bool):
                raise XArrayError("boolean index unsupported")
            if isinstance(k, int):
                if not -n <= k < n:
                    raise IndexError(f"index {k} out of bounds for axis {ax} with size {n}")
                axes.append(("int", ax, k % n))
            elif isinstance(k, slice):
                axes.append(("slice", ax, list(range(*k.indices(n)))))
            elif isinstance(k, (list, tuple, range)):
                if len(k) and all(isinstance(v, bool) for v in k):
                    # boolean mask along this axis
                    if len(k) != n:
                        raise IndexError(f"boolean mask of length {len(k)} on an axis of size {n}")
                    k = [i for i, v in enumerate(k) if v]
                lst = []
                for v in k:
                    if isinstance(v, Fraction) and v.denominator == 1:
                        v = int(v)
                    if not isinstance(v, int):
                        raise XArrayError(f"non-integer index {v!r}")
                    if not -n <= v < n:
                        raise IndexError(f"index {v} out of bounds for axis {ax} with size {n}")
                    lst.append(v % n)
                axes.append(("adv", ax, lst))
                adv.append(pos)
            else:
                raise XArrayError(f"unsupported index {k!r}")
            ax += 1
        strides = self._strides()
        if len(adv) <= 1:
            # every axis independent (outer) -- identical to numpy for <=1 advanced index
            shape, choices = [], []
            for a in axes:
                if a[0] == "new":
                    shape.append(1)
                    choices.append([0])
                elif a[0] == "int":
                    choices.append([a[2] * strides[a[1]]])
                else:
                    shape.append(len(a[2]))
                    choices.append([i * strides[a[1]] for i in a[2]])
            offs = [sum(c) for c in _iproduct(*choices)]
            # remove the singleton "int" axes: they contribute one choice and no shape
            return tuple(shape), offs
        # several advanced indices: numpy broadcasts them together
        lens = {len(axes[p][2]) for p in adv}
        lens.discard(1)
        if len(lens) > 1:
            raise XArrayError("advanced indices of different lengths")
        L = lens.pop() if lens else 1
        adjacent = all(
            axes[p][0] in ("adv", "int") for p in range(adv[0], adv[-1] + 1)
        ) and all(axes[p][0] == "adv" or axes[p][0] == "int" for p in range(adv[0], adv[-1] + 1))
        # numpy: ints count as advanced indices when combined with arrays
        advpos = [p for p in range(len(axes)) if axes[p][0] in ("adv",)]
        intpos = [p for p in range(len(axes)) if axes[p][0] == "int"]
        allpos = sorted(advpos + intpos)
        adjacent = allpos == list(range(allpos[0], allpos[-1] + 1))
        other = [p for p in range(len(axes)) if p not in allpos]
        other_shape, other_choices = [], []
        for p in other:
            a = axes[p]
            if a[0] == "new":
                other_shape.append(1)
                other_choices.append([0])
            else:
                other_shape.append(len(a[2]))
                other_choices.append([i * strides[a[1]] for i in a[2]])
        adv_offs = []
        for j in range(L):
            off = 0
            for p in allpos:
                a = axes[p]
                if a[0] == "int":
                    off += a[2] * strides[a[1]]
                else:
                    lst = a[2]
                    off += lst[j if len(lst) > 1 else 0] * strides[a[1]]
            adv_offs.append(off)
        n_before = len([p for p in other if p < allpos[0]]) if adjacent else 0
        shape = tuple(other_shape[:n_before]) + (L,) + tuple(other_shape[n_before:])
        offs = []
        before = other_choices[:n_before]
        after = other_choices[n_before:]
        for cb in _iproduct(*before):
            for ao in adv_offs:
                for ca in _iproduct(*after):
                    offs.append(sum(cb) + ao + sum(ca))
        return shape, offs

    def _resolve_general(self, key):
        """numpy's advanced indexing with index arrays of any rank mixed with slices: the index arrays (and integers)
        broadcast together; their block sits where they stand when they are adjacent, first otherwise"""
        key = list(key)
        n_real = sum(1 for k in key if k is not Ellipsis)
        if any(k is Ellipsis for k in key):
            i = next(j for j, k in enumerate(key) if k is Ellipsis)
            key[i : i + 1] = [slice(None)] * (self.ndim - n_real)
        else:
            key += [slice(None)] * (self.ndim - n_real)
        if len(key) != self.ndim:
            raise XArrayError(f"too many indices for shape {self.shape}")
        strides = self._strides()
        advpos = [p for p, k in enumerate(key) if not isinstance(k, slice)]
        arrs = {}
        bshape = ()
        for p in advpos:
            k = key[p]
            if isinstance(k, bool):
                raise XArrayError("boolean index unsupported")
            a = k if isinstance(k, XArray) else XArray.from_nested(k) if isinstance(k, (list, tuple, range)) else XArray((), [k])
            arrs[p] = a
            bshape = XArray._bshape(bshape, a.shape)
        nb = _prod(bshape)
        adv_offs = [0] * nb
        for p in advpos:
            n = self.shape[p]
            a = arrs[p]
            data = a.broadcast_to(bshape).data if bshape else a.data
            for j, v in enumerate(data):
                if isinstance(v, Fraction) and v.denominator == 1:
                    v = int(v)
                if not isinstance(v, int) or isinstance(v, bool):
                    raise XArrayError(f"non-integer index {v!r}")
                if not -n <= v < n:
                    raise IndexError(f"index {v} out of bounds for axis {p} with size {n}")
                adv_offs[j] += (v % n) * strides[p]
        adjacent = advpos == list(range(advpos[0], advpos[-1] + 1))
        basic = [p for p in range(self.ndim) if p not in arrs]
        before = [p for p in basic if adjacent and p < advpos[0]]
        after = [p for p in basic if p not in before]
        ch = lambda p: [i * strides[p] for i in range(*key[p].indices(self.shape[p]))]
        cb, ca = [ch(p) for p in before], [ch(p) for p in after]
        shape = tuple(len(c) for c in cb) + tuple(bshape) + tuple(len(c) for c in ca)
        offs = []
        for x in _iproduct(*cb):
            for ao in adv_offs:
                for y in _iproduct(*ca):
                    offs.append(sum(x) + ao + sum(y))
        return shape, offs

    def __getitem__(self, key):
        if isinstance(key, XArray) and key.ndim >= 2 and not (key.data and all(isinstance(v, bool) for v in key.data)):
            # a[index_array]: result shape = index shape + trailing shape
            step = _prod(self.shape[1:])
            out = []
            for k in key.data:
                k = int(k)
                if not -self.shape[0] <= k < self.shape[0]:
                    raise IndexError(f"index {k} out of bounds")
                k %= self.shape[0]
                out.extend(self.data[k * step : (k + 1) * step])
            return XArray(key.shape + self.shape[1:], out, self.dtype)
        shape, offs = self._resolve_index(key)
        if shape == ():
            return self.data[offs[0]]
        return XArray(shape, [self.data[o] for o in offs], self.dtype)

    def _check_kind(self, x):
        """an array of integer kind ("i": built from integer literals, arange, dtype=int) truncates what is stored into it"""
        if self.dtype in ("f", "i") and type(x).__name__ == "Poly" and "__I__" in x.vars():
            raise XTruncation(f"a complex value is stored into an array of {'float' if self.dtype == 'f' else 'integer'} type: numpy discards its imaginary part (ComplexWarning only)")
        definite = (isinstance(x, Fraction) and x.denominator != 1) or (type(x).__name__ == "MQ" and not (x.is_rational() and x.rational().denominator == 1))
        if self.dtype == "i" and definite:
            # (symbolic values are left alone: only a definite non-integer is a definite truncation)
            raise XTruncation(f"the value {x!r} is stored into an array of integer type: numpy truncates it towards zero without a warning")

    def __setitem__(self, key, value):
        shape, offs = self._resolve_index(key)
        if self.dtype == "O" and shape == ():
            # object array: one slot holds the value as it is (a list, an array, None)
            self.data[offs[0]] = value
            return
        if isinstance(value, (list, tuple)):
            value = XArray.from_nested(value)
        if isinstance(value, XArray):
            v = value.broadcast_to(shape)
            for o, x in zip(offs, v.data):
                self._check_kind(x)
                self.data[o] = x
        else:
            for o in offs:
                self._check_kind(value)
                self.data[o] = value

    # -- broadcasting arithmetic -------------------------------------------
    def broadcast_to(self, shape):
        shape = tuple(shape)
        if self.shape == shape:
            return self
        nd = len(shape)
        if self.ndim > nd:
            # allow dropping leading singleton axes
            sh = list(self.shape)
            while len(sh) > nd and sh[0] == 1:
                sh.pop(0)
            if len(sh) > nd:
                raise XArrayError(f"cannot broadcast {self.shape} to {shape}")
            return XArray(sh, self.data).broadcast_to(shape)
        sh = (1,) * (nd - self.ndim) + self.shape
        for a, b in zip(sh, shape):
            if a != b and a != 1:
                raise XArrayError(f"cannot broadcast {self.shape} to {shape}")
        st, acc = [], 1
        for s in reversed(sh):
            st.append(acc)
            acc *= s
        st = list(reversed(st))
        st = [0 if sh[k] == 1 else st[k] for k in range(nd)]
        out = []
        for idx in _iproduct(*[range(s) for s in shape]):
            out.append(self.data[sum(i * s for i, s in zip(idx, st))])
        return XArray(shape, out)

    @staticmethod
    def _bshape(a, b):
        nd = max(len(a), len(b))
        a = (1,) * (nd - len(a)) + tuple(a)
        b = (1,) * (nd - len(b)) + tuple(b)
        out = []
        for x, y in zip(a, b):
            if x == y or y == 1:
                out.append(x)
            elif x == 1:
                out.append(y)
            else:
                raise XArrayError(f"shapes {a} and {b} do not broadcast")
        return tuple(out)

    def _binop(self, o, f, reflected=False):
        if getattr(type(o), "_absorbing", False):
            return o
        if isinstance(o, (list, tuple)):
            o = XArray.from_nested(o)
        if isinstance(o, XArray):
            sh = XArray._bshape(self.shape, o.shape)
            a, b = self.broadcast_to(sh), o.broadcast_to(sh)
            if reflected:
                return XArray(sh, [f(y, x) for x, y in zip(a.data, b.data)])
            return XArray(sh, [f(x, y) for x, y in zip(a.data, b.data)])
        if reflected:
            return XArray(self.shape, [f(o, x) for x in self.data])
        return XArray(self.shape, [f(x, o) for x in self.data])

    def __gt__(self, o):
        return self._binop(o, lambda x, y: x > y)

    def __ge__(self, o):
        return self._binop(o, lambda x, y: x >= y)

    def __lt__(self, o):
        return self._binop(o, lambda x, y: x < y)

    def __le__(self, o):
        return self._binop(o, lambda x, y: x <= y)

    def __add__(self, o):
        return self._binop(o, lambda x, y: x + y)

    def __radd__(self, o):
        return self._binop(o, lambda x, y: x + y, True)

    def __sub__(self, o):
        return self._binop(o, lambda x, y: x - y)

    def __rsub__(self, o):
        return self._binop(o, lambda x, y: x - y, True)

    def __mul__(self, o):
        return self._binop(o, lambda x, y: x * y)

    def __rmul__(self, o):
        return self._binop(o, lambda x, y: x * y, True)

    def __truediv__(self, o):
        return self._binop(o, lambda x, y: x / y)

    def __rtruediv__(self, o):
        return self._binop(o, lambda x, y: x / y, True)

    def __mod__(self, o):
        return self._binop(o, lambda x, y: x % y)

    def __floordiv__(self, o):
        return self._binop(o, lambda x, y: x // y)

    def __pow__(self, o):
        return self._binop(o, lambda x, y: x**y)

    def __neg__(self):
        return XArray(self.shape, [-x for x in self.data])

    def __pos__(self):
        return self

    def __matmul__(self, o):
        if isinstance(o, (list, tuple)):
            o = XArray.from_nested(o)
        if not isinstance(o, XArray):
            return NotImplemented
        return matmul(self, o)

    def __rmatmul__(self, o):
        return matmul(XArray.from_nested(o), self)

    def mean(self, axis=None, keepdims=False, **kw):
        n = self.size if axis is None else self.shape[axis]
        tot = self.sum(axis)
        from fractions import Fraction as _Q

        res = tot * _Q(1, n)
        if keepdims and axis is not None and isinstance(res, XArray):
            ax = axis % self.ndim
            res = XArray(self.shape[:ax] + (1,) + self.shape[ax + 1:], res.data)
        return res

    def sum(self, axis=None):
        if axis is None:
            tot = 0
            for x in self.data:
                tot = tot + x
            return tot
        if isinstance(axis, (tuple, list)):
            # several axes: one after the other, from the last to the first (the positions of the others do not move)
            res = self
            for ax in sorted({int(a) % self.ndim for a in axis}, reverse=True):
                res = res.sum(ax) if isinstance(res, XArray) else res
            return res
        axis = int(axis) % self.ndim
        moved = self.transpose(*([a for a in range(self.ndim) if a != axis] + [axis]))
        n = self.shape[axis]
        out = []
        for i in range(0, moved.size, n):
            tot = 0
            for x in moved.data[i : i + n]:
                tot = tot + x
            out.append(tot)
        return XArray(moved.shape[:-1], out) if moved.ndim > 1 else out[0]

    def _extremum(self, axis, pick):
        def best(vals):
            b = vals[0]
            for x in vals[1:]:
                b = pick(b, x)
            return b

        if self.size == 0:
            from .xeval import XRaise

            raise XRaise("ValueError", "zero-size array to reduction operation which has no identity")
        if axis is None:
            return best(list(self.data))
        axis = int(axis) % self.ndim
        moved = self.transpose(*([a for a in range(self.ndim) if a != axis] + [axis]))
        n = self.shape[axis]
        out = [best(list(moved.data[i : i + n])) for i in range(0, moved.size, n)]
        return XArray(moved.shape[:-1], out) if moved.ndim > 1 else out[0]

    def max(self, axis=None):
        return self._extremum(axis, lambda a, b: b if b > a else a)

    def min(self, axis=None):
        return self._extremum(axis, lambda a, b: b if b < a else a)

    def __eq__(self, o):
        if isinstance(o, XArray):
            return self.shape == o.shape and all(a == b for a, b in zip(self.data, o.data))
        return NotImplemented

    def __hash__(self):
        return id(self)

    def __repr__(self):
        return f"XArray{self.shape}({self.tolist()!r})"


def matmul(a: XArray, b: XArray) -> XArray:
    if a.ndim == 1 and b.ndim == 1:
        if a.shape != b.shape:
            raise XArrayError("matmul shape mismatch")
        tot = 0
        for x, y in zip(a.data, b.data):
            tot = tot + x * y
        return tot
    if a.ndim == 1:
        # numpy: a is promoted to (1, k) and the prepended axis is removed from the result (position -2)
        r = matmul(a.reshape(1, -1), b)
        return r.reshape(r.shape[:-2] + r.shape[-1:])
    if b.ndim == 1:
        r = matmul(a, b.reshape(-1, 1))
        return r.reshape(r.shape[:-1])
    if a.ndim == 2 and b.ndim == 2:
        n, k = a.shape
        k2, m = b.shape
        if k != k2:
            raise XArrayError(f"matmul shape mismatch {a.shape} @ {b.shape}")
        out = []
        for i in range(n):
            for j in range(m):
                tot = 0
                for l in range(k):
                    tot = tot + a.data[i * k + l] * b.data[l * m + j]
                out.append(tot)
        return XArray((n, m), out)
    # batched: broadcast leading axes
    lead = XArray._bshape(a.shape[:-2], b.shape[:-2])
    A = a.broadcast_to(lead + a.shape[-2:])
    B = b.broadcast_to(lead + b.shape[-2:])
    n, k = A.shape[-2:]
    m = B.shape[-1]
    out = []
    nb = _prod(lead)
    for t in range(nb):
        sa = XArray((n, k), A.data[t * n * k : (t + 1) * n * k])
        sb = XArray((k, m), B.data[t * k * m : (t + 1) * k * m])
        out.extend(matmul(sa, sb).data)
    return XArray(lead + (n, m), out)


def einsum(spec: str, *ops):
    """Exact einsum for explicit '->' specs (supports '...' on leading axes)."""
    spec = spec.replace(" ", "")
    if "->" not in spec:
        raise XArrayError("implicit einsum output unsupported")
    ins, out = spec.split("->")
    ins = ins.split(",")
    if len(ins) != len(ops):
        raise XArrayError("einsum operand count mismatch")
    ops = [o if isinstance(o, XArray) else XArray.from_nested(o) for o in ops]
    # expand ellipsis
    ell = 0
    for s, o in zip(ins, ops):
        if "..." in s:
            ell = max(ell, o.ndim - (len(s) - 3))
    ellnames = [chr(0x3B1 + i) for i in range(ell)]  # greek letters

    def expand(s, nd):
        if "..." in s:
            k = nd - (len(s) - 3)
            return s.replace("...", "".join(ellnames[ell - k :]))
        return s

    ins = [expand(s, o.ndim) for s, o in zip(ins, ops)]
    out = out.replace("...", "".join(ellnames))
    dims = {}
    for s, o in zip(ins, ops):
        if len(s) != o.ndim:
            raise XArrayError(f"einsum subscript {s} does not match shape {o.shape}")
        for ch, n in zip(s, o.shape):
            if dims.setdefault(ch, n) != n:
                if dims[ch] == 1:
                    dims[ch] = n
                elif n != 1:
                    raise XArrayError(f"einsum dimension mismatch on {ch}")
    summed = [c for c in dims if c not in out]
    oshape = tuple(dims[c] for c in out)
    res = []
    strides = [o._strides() for o in ops]
    for oidx in _iproduct(*[range(n) for n in oshape]):
        env = dict(zip(out, oidx))
        tot = 0
        for sidx in _iproduct(*[range(dims[c]) for c in summed]):
            env.update(zip(summed, sidx))
            term = 1
            for s, o, st in zip(ins, ops, strides):
                off = sum((env[ch] if o.shape[k] != 1 else 0) * st[k] for k, ch in enumerate(s))
                term = term * o.data[off]
            tot = tot + term
        res.append(tot)
    if not oshape:
        return res[0]
    return XArray(oshape, res)
