"""Symbolic-expression domain for the interpreter (transcendental code: exp, sqrt,
fractional powers, abstract material functions) and the bridge to the sympy
side (sa/sym_generic.py under python3-vt).

SE values are sympy-syntax strings built by operator overloading while the
exact interpreter (sa/xeval.py) walks the AST; arrays of SE are ordinary
XArray objects.  Comparisons of SE values yield `Cond` markers; `np.where(Cond,
a, b)` and `np.maximum(x, c)` select the *generic* branch (a resp. x): the
identities are decided on the open region where the guards hold (positive
overstress, positive equivalent stress, ...), which is stated in the rule.
"""

from __future__ import annotations

import json
import os
import shutil
import subprocess
from fractions import Fraction

from .alg import MQ, Poly
from .repo import AnalysisError
from .xarray import XArray

HERE = os.path.dirname(os.path.abspath(__file__))


class Cond:
    _xeval_open = True

    def __init__(self, s):
        self.s = s

    def __and__(self, o):
        return Cond(f"({self.s}) & ({getattr(o, 's', o)})")

    __rand__ = __and__
    __or__ = __and__

    def __invert__(self):
        return Cond(f"~({self.s})")


class SE:
    """expression in sympy syntax, built by the interpreter"""

    _xeval_open = True
    __slots__ = ("s",)

    def __init__(self, s):
        self.s = s

    @staticmethod
    def sym(name):
        return SE(name)

    @staticmethod
    def of(x):
        if isinstance(x, SE):
            return x
        if isinstance(x, bool):
            raise AnalysisError("boolean in a symbolic expression")
        if isinstance(x, int):
            return SE(str(x))
        if isinstance(x, float):
            x = Fraction(repr(x))
        if isinstance(x, Fraction):
            return SE(f"Rational({x.numerator},{x.denominator})" if x.denominator != 1 else str(x.numerator))
        if isinstance(x, Poly) and x.is_const():
            return SE.of(x.const_value())
        if isinstance(x, MQ) and x.is_rational():
            return SE.of(x.rational())
        if isinstance(x, MQ):
            return SE(_mq(x))
        raise AnalysisError(f"cannot embed {type(x).__name__} in a symbolic expression")

    def is_zero(self):
        return self.s == "0"

    def _b(self, o, op, refl=False):
        if isinstance(o, XArray):
            return NotImplemented
        try:
            o = SE.of(o)
        except AnalysisError:
            return NotImplemented
        a, b = (o, self) if refl else (self, o)
        # light constant folding keeps the strings small
        if op == "*" and (a.s == "0" or b.s == "0"):
            return SE("0")
        if op == "*" and a.s == "1":
            return b
        if op == "*" and b.s == "1":
            return a
        if op == "+" and a.s == "0":
            return b
        if op in "+-" and b.s == "0":
            return a
        return SE(f"(({a.s}){op}({b.s}))")

    def __add__(self, o):
        return self._b(o, "+")

    def __radd__(self, o):
        return self._b(o, "+", True)

    def __sub__(self, o):
        return self._b(o, "-")

    def __rsub__(self, o):
        return self._b(o, "-", True)

    def __mul__(self, o):
        return self._b(o, "*")

    def __rmul__(self, o):
        return self._b(o, "*", True)

    def __truediv__(self, o):
        return self._b(o, "/")

    def __rtruediv__(self, o):
        return self._b(o, "/", True)

    def __pow__(self, o):
        return self._b(o, "**")

    def __rpow__(self, o):
        return self._b(o, "**", True)

    def __neg__(self):
        return SE("0") if self.s == "0" else SE(f"(-({self.s}))")

    def __pos__(self):
        return self

    def __abs__(self):
        return SE(f"Abs({self.s})")

    def _c(self, o, op):
        return Cond(f"({self.s}){op}({SE.of(o).s})")

    def __gt__(self, o):
        return self._c(o, ">")

    def __ge__(self, o):
        return self._c(o, ">=")

    def __lt__(self, o):
        return self._c(o, "<")

    def __le__(self, o):
        return self._c(o, "<=")

    def __repr__(self):
        return self.s


def _mq(x: MQ) -> str:
    parts = []
    for d, c in x.t.items():
        r = f"sqrt({int(d)})" if d != 1 else "1"
        parts.append(f"(Rational({c.numerator},{c.denominator}))*({r})")
    return "(" + " + ".join(parts) + ")" if parts else "0"


def fn(name, *args):
    """application of an abstract function (declared to the sympy side through job['pairs'])"""
    return SE(f"{name}({', '.join(SE.of(a).s for a in args)})")


def _map(a, f):
    if isinstance(a, XArray):
        return type(a)(a.shape, [f(SE.of(x)) for x in a.data])
    return f(SE.of(a))


def _has_se(a):
    if isinstance(a, SE):
        return True
    if isinstance(a, XArray):
        return any(isinstance(x, SE) for x in a.data)
    return False


def sym_hook(fn_, args, kwargs):
    """interpreter call hook: numpy transcendental functions and guards on SE data"""
    from .xeval import _NpAttr

    if isinstance(fn_, _NpAttr):
        p = fn_.path
        if p in ("exp", "log", "sqrt") and args and _has_se(args[0]):
            return _map(args[0], lambda x: SE(f"{p}({x.s})"))
        if p == "sqrt" and args and isinstance(args[0], (int, float, Fraction)):
            return SE(f"sqrt({SE.of(args[0]).s})")
        if p in ("abs", "absolute") and args and _has_se(args[0]):
            return _map(args[0], lambda x: SE(f"Abs({x.s})"))
        if p in ("maximum", "fmax") and len(args) == 2:
            a, b = args
            if _has_se(a) and not _has_se(b):
                return a  # generic branch: the guarded quantity is above its floor
            if _has_se(b) and not _has_se(a):
                return b
        if p == "where" and len(args) == 3 and (isinstance(args[0], Cond) or (isinstance(args[0], XArray) and any(isinstance(x, Cond) for x in args[0].data))):
            return args[1]  # generic branch: the guard holds
        if p == "linalg.norm" and args and _has_se(args[0]):
            a = args[0]
            axis = kwargs.get("axis", args[1] if len(args) > 1 else None)
            sq = type(a)(a.shape, [SE.of(x) * SE.of(x) for x in a.data])
            tot = XArray.sum(sq, axis)
            return _map(tot, lambda x: SE(f"sqrt({x.s})"))
        if p in ("shape",) and args and isinstance(args[0], SE):
            return ()
    return NotImplemented


def run_jobs(jobs, seed=0, points=30, timeout=900):
    exe = shutil.which("python3-vt") or "/opt/veriftools/pyvenv/bin/python"
    if not os.path.exists(exe) and shutil.which("python3-vt") is None:
        raise AnalysisError("python3-vt (sympy) is not available: the symbolic identities cannot be decided")
    p = subprocess.run([exe, os.path.join(HERE, "sym_generic.py")], input=json.dumps({"jobs": jobs, "seed": seed, "points": points}), capture_output=True, text=True, timeout=timeout)
    if p.returncode != 0:
        raise AnalysisError(f"sympy side failed: {p.stderr[-600:]}")
    res = json.loads(p.stdout)["results"]
    for r in res:
        if r["ok"] is None:
            raise AnalysisError(f"sympy side could not decide {r['id']}: {r['witness']}")
    return {r["id"]: r for r in res}


class NT:
    """value of a typing.NamedTuple class of the analysed source: fields by name and by position"""

    _xeval_open = True

    def __init__(self, names, vals):
        self._names, self._vals = list(names), list(vals)
        for k, v in zip(names, vals):
            setattr(self, k, v)

    def __iter__(self):
        return iter(self._vals)

    def __getitem__(self, i):
        return self._vals[i]

    def __len__(self):
        return len(self._vals)


def full_hook(fn_, args, kwargs):
    """NamedTuple construction + symbolic numpy + FeArray factories"""
    import ast as _ast

    from .femchain import fe_hook_full
    from .repo import ClassInfo

    if isinstance(fn_, ClassInfo) and any(getattr(b, "id", None) == "NamedTuple" or getattr(b, "attr", None) == "NamedTuple" for b in fn_.node.bases):
        names = [s_.target.id for s_ in fn_.node.body if isinstance(s_, _ast.AnnAssign)]
        defaults = {s_.target.id: None for s_ in fn_.node.body if isinstance(s_, _ast.AnnAssign) and s_.value is not None}
        vals = list(args) + [kwargs.get(k, defaults.get(k)) for k in names[len(args):]]
        return NT(names, vals)
    r = sym_hook(fn_, args, kwargs)
    if r is not NotImplemented:
        return r
    return fe_hook_full(fn_, args, kwargs)
