"""Beam strain operators, decided exactly on one straight symbolic element.

For every concrete beam element class (EULER_BERNOULLI2..5, TIMOSHENKO2..5) and
every beam dimension (1, 2, 3) the repository's own  Get_beam_B_e_pg  (and the
Hermitian derivative getters it calls) is interpreted at a symbolic reference
point xi of an element of length L = 3 lying on the local axis.  The nodal dofs
are those of a polynomial displacement / rotation field with symbolic
coefficients (rotation dofs are the components of the rotation vector).  Two
obligations per (class, dim):

  rigid      every rigid-body motion  u = a + theta x r,  rot = theta  has zero
             strain at every xi (physical kernel contained in ker K);
  strains    for fields the element can represent, row k of  B d  is, up to one
             sign per row (D is diagonal, so K = int B^T D B is blind to it), the
             strain measure of that row: u', rx', ry' / w'', rz' / v'', v'-rz,
             w'+ry  (no row vanishes, none mixes planes: no spurious mode).
"""

from __future__ import annotations

from fractions import Fraction as Q
from types import SimpleNamespace

from .alg import Poly, is_zero
from .xarray import XArray
from .xeval import Interp, XObj, Opaque, XRaise
from .femchain import XFe, fe_hook_full
from .repo import AnalysisError, AnchorMissing

BEAM_MOD = "EasyFEA.FEM.Elems._beam"
L = Q(3)


def _to_poly(v):
    from .elems import to_poly

    return to_poly(v)


def beam_classes(repo):
    base = repo.cls(BEAM_MOD + "._EulerBernoulli")
    timo = repo.cls(BEAM_MOD + "._Timoshenko")
    out = []
    for ci in sorted(repo.subclasses(base), key=lambda c: c.qualname):
        segs = [b for b in ci.mro if b.module.name.endswith("._seg") and b.name.startswith("SEG")]
        if not segs or repo.lookup_method(ci, "_Hermitian_N") is None or "_Hermitian_N" not in {m for b in ci.mro for m in b.methods if b is not base}:
            continue
        out.append((ci, segs[0], timo in ci.mro))
    return out


def _hermite_table(lib, ci, ed, method):
    f = lib.repo.lookup_method(ci, method)
    if f is None:
        raise AnchorMissing(f"{ci.name}.{method}")
    t = XArray.from_nested(lib.I.call_function(f, [], self_obj=XObj(ci, dict(nPe=ed.nPe, dim=1, order=ed.order)))).reshape(-1)
    x = Poly.var("x")
    return [_to_poly(fn(x)) for fn in t.data]


def make_obj(lib, ci, seg, dim):
    """stub beam group: one element on the local x axis, x(xi) = L (xi - xi_0) / (xi_n - xi_0)"""
    repo = lib.repo
    ed = lib.get(seg.name)
    nPe = ed.nPe
    nodes = [c[0] for c in ed.coords]
    lo, hi = min(nodes), max(nodes)
    scale = L / (hi - lo)  # dx/dxi
    N = [p for p in ed.tables["N"][1].data]
    dN = [p for p in ed.tables["dN"][1].data]
    obj = XObj(ci, dict(nPe=nPe, dim=1, order=ed.order, Ne=1, inDim=3))
    a = obj.attrs
    a["Get_N_pg"] = lambda mt=None: XArray((1, 1, nPe), list(N))
    a["Get_dN_e_pg"] = lambda mt=None: XFe((1, 1, 1, nPe), [p / scale for p in dN])
    a["Get_invF_e_pg"] = lambda mt=None: XFe((1, 1, 1, 1), [Poly.const(1 / scale)])
    a["length_e"] = XArray((1,), [L])
    # (the stub element runs towards +x: the direction factor of 1-D structures is +1; both directions are decided by R10.16)
    a["_Get_x_direction_e_pg"] = lambda: XArray((1, 1, 1), [Q(1)])
    for nm in ("_Hermitian_N", "_Hermitian_dN", "_Hermitian_ddN", "_Hermitian_dddN"):
        getter = "Get" + nm + "_pg"
        tab = _hermite_table(lib, ci, ed, nm)
        a[getter] = (lambda t: (lambda: XArray((1, 1, 2 * nPe), list(t))))(tab)
    n = {1: 1, 2: 3, 3: 6}[dim] * nPe
    a["_Compute_P_e_pg"] = lambda beamStructure=None: XFe((1, 1, n, n), [Q(1) if i == j else Q(0) for i in range(n) for j in range(n)])
    xs = [(c - lo) * scale for c in nodes]
    return obj, ed, xs, scale, lo


def field(name, deg):
    x = Poly.var("x")
    p = Poly()
    for k in range(deg + 1):
        p = p + Poly.var(f"{name}{k}") * x**k
    return p


def at(p, val):
    """evaluate the field polynomial (variable x) at a Poly/number"""
    return p.subs({"x": val if isinstance(val, Poly) else Poly.const(val)})


def interpret_B(lib, ci, seg, dim, timoshenko):
    repo = lib.repo
    obj, ed, xs, scale, lo = make_obj(lib, ci, seg, dim)
    f = repo.lookup_method(ci, "Get_beam_B_e_pg")
    if f is None:
        raise AnchorMissing(f"{ci.name}.Get_beam_B_e_pg")
    I = Interp(repo, max_steps=2_000_000)
    I.call_hook = fe_hook_full
    bs = SimpleNamespace(dim=dim, dof_n={1: 1, 2: 3, 3: 6}[dim], beams=[])
    B = XArray.from_nested(I.call_function(f, [bs], self_obj=obj))
    return f, B, ed, xs, scale, lo


def dof_vector(dim, xs, F):
    """nodal dofs of the field dict F (keys u v w rx ry rz: Poly in x)"""
    names = {1: ["u"], 2: ["u", "v", "rz"], 3: ["u", "v", "w", "rx", "ry", "rz"]}[dim]
    d = []
    for xa in xs:
        for nm in names:
            d.append(at(F[nm], xa))
    return d


def apply(B, d, row):
    tot = Poly()
    ncol = B.shape[-1]
    for j in range(ncol):
        tot = tot + _to_poly(B[0, 0, row, j]) * d[j]
    return tot


def near_zero(e, Bx, d):
    """zero exactly, or below the binary64 round-off of the decimal table literals (EULER_BERNOULLI4/5 Hermite
    coefficients are 15-digit decimals): |coefficient| <= 64 * 2^-53 * sum |B_kj| |d_j| coefficient mass"""
    from .alg import within_roundoff

    if is_zero(e):
        return True
    if e is None:
        return False
    worst = max((abs(c) for c in e.t.values()), default=0)
    mag = Q(0)
    for b in Bx.data:
        mag += sum((abs(c) for c in _to_poly(b).t.values()), Q(0))
    dm = max((sum((abs(c) for c in x.t.values()), Q(0)) for x in d), default=Q(1))
    return within_roundoff(worst, 0, mag * dm)


def rule(ctx, lib, rid):
    repo = ctx.repo
    r = ctx.rule(rid, "beam strain operators on a straight symbolic element: rigid-body motions have zero strain at every point, and each row is (up to its sign) the strain measure of its row for every representable polynomial field", min_instances=16)
    x = Poly.var("x")
    classes = beam_classes(repo)
    for ci, seg, timo in classes:
        for dim in (1, 2, 3):
            f, B, ed, xs, scale, lo = interpret_B(lib, ci, seg, dim, timo)
            nPe = ed.nPe
            nrows = ({1: 1, 2: 3, 3: 6} if timo else {1: 1, 2: 2, 3: 4})[dim]
            con = f"{ci.qualname}.Get_beam_B_e_pg[dim={dim}]"
            r.instance(fn=con)
            if B.shape != (1, 1, nrows, {1: 1, 2: 3, 3: 6}[dim] * nPe):
                r.fail(con, "shape", f.file, f.lineno, f"{ci.name}.Get_beam_B_e_pg", f"dim {dim}: B has shape {B.shape}, expected (Ne, nPg, {nrows}, dof_n*nPe)")
                continue
            # the reference point as a physical abscissa: x = (xi - lo) * scale  ->  substitute xi = x/scale + lo in B
            xi_of_x = x / scale + Poly.const(lo)
            Bx = XArray(B.shape, [_to_poly(e).subs({"x": xi_of_x}) for e in B.data])
            # ---- rigid-body motions
            a = [Poly.var(f"a{k}") for k in range(3)]
            th = [Poly.var(f"t{k}") for k in range(3)]
            # r = (x, 0, 0): theta x r = (0, t2 x, -t1 x)
            F = dict(u=a[0] + 0 * x, v=a[1] + th[2] * x, w=a[2] - th[1] * x, rx=th[0] + 0 * x, ry=th[1] + 0 * x, rz=th[2] + 0 * x)
            if dim == 1:
                F = dict(u=a[0] + 0 * x)
            d = dof_vector(dim, xs, F)
            bad = [k for k in range(nrows) if not near_zero(apply(Bx, d, k), Bx, d)]
            if bad:
                r.fail(con, "rigid", f.file, f.lineno, f"{ci.name}.Get_beam_B_e_pg", f"dim {dim}: a rigid-body motion (translation a, rotation vector theta) has non-zero strain in row(s) {bad}: e.g. row {bad[0]} = {apply(Bx, d, bad[0])!r}; a physical zero-energy mode is missing from ker K and a non-physical one replaces it")
            else:
                r.ok(f"{ci.name} dim {dim}: rigid motions have zero strain")
            # ---- strain measures
            r.instance(fn=con)
            dl = nPe - 1  # Lagrange degree
            dh = 3  # Hermite: cubic reproduced by every element
            if timo:
                F = {k: field(k, dl) for k in ("u", "v", "w", "rx", "ry", "rz")}
            else:
                F = dict(u=field("u", dl), rx=field("rx", dl), v=field("v", dh), w=field("w", dh))
                F["rz"] = F["v"].diff("x")
                F["ry"] = -F["w"].diff("x")
            D = lambda p: p.diff("x")
            if timo:
                want = {1: [("u'", D(F["u"]))],
                        2: [("u'", D(F["u"])), ("rz'", D(F["rz"])), ("v'-rz", D(F["v"]) - F["rz"])],
                        3: [("u'", D(F["u"])), ("rx'", D(F["rx"])), ("ry'", D(F["ry"])), ("rz'", D(F["rz"])), ("v'-rz", D(F["v"]) - F["rz"]), ("w'+ry", D(F["w"]) + F["ry"])]}[dim]
            else:
                want = {1: [("u'", D(F["u"]))],
                        2: [("u'", D(F["u"])), ("v''", D(D(F["v"])))],
                        3: [("u'", D(F["u"])), ("rx'", D(F["rx"])), ("w''", D(D(F["w"]))), ("v''", D(D(F["v"])))]}[dim]
            if dim == 1:
                F = dict(u=F["u"])
            d = dof_vector(dim, xs, F)
            bad = None
            for k, (nm, w) in enumerate(want):
                got = apply(Bx, d, k)
                if any(near_zero(e, Bx, d) for e in (got - w, got + w)):
                    continue
                bad = (k, nm, got)
                break
            if bad:
                r.fail(con, f"strain-row{bad[0]}", f.file, f.lineno, f"{ci.name}.Get_beam_B_e_pg", f"dim {dim}: row {bad[0]} of B applied to the nodal values of a polynomial field is not +-({bad[1]})")
            else:
                r.ok(f"{ci.name} dim {dim}: rows == +-({', '.join(n for n, _ in want)})")


def interpolation_rule(ctx, lib, rid):
    """The beam shape-function matrix N (consistent loads, mass): applied to the nodal values of a kinematically
    admissible polynomial field it returns, at EVERY point of the element, the field itself: rows (u, v, w, rx, ry, rz)
    with rz = v' and ry = -w' for Euler-Bernoulli elements (Hermite interpolation reproduces cubics), independent
    fields of the Lagrange degree for Timoshenko elements.  Get_beam_N_e_pg is interpreted on a straight symbolic
    element in 1-D, 2-D and 3-D."""
    repo = ctx.repo
    r = ctx.rule(rid, "beam shape-function matrix: N(x) . (nodal values of an admissible polynomial field) == the field at x, row by row (u, v, w, rx, ry = -w', rz = v')", min_instances=16)
    x = Poly.var("x")
    for ci, seg, timo in beam_classes(repo):
        for dim in (1, 2, 3):
            obj, ed, xs, scale, lo = make_obj(lib, ci, seg, dim)
            f = repo.lookup_method(ci, "Get_beam_N_e_pg")
            if f is None:
                raise AnchorMissing(f"{ci.name}.Get_beam_N_e_pg")
            con = f"{ci.qualname}.Get_beam_N_e_pg[dim={dim}]"
            r.instance(fn=con)
            I = Interp(repo, max_steps=2_000_000)
            I.call_hook = fe_hook_full
            dof_n = {1: 1, 2: 3, 3: 6}[dim]
            bs = SimpleNamespace(dim=dim, dof_n=dof_n, beams=[])
            N = XArray.from_nested(I.call_function(f, [bs], self_obj=obj))
            nPe = ed.nPe
            if N.shape != (1, 1, dof_n, dof_n * nPe):
                r.fail(con, "shape", f.file, f.lineno, f"{ci.name}.Get_beam_N_e_pg", f"dim {dim}: N has shape {N.shape}, expected (Ne, nPg, {dof_n}, {dof_n * nPe})")
                continue
            xi_of_x = x / scale + Poly.const(lo)
            Nx = XArray(N.shape, [_to_poly(e).subs({"x": xi_of_x}) for e in N.data])
            dl, dh = nPe - 1, 3
            if timo:
                F = {k: field(k, dl) for k in ("u", "v", "w", "rx", "ry", "rz")}
            else:
                F = dict(u=field("u", dl), rx=field("rx", dl), v=field("v", dh), w=field("w", dh))
                F["rz"] = F["v"].diff("x")
                F["ry"] = -F["w"].diff("x")
            names = {1: ["u"], 2: ["u", "v", "rz"], 3: ["u", "v", "w", "rx", "ry", "rz"]}[dim]
            if dim == 1:
                F = dict(u=F["u"])
            d = dof_vector(dim, xs, F)
            bad = None
            for k, nm in enumerate(names):
                got = apply(Nx, d, k)
                if not near_zero(got - F[nm], Nx, d):
                    bad = (k, nm)
                    break
            if bad:
                r.fail(con, f"row:{bad[1]}", f.file, f.lineno, f"{ci.name}.Get_beam_N_e_pg", f"dim {dim}: row {bad[0]} of N applied to the nodal values of an admissible polynomial field is not the field {bad[1]}(x) (with ry = -w', rz = v'): consistent nodal loads and the mass matrix use a different interpolation than the stiffness")
            else:
                r.ok(f"{ci.name} dim {dim}: N reproduces ({', '.join(names)})")


def operator_frame_rule(ctx, lib, rid):
    """'a member gives the same response in its own axes whatever its inclination': every operator a beam group hands
    out in GLOBAL dofs (shape functions N, strain operator B, shear-recovery operator) is the operator written in the
    axes of the member times the frame block of `_Compute_P_e_pg`, in the plane and in space.  Each operator is
    interpreted twice on the same element - with the frame block of an aligned member (identity) and with a fully
    symbolic block - and the two results must satisfy  M[P] == M[identity] @ P  entry by entry."""
    repo = ctx.repo
    r = ctx.rule(rid, "beam operators in global dofs: N, B and the shear-recovery operator interpreted with a symbolic frame block P equal (the operator of the aligned member) @ P, for plane and space frames", min_instances=16)
    for ci, seg, timo in beam_classes(repo):
        for dim in (2, 3):
            dof_n = {2: 3, 3: 6}[dim]
            for op in ("Get_beam_N_e_pg", "Get_beam_B_e_pg", "Get_beam_shear_B_e_pg"):
                f = repo.lookup_method(ci, op)
                if f is None:
                    if op == "Get_beam_shear_B_e_pg":
                        continue
                    raise AnchorMissing(f"{ci.name}.{op}")
                con = f"{ci.qualname}.{op}[dim={dim}]"
                r.instance(fn=con)
                res = []
                for symbolic in (False, True):
                    obj, ed, xs, scale, lo = make_obj(lib, ci, seg, dim)
                    n = dof_n * ed.nPe
                    if symbolic:
                        Pb = [[Poly.var(f"P{a}_{b}") for b in range(n)] for a in range(n)]
                        obj.attrs["_Compute_P_e_pg"] = lambda beamStructure=None, Pb=Pb, n=n: XFe((1, 1, n, n), [Pb[a][b] for a in range(n) for b in range(n)])
                    I = Interp(repo, max_steps=4_000_000)
                    I.call_hook = fe_hook_full
                    bs = SimpleNamespace(dim=dim, dof_n=dof_n, beams=[])
                    try:
                        out = I.call_function(f, [bs], self_obj=obj)
                    except XRaise as e:
                        out = e
                    res.append(out)
                M0, M1 = res
                if isinstance(M0, XRaise) or isinstance(M1, XRaise):
                    r.fail(con, "raises", f.file, f.lineno, f"{ci.name}.{op}", f"dim {dim}: raises {M0 if isinstance(M0, XRaise) else M1}")
                    continue
                if M0 is None and M1 is None:
                    r.ok(f"{ci.name}.{op} dim {dim}: not provided")
                    continue
                M0, M1 = XArray.from_nested(M0), XArray.from_nested(M1)
                rows = M0.shape[-2]
                bad = None
                if M0.shape != M1.shape or M0.shape[-1] != n:
                    bad = f"shapes {M0.shape} / {M1.shape}"
                else:
                    for a in range(rows):
                        for b in range(n):
                            want = sum((_to_poly(M0[0, 0, a, c]) * Pb[c][b] for c in range(n)), Poly())
                            if bad is None and not is_zero(_to_poly(M1[0, 0, a, b]) - want):
                                bad = f"entry [{a}, {b}] is {M1[0, 0, a, b]!r}, expected {want!r}"
                if bad:
                    r.fail(con, "frame", f.file, f.lineno, f"{ci.name}.{op}", f"dim {dim}: with a symbolic frame block P the operator is not (operator of the aligned member) @ P: {bad}: the dofs of an inclined member are read as if they were written in its own axes")
                else:
                    r.ok(f"{ci.name}.{op} dim {dim}: M[P] == M[I] @ P ({rows} x {n})")
