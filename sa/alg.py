"""E3 -- exact algebra used by the static checkers.

* ``MQ``      numbers of the multiquadratic field Q(sqrt 2, sqrt 3, sqrt 5, ...):
              finite sums  sum_d c_d * sqrt(d)  over square-free d >= 1, exact
              arithmetic, exact zero test, exact sign (interval refinement).
* ``Poly``    multivariate polynomials, coefficients Fraction or MQ.
* ``Rat``     rational functions Poly/Poly, equality by cross multiplication.
* ``Lin``     linear forms  sum_k coef_k * atom_k  (atoms are opaque strings).

Only the standard library is used.  Nothing here looks at the repository.
"""

from __future__ import annotations

from fractions import Fraction
from math import gcd, isqrt
from itertools import product as _iproduct

Q = Fraction


class AlgError(Exception):
    pass


# --------------------------------------------------------------------------
# exact conversion of literals
# --------------------------------------------------------------------------


def to_q(x):
    """Exact rational for an int / float literal / Fraction."""
    if isinstance(x, bool):
        return Q(int(x))
    if isinstance(x, int):
        return Q(x)
    if isinstance(x, Fraction):
        return x
    if isinstance(x, float):
        # the shortest repr of the float is the decimal literal that was typed
        return Q(repr(x))
    raise AlgError(f"not a rational literal: {x!r}")


# --------------------------------------------------------------------------
# multiquadratic numbers
# --------------------------------------------------------------------------


_TRIAL_BOUND = 200_000


def _squarefree_split(n: int):
    """n = s*s*d with d square-free; returns (s, d).  Trial division is bounded: a cofactor beyond the bound that is
    neither a perfect square nor provably prime is outside the domain (AlgError), never an endless loop."""
    import math

    assert n > 0
    r = math.isqrt(n)
    if r * r == n:
        return r, 1
    s, d, p = 1, 1, 2
    while p * p <= n and p <= _TRIAL_BOUND:
        while n % (p * p) == 0:
            n //= p * p
            s *= p
        if n % p == 0:
            n //= p
            d *= p
        p += 1
    if n > 1:
        r = math.isqrt(n)
        if r * r == n:
            s *= r
        elif n <= _TRIAL_BOUND * _TRIAL_BOUND:
            d *= n  # no factor below its square root: prime
        else:
            raise AlgError(f"square root of an integer with an unfactored part of {len(str(n))} digits is outside the exact domain")
    return s, d


def _primes_of(d: int):
    out, p = [], 2
    while p * p <= d and p <= _TRIAL_BOUND:
        if d % p == 0:
            out.append(p)
            while d % p == 0:
                d //= p
        p += 1
    if d > 1:
        if d > _TRIAL_BOUND * _TRIAL_BOUND:
            raise AlgError(f"an integer with an unfactored part of {len(str(d))} digits is outside the exact domain")
        out.append(d)
    return out


class MQ:
    """sum_d c_d sqrt(d), d square-free positive integers, c_d in Q."""

    __slots__ = ("t",)

    def __init__(self, terms=None):
        t = {}
        if terms:
            for d, c in terms.items():
                if c != 0:
                    t[d] = Q(c)
        self.t = t

    # -- construction -------------------------------------------------------
    @staticmethod
    def of(x):
        if isinstance(x, MQ):
            return x
        return MQ({1: to_q(x)})

    @staticmethod
    def sqrt(x):
        """Exact square root of a non-negative rational (as MQ), or of an MQ
        that is a rational."""
        if isinstance(x, MQ):
            if not x.is_rational():
                raise AlgError("sqrt of an irrational number is outside the domain")
            x = x.rational()
        x = to_q(x)
        if x < 0:
            raise AlgError("sqrt of a negative number")
        if x == 0:
            return MQ()
        # sqrt(p/q) = sqrt(p*q)/q
        n = x.numerator * x.denominator
        s, d = _squarefree_split(n)
        return MQ({d: Q(s, x.denominator)})

    # -- predicates ---------------------------------------------------------
    def is_zero(self):
        return not self.t

    def is_rational(self):
        return all(d == 1 for d in self.t)

    def rational(self):
        if not self.is_rational():
            raise AlgError("not rational")
        return self.t.get(1, Q(0))

    def __bool__(self):
        return bool(self.t)

    def __eq__(self, o):
        if isinstance(o, (int, Fraction, float)):
            o = MQ.of(o)
        if not isinstance(o, MQ):
            return NotImplemented
        return self.t == o.t

    def __hash__(self):
        if self.is_rational():
            return hash(self.rational())
        return hash(tuple(sorted(self.t.items())))

    # -- arithmetic ---------------------------------------------------------
    def __neg__(self):
        return MQ({d: -c for d, c in self.t.items()})

    def __pos__(self):
        return self

    def __add__(self, o):
        if isinstance(o, (int, Fraction, float)):
            o = MQ.of(o)
        if not isinstance(o, MQ):
            return NotImplemented
        t = dict(self.t)
        for d, c in o.t.items():
            t[d] = t.get(d, 0) + c
        return MQ(t)

    __radd__ = __add__

    def __sub__(self, o):
        if isinstance(o, (int, Fraction, float)):
            o = MQ.of(o)
        if not isinstance(o, MQ):
            return NotImplemented
        return self + (-o)

    def __rsub__(self, o):
        return (-self) + o

    def __mul__(self, o):
        if isinstance(o, (int, Fraction, float)):
            o = to_q(o)
            return MQ({d: c * o for d, c in self.t.items()})
        if not isinstance(o, MQ):
            return NotImplemented
        t = {}
        for d1, c1 in self.t.items():
            for d2, c2 in o.t.items():
                g = gcd(d1, d2)
                d = (d1 // g) * (d2 // g)
                t[d] = t.get(d, 0) + c1 * c2 * g
        return MQ(t)

    __rmul__ = __mul__

    def conj(self, p):
        """Automorphism sqrt(p) -> -sqrt(p) for a prime p."""
        return MQ({d: (-c if d % p == 0 else c) for d, c in self.t.items()})

    def inverse(self):
        if self.is_zero():
            raise ZeroDivisionError("MQ division by zero")
        num = MQ({1: 1})
        den = self
        # eliminate primes one by one: den * conj_p(den) lies in the subfield
        # fixed by conj_p
        while not den.is_rational():
            primes = sorted({p for d in den.t for p in _primes_of(d)})
            p = primes[-1]
            c = den.conj(p)
            num = num * c
            den = den * c
        return num * (1 / den.rational())

    def __truediv__(self, o):
        if isinstance(o, (int, Fraction, float)):
            o = to_q(o)
            return MQ({d: c / o for d, c in self.t.items()})
        if not isinstance(o, MQ):
            return NotImplemented
        return self * o.inverse()

    def __rtruediv__(self, o):
        return MQ.of(o) * self.inverse()

    def __pow__(self, n):
        if isinstance(n, Fraction) and n.denominator == 1:
            n = int(n)
        if isinstance(n, MQ) and n.is_rational() and n.rational().denominator == 1:
            n = int(n.rational())
        if isinstance(n, Fraction) and n == Q(1, 2):
            return MQ.sqrt(self)
        if not isinstance(n, int):
            raise AlgError(f"MQ ** {n!r} unsupported")
        if n < 0:
            return self.inverse() ** (-n)
        r, b = MQ({1: 1}), self
        while n:
            if n & 1:
                r = r * b
            b = b * b
            n >>= 1
        return r

    # -- order --------------------------------------------------------------
    def _interval(self, prec):
        """Rational enclosure [lo, hi] using integer square roots scaled by
        10**prec."""
        lo = hi = Q(0)
        S = 10**prec
        for d, c in self.t.items():
            if d == 1:
                lo += c
                hi += c
                continue
            r = isqrt(d * S * S)
            a, b = Q(r, S), Q(r + 1, S)
            if c > 0:
                lo += c * a
                hi += c * b
            else:
                lo += c * b
                hi += c * a
        return lo, hi

    def sign(self):
        if self.is_zero():
            return 0
        if self.is_rational():
            r = self.rational()
            return (r > 0) - (r < 0)
        prec = 20
        while True:
            lo, hi = self._interval(prec)
            if lo > 0:
                return 1
            if hi < 0:
                return -1
            prec *= 2
            if prec > 20000:
                raise AlgError("sign undecided")

    def __lt__(self, o):
        return (self - o).sign() < 0

    def __le__(self, o):
        return (self - o).sign() <= 0

    def __gt__(self, o):
        return (self - o).sign() > 0

    def __ge__(self, o):
        return (self - o).sign() >= 0

    def __abs__(self):
        return self if self.sign() >= 0 else -self

    def __float__(self):
        lo, hi = self._interval(30)
        return float((lo + hi) / 2)

    def approx(self, prec=40):
        lo, hi = self._interval(prec)
        return (lo + hi) / 2

    def __repr__(self):
        if not self.t:
            return "0"
        parts = []
        for d in sorted(self.t):
            c = self.t[d]
            parts.append(f"{c}" if d == 1 else f"{c}*sqrt({d})")
        return "(" + " + ".join(parts) + ")"


def is_zero(x):
    if isinstance(x, (int, Fraction)):
        return x == 0
    if isinstance(x, float):
        return x == 0.0
    if isinstance(x, MQ):
        return x.is_zero()
    if isinstance(x, (Poly, Rat, Lin)):
        return x.is_zero()
    if hasattr(x, "is_zero"):
        return x.is_zero()
    raise AlgError(f"is_zero of {type(x).__name__}")


def _num(x):
    """Normalise a scalar coefficient (Fraction, or MQ when irrational)."""
    if isinstance(x, MQ):
        if x.is_rational():
            return x.rational()
        return x
    return to_q(x)


def is_scalar(x):
    return isinstance(x, (int, Fraction, float, MQ))


# --------------------------------------------------------------------------
# polynomials
# --------------------------------------------------------------------------


class Poly:
    """Multivariate polynomial: dict {monomial: coef}; a monomial is a sorted
    tuple of (var, exp)."""

    __slots__ = ("t",)

    def __init__(self, terms=None):
        t = {}
        if terms:
            for m, c in terms.items():
                if not is_zero(c):
                    t[m] = _num(c)
        self.t = t

    @staticmethod
    def var(name):
        return Poly({((name, 1),): Q(1)})

    @staticmethod
    def const(c):
        return Poly({(): _num(c)})

    @staticmethod
    def of(x):
        if isinstance(x, Poly):
            return x
        return Poly.const(x)

    def is_zero(self):
        return not self.t

    def is_const(self):
        return all(m == () for m in self.t)

    def const_value(self):
        if not self.is_const():
            raise AlgError("polynomial is not constant")
        return self.t.get((), Q(0))

    def vars(self):
        return sorted({v for m in self.t for v, _ in m})

    def degree(self, var=None):
        if not self.t:
            return -1
        if var is None:
            return max(sum(e for _, e in m) for m in self.t)
        return max((dict(m).get(var, 0) for m in self.t), default=0)

    def __eq__(self, o):
        if is_scalar(o):
            o = Poly.const(o)
        if not isinstance(o, Poly):
            return NotImplemented
        return (self - o).is_zero()

    def __hash__(self):
        return hash(tuple(sorted((m, repr(c)) for m, c in self.t.items())))

    def __neg__(self):
        return Poly({m: -c for m, c in self.t.items()})

    def __pos__(self):
        return self

    def __add__(self, o):
        if is_scalar(o):
            o = Poly.const(o)
        if not isinstance(o, Poly):
            return NotImplemented
        t = dict(self.t)
        for m, c in o.t.items():
            t[m] = t[m] + c if m in t else c
        return Poly(t)

    __radd__ = __add__

    def __sub__(self, o):
        if is_scalar(o):
            o = Poly.const(o)
        if not isinstance(o, Poly):
            return NotImplemented
        return self + (-o)

    def __rsub__(self, o):
        return (-self) + o

    @staticmethod
    def _mmul(m1, m2):
        if not m1:
            return m2
        if not m2:
            return m1
        d = dict(m1)
        for v, e in m2:
            d[v] = d.get(v, 0) + e
        return tuple(sorted(d.items()))

    def __mul__(self, o):
        if is_scalar(o):
            o = _num(o)
            return Poly({m: c * o for m, c in self.t.items()})
        if not isinstance(o, Poly):
            return NotImplemented
        t = {}
        for m1, c1 in self.t.items():
            for m2, c2 in o.t.items():
                m = Poly._mmul(m1, m2)
                p = c1 * c2
                t[m] = t[m] + p if m in t else p
        return Poly(t)

    __rmul__ = __mul__

    def __truediv__(self, o):
        if isinstance(o, Poly):
            if o.is_const():
                o = o.const_value()
            else:
                return Rat(self, o)
        if is_scalar(o):
            o = _num(o)
            if is_zero(o):
                raise ZeroDivisionError("Poly / 0")
            inv = 1 / o
            return Poly({m: c * inv for m, c in self.t.items()})
        return NotImplemented

    def __rtruediv__(self, o):
        if self.is_const():
            return Poly.const(_num(o) / self.const_value())
        return Rat(Poly.of(o), self)

    def __pow__(self, n):
        if isinstance(n, Poly) and n.is_const():
            n = n.const_value()
        if isinstance(n, Fraction) and n.denominator == 1:
            n = int(n)
        if isinstance(n, MQ) and n.is_rational():
            n = n.rational()
            if n.denominator == 1:
                n = int(n)
        if not isinstance(n, int):
            if self.is_const():
                c = self.const_value()
                if isinstance(n, Fraction) and n == Q(1, 2):
                    return Poly.const(MQ.sqrt(c))
            if isinstance(n, Fraction) and len(self.t) == 1:
                (m, c), = self.t.items()
                if c == 1 and all((e * n).denominator == 1 for _, e in m):
                    mm = tuple((v, int(e * n)) for v, e in m)
                    if all(e > 0 for _, e in mm):
                        return Poly({mm: Q(1)})
                    return Rat(Poly.const(1), Poly({tuple((v, -e) for v, e in mm): Q(1)}))
            raise AlgError(f"Poly ** {n!r} unsupported")
        if n < 0:
            return Rat(Poly.const(1), self ** (-n))
        r, b = Poly.const(1), self
        while n:
            if n & 1:
                r = r * b
            b = b * b
            n >>= 1
        return r

    def diff(self, var):
        t = {}
        for m, c in self.t.items():
            d = dict(m)
            e = d.get(var, 0)
            if e == 0:
                continue
            if e == 1:
                del d[var]
            else:
                d[var] = e - 1
            mm = tuple(sorted(d.items()))
            t[mm] = t.get(mm, 0) + c * e
        return Poly(t)

    def subs(self, env):
        """Substitute variables by scalars or polynomials."""
        out = Poly()
        for m, c in self.t.items():
            term = Poly.const(c)
            for v, e in m:
                if v in env:
                    val = env[v]
                    if not isinstance(val, Poly):
                        val = Poly.const(val)
                    term = term * (val**e)
                else:
                    term = term * Poly({((v, e),): Q(1)})
            out = out + term
        return out

    def eval(self, env):
        """Evaluate at scalars; every variable must be bound."""
        tot = Q(0)
        for m, c in self.t.items():
            term = c
            for v, e in m:
                term = term * (env[v] ** e)
            tot = tot + term
        return _num(tot)

    def coeff(self, mono):
        return self.t.get(mono, Q(0))

    def monomials(self):
        return list(self.t)

    def __repr__(self):
        if not self.t:
            return "0"
        parts = []
        for m in sorted(self.t, key=lambda m: (sum(e for _, e in m), m)):
            c = self.t[m]
            ms = "*".join(v if e == 1 else f"{v}^{e}" for v, e in m)
            parts.append(f"{c}" if not ms else (ms if c == 1 else f"{c}*{ms}"))
        return " + ".join(parts)


U_ROUND = Q(1, 2**53)
ROUNDOFF_FACTOR = 64


def abs_eval(p: "Poly", env):
    """sum_m |c_m| prod |x_i|^e_i : the magnitude that bounds the binary64
    evaluation error of the polynomial at the point env."""
    tot = Q(0)
    for m, c in p.t.items():
        term = abs(c) if not isinstance(c, MQ) else abs(c).approx()
        for v, e in m:
            x = env[v]
            x = abs(x) if not isinstance(x, MQ) else abs(x).approx()
            term = term * x**e
        tot = tot + term
    return tot


def within_roundoff(got, want, magnitude):
    """True when |got - want| is below the a-priori rounding-error bound
    64 * 2^-53 * magnitude of evaluating the expression in binary64: such a
    deviation is not observable in the running program (typed decimal
    approximations of rational coefficients)."""
    d = got - want
    if isinstance(d, MQ):
        d = d.approx()
    mag = magnitude if not isinstance(magnitude, MQ) else magnitude.approx()
    return abs(d) <= ROUNDOFF_FACTOR * U_ROUND * mag


# --------------------------------------------------------------------------
# rational functions
# --------------------------------------------------------------------------


class Rat:
    """num/den with polynomial num, den (not reduced); equality by cross
    multiplication."""

    __slots__ = ("n", "d")

    def __init__(self, n, d=None):
        n = Poly.of(n) if not isinstance(n, Rat) else n
        if d is None:
            d = Poly.const(1)
        d = Poly.of(d) if not isinstance(d, Rat) else d
        if isinstance(n, Rat) or isinstance(d, Rat):
            r = Rat.of(n) / Rat.of(d)
            n, d = r.n, r.d
        if d.is_zero():
            raise ZeroDivisionError("Rat with zero denominator")
        if d.is_const():
            n = n / d.const_value()
            d = Poly.const(1)
        self.n, self.d = n, d

    @staticmethod
    def of(x):
        if isinstance(x, Rat):
            return x
        return Rat(Poly.of(x))

    def is_zero(self):
        return self.n.is_zero()

    def is_poly(self):
        return self.d.is_const()

    def as_poly(self):
        if not self.d.is_const():
            raise AlgError("not a polynomial")
        return self.n / self.d.const_value()

    def __eq__(self, o):
        if is_scalar(o) or isinstance(o, Poly):
            o = Rat.of(o)
        if not isinstance(o, Rat):
            return NotImplemented
        return (self.n * o.d - o.n * self.d).is_zero()

    def __hash__(self):
        return 0

    def __neg__(self):
        return Rat(-self.n, self.d)

    def __pos__(self):
        return self

    def __add__(self, o):
        if is_scalar(o) or isinstance(o, Poly):
            o = Rat.of(o)
        if not isinstance(o, Rat):
            return NotImplemented
        if self.d == o.d:
            return Rat(self.n + o.n, self.d)
        return Rat(self.n * o.d + o.n * self.d, self.d * o.d)

    __radd__ = __add__

    def __sub__(self, o):
        if is_scalar(o) or isinstance(o, Poly):
            o = Rat.of(o)
        if not isinstance(o, Rat):
            return NotImplemented
        return self + (-o)

    def __rsub__(self, o):
        return (-self) + o

    def __mul__(self, o):
        if is_scalar(o) or isinstance(o, Poly):
            o = Rat.of(o)
        if not isinstance(o, Rat):
            return NotImplemented
        return Rat(self.n * o.n, self.d * o.d)

    __rmul__ = __mul__

    def __truediv__(self, o):
        if is_scalar(o) or isinstance(o, Poly):
            o = Rat.of(o)
        if not isinstance(o, Rat):
            return NotImplemented
        if o.n.is_zero():
            raise ZeroDivisionError("Rat / 0")
        return Rat(self.n * o.d, self.d * o.n)

    def __rtruediv__(self, o):
        return Rat.of(o) / self

    def __pow__(self, n):
        if isinstance(n, Fraction) and n.denominator == 1:
            n = int(n)
        if not isinstance(n, int):
            raise AlgError(f"Rat ** {n!r} unsupported")
        if n < 0:
            return Rat(self.d ** (-n), self.n ** (-n))
        return Rat(self.n**n, self.d**n)

    def subs(self, env):
        n, d = self.n.subs(env), self.d.subs(env)
        if isinstance(n, Rat) or isinstance(d, Rat):
            return Rat.of(n) / Rat.of(d)
        return Rat(n, d)

    def diff(self, var):
        return Rat(self.n.diff(var) * self.d - self.n * self.d.diff(var), self.d * self.d)

    def denominators(self):
        return self.d

    def __repr__(self):
        if self.d.is_const():
            return repr(self.n)
        return f"({self.n!r}) / ({self.d!r})"


def as_rat(x):
    return Rat.of(x)


# --------------------------------------------------------------------------
# linear forms over opaque atoms
# --------------------------------------------------------------------------


class Lin:
    """sum_k coef_k * atom_k.  Coefficients: scalars, Poly or Rat.  The atom
    ``1`` (the string '1') carries the constant part when needed."""

    __slots__ = ("t",)

    def __init__(self, terms=None):
        t = {}
        if terms:
            for a, c in terms.items():
                if not is_zero(c):
                    t[a] = c
        self.t = t

    @classmethod
    def atom(cls, name):
        return cls({name: Q(1)})

    def is_zero(self):
        return not self.t

    def coef(self, atom):
        return self.t.get(atom, Q(0))

    def atoms(self):
        return sorted(self.t)

    def __eq__(self, o):
        if not isinstance(o, Lin):
            if is_scalar(o) and is_zero(o):
                return self.is_zero()
            return NotImplemented
        return (self - o).is_zero()

    def __hash__(self):
        return 0

    def __neg__(self):
        return self.__class__({a: -c for a, c in self.t.items()})

    def __pos__(self):
        return self

    def __add__(self, o):
        if is_scalar(o) and is_zero(o):
            return self
        if not isinstance(o, Lin):
            return NotImplemented
        t = dict(self.t)
        for a, c in o.t.items():
            t[a] = t[a] + c if a in t else c
        return self.__class__(t)

    __radd__ = __add__

    def __sub__(self, o):
        if is_scalar(o) and is_zero(o):
            return self
        if not isinstance(o, Lin):
            return NotImplemented
        return self + (-o)

    def __rsub__(self, o):
        return (-self) + o

    def __mul__(self, o):
        if isinstance(o, Lin):
            raise AlgError("product of two linear forms")
        return self.__class__({a: c * o for a, c in self.t.items()})

    __rmul__ = __mul__

    def __truediv__(self, o):
        if isinstance(o, Lin):
            raise AlgError("division by a linear form")
        return self.__class__({a: c / o for a, c in self.t.items()})

    def map_atoms(self, f):
        """f(atom) -> Lin or atom name; builds the image form."""
        out = Lin()
        for a, c in self.t.items():
            img = f(a)
            if not isinstance(img, Lin):
                img = Lin.atom(img)
            out = out + img * c
        return out

    def __repr__(self):
        if not self.t:
            return "0"
        return " + ".join(f"[{c!r}]*{a}" for a, c in sorted(self.t.items(), key=lambda kv: str(kv[0])))


# --------------------------------------------------------------------------
# reference integrals of monomials
# --------------------------------------------------------------------------


def _fact(n):
    r = 1
    for i in range(2, n + 1):
        r *= i
    return r


def integral_monomial(shape: str, exps):
    """Exact integral of prod x_k^e_k over the reference element of EasyFEA:
    SEG [-1,1]; TRI {r,s>=0, r+s<=1}; QUAD [-1,1]^2; TETRA unit simplex;
    HEXA [-1,1]^3; PRISM {x,y>=0,x+y<=1} x z in [-1,1]."""

    def seg(e):
        return Q(0) if e % 2 else Q(2, e + 1)

    if shape == "SEG":
        (a,) = exps
        return seg(a)
    if shape == "QUAD":
        a, b = exps
        return seg(a) * seg(b)
    if shape == "HEXA":
        a, b, c = exps
        return seg(a) * seg(b) * seg(c)
    if shape == "TRI":
        a, b = exps
        return Q(_fact(a) * _fact(b), _fact(a + b + 2))
    if shape == "TETRA":
        a, b, c = exps
        return Q(_fact(a) * _fact(b) * _fact(c), _fact(a + b + c + 3))
    if shape == "PRISM":
        a, b, c = exps
        return Q(_fact(a) * _fact(b), _fact(a + b + 2)) * seg(c)
    raise AlgError(f"unknown shape {shape}")


def integrate_poly(shape: str, p: Poly, varnames):
    tot = Q(0)
    for m, c in p.t.items():
        d = dict(m)
        extra = set(d) - set(varnames)
        if extra:
            raise AlgError(f"free variables {extra} in integrand")
        tot = tot + c * integral_monomial(shape, [d.get(v, 0) for v in varnames])
    return _num(tot)


def monomials_upto(nvars, deg, total=True):
    """Exponent tuples: total degree <= deg (total=True) or max degree <= deg."""
    out = []
    for e in _iproduct(range(deg + 1), repeat=nvars):
        if total and sum(e) > deg:
            continue
        out.append(e)
    return out


# --------------------------------------------------------------------------
# exact linear algebra (rank) over a field with exact zero test
# --------------------------------------------------------------------------


def rank(rows):
    """Rank by fraction-free-ish Gaussian elimination over Fraction / MQ."""
    rows = [list(r) for r in rows]
    if not rows:
        return 0
    ncol = len(rows[0])
    rk, r = 0, 0
    for c in range(ncol):
        piv = None
        for i in range(r, len(rows)):
            if not is_zero(rows[i][c]):
                piv = i
                break
        if piv is None:
            continue
        rows[r], rows[piv] = rows[piv], rows[r]
        pv = rows[r][c]
        inv = 1 / pv
        prow = [x * inv for x in rows[r]]
        rows[r] = prow
        for i in range(r + 1, len(rows)):
            f = rows[i][c]
            if not is_zero(f):
                ri = rows[i]
                rows[i] = [a - f * b for a, b in zip(ri, prow)]
        r += 1
        rk += 1
        if r == len(rows):
            break
    return rk
