"""C15 -- saved iterations and saved simulations: writer/reader agreement,
purity of reads, no aliasing between history and live state, pinning, pickle
tuple order, Result(iter=) restores first."""

from __future__ import annotations

import ast

from ..flow import CallGraph, self_stores, self_reads
from ..repo import AnalysisError, dotted, norm_text, walk_no_nested

SIMU = "EasyFEA.Simulations._simu._Simu"
GE = "EasyFEA.FEM._group_elem._GroupElem"
MESH = "EasyFEA.FEM._mesh"


def literal_keys_stored(f, dictname="iter"):
    out = {}
    for n in ast.walk(f.node):
        if isinstance(n, ast.Assign):
            for t in n.targets:
                if isinstance(t, ast.Subscript) and isinstance(t.value, ast.Name) and t.value.id == dictname:
                    if isinstance(t.slice, ast.Constant) and isinstance(t.slice.value, str):
                        out[t.slice.value] = n
                    else:
                        out["<dynamic:" + norm_text(t.slice) + ">"] = n
    return out


def literal_keys_read(f, dictname="results"):
    out = {}
    for n in ast.walk(f.node):
        if isinstance(n, ast.Subscript) and isinstance(n.value, ast.Name) and n.value.id == dictname and isinstance(n.ctx, ast.Load):
            if isinstance(n.slice, ast.Constant) and isinstance(n.slice.value, str):
                out[n.slice.value] = (n, True)
            else:
                out["<dynamic:" + norm_text(n.slice) + ">"] = (n, True)
        if isinstance(n, ast.Call) and isinstance(n.func, ast.Attribute) and n.func.attr == "get" and isinstance(n.func.value, ast.Name) and n.func.value.id == dictname and n.args and isinstance(n.args[0], ast.Constant):
            out[n.args[0].value] = (n, False)
    return out


def _tainted_names(fnode, seeds):
    """local names whose value may derive from the seed names (fixpoint over assignments, for-targets, with-targets,
    augmented assignments, stores into a local container `x[k] = v`, `x.append(v)` / update / extend / add)"""
    tainted = set(seeds)

    def names(e):
        return {x.id for x in ast.walk(e) if isinstance(x, ast.Name)}

    def base(t):
        while isinstance(t, (ast.Subscript, ast.Attribute, ast.Starred)):
            t = t.value
        return t.id if isinstance(t, ast.Name) else None

    changed = True
    while changed:
        changed = False
        for n in ast.walk(fnode):
            tgts, val = [], None
            if isinstance(n, ast.Assign):
                tgts, val = n.targets, n.value
            elif isinstance(n, (ast.AugAssign, ast.AnnAssign)) and n.value is not None:
                tgts, val = [n.target], n.value
            elif isinstance(n, (ast.For, ast.comprehension)):
                tgts, val = [n.target], n.iter
            elif isinstance(n, ast.withitem) and n.optional_vars is not None:
                tgts, val = [n.optional_vars], n.context_expr
            elif isinstance(n, ast.Call) and isinstance(n.func, ast.Attribute) and n.func.attr in ("append", "update", "extend", "add", "setdefault", "insert") and isinstance(n.func.value, ast.Name):
                if any(tainted & names(a) for a in list(n.args) + [k.value for k in n.keywords]) and n.func.value.id not in tainted:
                    tainted.add(n.func.value.id)
                    changed = True
                continue
            if val is None or not (tainted & names(val)):
                continue
            for t in tgts:
                for el in (t.elts if isinstance(t, (ast.Tuple, ast.List)) else [t]):
                    b = base(el)
                    if b and b != "self" and b not in tainted:
                        tainted.add(b)
                        changed = True
    return tainted


def run(ctx):
    from . import c19 as _c19s

    # internal variables of a restored iteration: the committed-state round trip of the InElastic simulation
    ctx.attempt(_c19s.committed_state_roundtrip_rule, ctx, 'R15.19')
    from . import e2e_rules as _e2e

    ctx.attempt(_e2e.iterations_rule, ctx, 'R15.E1')
    # a damage analysis: going back to iteration k brings back damage, displacement and (split-free model) the strain energy
    ctx.attempt(_e2e.phasefield_rule, ctx, 'R15.E2')
    ctx.attempt(save_restore_round_trip_rule, ctx)
    from . import c17 as _c17

    # 'brings back exactly the ... internal variables that were current when iteration i was saved': the history field of the damage problem
    ctx.attempt(_c17.history_protocol_rule, ctx, "R15.17")
    from ..shared import dump_complete_rule as _dump_complete_rule

    # 'written to disk ... brings back exactly': what is pickled is the finished object
    ctx.attempt(_dump_complete_rule, ctx, "R15.18", lambda f: f.qualname.startswith("EasyFEA."), 2)
    from ..shared import mutable_default_rule as _mutable_default_rule

    # 'later solves never alter stored iterations' / 'fields ... that were current when iteration i was saved': nothing a
    # simulation saves lives in an object shared with other calls or other simulations
    ctx.attempt(_mutable_default_rule, ctx, "R15.15", lambda f: f.module.name.startswith(("EasyFEA.Simulations", "EasyFEA.Models")), 1)
    from ..shared import commit_idempotent_rule as _commit_idempotent_rule

    ctx.attempt(_commit_idempotent_rule, ctx, "R15.12")
    from ..shared import state_alias_rule as _state_alias_rule

    ctx.attempt(_state_alias_rule, ctx, "R15.10", scope=lambda f, _s=("EasyFEA.Simulations", "EasyFEA.FEM._mesh"): f.module.name.startswith(_s), min_instances=100)
    # 'reading a stored iteration never alters the simulation' and restores exactly iteration i: no memo of what was read survives a later save
    from ..shared import memo_rule as _memo_rule, cached_param_rule as _cached_param_rule

    _scope = ("EasyFEA.Simulations",)
    ctx.attempt(_memo_rule, ctx, "R15.8", scope=lambda f: f.module.name.startswith(_scope), min_instances=0)
    ctx.attempt(_cached_param_rule, ctx, "R15.9", min_instances=20)
    repo = ctx.repo
    ctx.level = "other"
    ctx.explanation = (
        "Decided structurally for every _Simu subclass: the literal keys Set_Iter reads are keys Save_Iter stores; every attribute Save_Iter commits is restored by Set_Iter from the "
        "stored dict; Get_results and its callees store nothing on the simulation and do not read self.folder (pinning); values put in an iteration dict are fresh copies and no code "
        "writes the live solution arrays in place (so stored arrays that flow back uncopied stay intact); Mesh.Save / Load_Mesh agree on tuple order by parameter provenance; every "
        "Result override restores the requested iteration first. NOT decided: equality of restored numbers, file-system behaviour, MPI merges."
    )
    cg = CallGraph(repo)
    simu = repo.cls(SIMU)
    subs = [c for c in repo.subclasses(simu) if "Save_Iter" in c.methods and c.methods["Save_Iter"].cls is c]

    r1 = ctx.rule("R15.1", "writer/reader agreement per simulation class: keys read by Set_Iter are stored by Save_Iter; attributes committed in Save_Iter are restored by Set_Iter from the stored dict", min_instances=7)
    base_save = literal_keys_stored(simu.methods["Save_Iter"])
    for ci in subs:
        fs, fr = ci.methods["Save_Iter"], ci.methods.get("Set_Iter")
        r1.instance(fn=fs.qualname)
        if fr is None or fr.cls is not ci:
            r1.fail(ci.qualname, "no-reader", ci.file, fs.lineno, f"{ci.name}", "Save_Iter is overridden but Set_Iter is not")
            continue
        stored = dict(base_save)
        stored.update(literal_keys_stored(fs))
        read = literal_keys_read(fr)
        dyn_stored = [k for k in stored if k.startswith("<dynamic")]
        missing = [k for k, (n, hard) in read.items() if hard and not k.startswith("<dynamic") and k not in stored and not dyn_stored]
        if missing:
            n = read[missing[0]][0]
            r1.fail(fr.qualname, f"key:{missing[0]}", fr.file, n.lineno, f"{ci.name}.Set_Iter", f"reads results['{missing[0]}'] but {ci.name}.Save_Iter stores only {sorted(k for k in stored if not k.startswith('<'))}")
        else:
            r1.ok(f"{ci.name}: Set_Iter reads {sorted(k for k in read if not k.startswith('<'))} subset of stored {sorted(k for k in stored if not k.startswith('<'))}")
        # attributes committed in Save_Iter
        committed = {}
        for a, n, kind in self_stores(fs):
            committed.setdefault(a, n)
        restored = {}
        for a, n, kind in self_stores(fr):
            restored.setdefault(a, []).append(n)
        for a, n in committed.items():
            r1.instance(fn=fs.qualname)
            con = f"{ci.qualname}.{a}"
            if a not in restored:
                r1.fail(con, "committed-not-restored", fs.file, n.lineno, f"{ci.name}.Save_Iter", f"commits self.{a} but Set_Iter never restores it: restoring an iteration leaves the internal variable of a later step in place")
                continue
            # the restored value must DEPEND on the stored dict: names that (transitively, through local assignments, loop
            # targets and stores into local containers) carry data read from `results` - a flow-insensitive taint; the direct
            # textual form fired on a loop that fills two local dicts first (refactored/C15-R5)
            tainted = _tainted_names(fr.node, {"results"})
            from_dict = any(tainted & {x.id for x in ast.walk(m.value) if isinstance(x, ast.Name)} for m in restored[a] if isinstance(m, ast.Assign))
            if from_dict:
                r1.ok(f"{ci.name}: self.{a} committed in Save_Iter, restored from the stored dict")
            else:
                r1.fail(con, "restored-not-from-dict", fr.file, restored[a][0].lineno, f"{ci.name}.Set_Iter", f"self.{a} is committed by Save_Iter but neither stored in the iteration dict nor restored from it (it is recomputed / reset instead): the value current when iteration i was saved is lost")

    # R15.2 purity of reads
    r2 = ctx.rule("R15.2", "reads are pure: Get_results and everything it calls inside _Simu store nothing on the simulation", min_instances=3)
    fg = simu.methods["Get_results"]
    reach = cg.reachable([fg], stop=lambda f: f.cls is not simu)
    for f in reach:
        if f.cls is not simu:
            continue
        r2.instance(fn=f.qualname)
        st = self_stores(f)
        if st:
            a, n, kind = st[0]
            r2.fail(f.qualname, f"store:{a}", f.file, n.lineno, f.name, f"reachable from Get_results and stores self.{a} ({kind}): reading a stored iteration alters the simulation")
        else:
            r2.ok(f"{f.name}: no store")
    # returns a copy in the in-memory branch
    r2.instance(fn=fg.qualname)
    from ..xeval import Interp as _I2, XObj as _X2, XRaise as _XR2

    entry = {"indexMesh": 0, "Niter": 0, "displacement": "u0"}
    o2 = _X2(simu, {simu.mangle("__list_results"): [entry], "Niter": 1, simu.mangle("__Niter"): 1})
    try:
        got = _I2(repo, extra_builtins={"MPI_SIZE": 1}).call_function(fg, [0], self_obj=o2)
    except _XR2 as e:
        got = e
    if isinstance(got, dict) and got is not entry and got == {"indexMesh": 0, "Niter": 0, "displacement": "u0"} and entry == {"indexMesh": 0, "Niter": 0, "displacement": "u0"}:
        r2.ok("Get_results returns a copy of the in-memory entry")
    elif got is entry:
        r2.fail(fg.qualname, "return-copy", fg.file, fg.lineno, "Get_results", "a stored dict is handed out without a copy")
    else:
        r2.fail(fg.qualname, "return-value", fg.file, fg.lineno, "Get_results", f"Get_results(0) of a history holding one entry returns {got!r}")

    # R15.3 aliasing
    r3 = ctx.rule("R15.3", "no aliasing between history and live state: values stored in an iteration dict are fresh; live solution arrays are never written in place", min_instances=10)
    copying_getters = set()
    for nm in ("_Get_u_n", "_Get_v_n", "_Get_a_n"):
        g = simu.methods[nm]
        r3.instance(fn=g.qualname)
        # interpreted (the textual form - an assignment containing ".copy()" - fired on a helper extraction, refactored/C15-R3):
        # the getter is called on a simulation holding a vector; what it returns must not be the stored object
        from ..xeval import Interp as _I, XObj as _X, XRaise as _XR
        from ..xarray import XArray as _A

        stored = _A((4,), [1, 2, 3, 4])
        o = _X(simu, {simu.mangle("__dict_" + nm[5] + "_n"): {"pt": stored}, simu.mangle("__Get_Ndof"): (lambda pt=None: 4)})
        try:
            got = _I(repo, extra_builtins={"MPI_SIZE": 1}).call_function(g, ["pt"], self_obj=o)
        except _XR as e:
            got = e
        if isinstance(got, _A) and got is not stored and list(got.data) == [1, 2, 3, 4]:
            r3.ok(f"{nm} returns a copy of the stored vector")
            copying_getters.add(nm)
        elif got is stored:
            r3.fail(g.qualname, "getter-copy", g.file, g.lineno, nm, "the solution getter hands out the live array (no .copy())")
        else:
            r3.fail(g.qualname, "getter-value", g.file, g.lineno, nm, f"the solution getter returns {got!r} for the stored vector [1, 2, 3, 4]")
    for ci in subs:
        fs = ci.methods["Save_Iter"]
        for key, n in literal_keys_stored(fs).items():
            r3.instance(fn=fs.qualname)
            v = n.value
            fresh = False
            why = ""
            if isinstance(v, ast.Attribute) and isinstance(v.value, ast.Name) and v.value.id == "self":
                props = cg.resolve_self_attr(ci, v.attr, include_overrides=False)
                if props and props[0].is_property():
                    body = norm_text(props[0].node)
                    if any(g in body for g in copying_getters) or ".copy()" in body:
                        fresh, why = True, f"property {v.attr} returns a copy"
                    else:
                        why = f"property {v.attr} does not copy"
                else:
                    # plain attribute: scalars / bookkeeping are fine when the attribute is only ever rebound
                    attr = ci.mangle(v.attr)
                    inplace = []
                    private = attr != v.attr
                    for c in ([ci] if private else [ci] + ci.mro[1:]):
                        for f in c.methods.values():
                            if f.cls is not c:
                                continue
                            for a, m, kind in self_stores(f):
                                if a == attr and kind != "assign":
                                    if kind == "augassign" and isinstance(m, ast.AugAssign) and isinstance(m.value, ast.Constant) and isinstance(m.value.value, int):
                                        continue  # counter increment: rebinding of an int
                                    inplace.append((f, m, kind))
                    fresh = not inplace
                    why = "attribute only ever rebound (never mutated in place)" if fresh else f"attribute mutated in place by {inplace[0][0].name}"
            elif ".copy()" in norm_text(v) or isinstance(v, (ast.Constant, ast.DictComp, ast.ListComp)):
                fresh, why = True, "explicit copy / literal"
            elif isinstance(v, ast.Call):
                fresh, why = True, "result of a call"
            elif isinstance(v, ast.Name):
                # a local built in this function (dict / list literal, comprehension, call): a fresh container
                defs = [m.value for m in ast.walk(fs.node) if isinstance(m, (ast.Assign, ast.AnnAssign)) and m.value is not None and any(isinstance(t, ast.Name) and t.id == v.id for t in (m.targets if isinstance(m, ast.Assign) else [m.target]))]
                if defs and all(isinstance(d, (ast.Dict, ast.List, ast.DictComp, ast.ListComp, ast.Call, ast.Constant)) for d in defs) and v.id not in {a.arg for a in fs.node.args.args}:
                    fresh, why = True, "local container built in Save_Iter"
            if fresh:
                r3.ok(f"{ci.name}.Save_Iter iter['{key}']: {why}")
            else:
                r3.fail(fs.qualname, f"alias:{key}", fs.file, n.lineno, f"{ci.name}.Save_Iter", f"iter['{key}'] = {norm_text(v)} stores a live object ({why}): later solves can alter the stored iteration")
    # base bookkeeping values
    fsb = simu.methods["Save_Iter"]
    for key, n in literal_keys_stored(fsb).items():
        r3.instance(fn=fsb.qualname)
        v = n.value
        if isinstance(v, ast.Attribute):
            attr = simu.mangle(v.attr)
            inplace = [(f, m, k) for f in simu.methods.values() for a, m, k in self_stores(f) if a == attr and k != "assign" and not (k == "augassign" and isinstance(m.value, ast.Constant))]
            if inplace:
                r3.fail(fsb.qualname, f"alias:{key}", fsb.file, n.lineno, "_Simu.Save_Iter", f"iter['{key}'] stores self.{v.attr}, which {inplace[0][0].name} mutates in place")
            else:
                r3.ok(f"_Simu.Save_Iter iter['{key}']: attribute only ever rebound")
        else:
            r3.ok()
    # live arrays never written in place
    live = [simu.mangle(x) for x in ("__dict_u_n", "__dict_v_n", "__dict_a_n")]
    r3.instance(fn=SIMU)
    bad = []
    for f in simu.methods.values():
        for n in ast.walk(f.node):
            tgt = None
            if isinstance(n, ast.Assign):
                tgt = n.targets
            elif isinstance(n, ast.AugAssign):
                tgt = [n.target]
            for t in tgt or []:
                depth = 0
                b = t
                while isinstance(b, ast.Subscript):
                    depth += 1
                    b = b.value
                if isinstance(b, ast.Attribute) and isinstance(b.value, ast.Name) and b.value.id == "self" and simu.mangle(b.attr) in live:
                    if depth >= 2 or (isinstance(n, ast.AugAssign) and depth >= 1):
                        bad.append((f, n))
    if bad:
        f, n = bad[0]
        r3.fail(f.qualname, f"inplace:{norm_text(n)[:50]}", f.file, n.lineno, f.name, f"writes a live solution array in place ({norm_text(n)[:80]}): stored iterations that were restored share that array")
    else:
        r3.ok("no in-place write to __dict_{u,v,a}_n[...] arrays anywhere in _Simu (dict entries are only rebound)")

    # R15.4 pinning
    r4 = ctx.rule("R15.4", "pinning: Get_results reads only the entry recorded at write time, never self.folder", min_instances=1)
    r4.instance(fn=fg.qualname)
    readers = [f for f in reach if f.cls is simu and "folder" in {a.replace("_Simu__", "") for a in self_reads(f)}]
    if readers:
        f = readers[0]
        r4.fail(f.qualname, "reads-folder", f.file, f.lineno, f.name, "a stored iteration is resolved against the current self.folder: changing the folder after saving breaks older entries")
    else:
        r4.ok("Get_results and its callees never read self.folder")
    # (the shape of the two history appends used to be matched textually; it fired on a merged single append,
    #  refactored/C15-R1.  What is appended and how it is read back is decided by the interpreted R15.13 / R15.E1.)

    ctx.attempt(mesh_roundtrip_rule, ctx)
    ctx.attempt(history_paths_rule, ctx)
    ctx.attempt(restore_fields_rule, ctx)

    # R15.6
    r6 = ctx.rule("R15.6", "every Result override restores the requested iteration before computing", min_instances=7)
    for ci in repo.subclasses(simu):
        f = ci.methods.get("Result")
        if f is None or f.cls is not ci:
            continue
        r6.instance(fn=f.qualname)
        body = [s for s in f.node.body if not (isinstance(s, ast.Expr) and isinstance(s.value, ast.Constant))]
        first = body[0] if body else None
        ok = isinstance(first, ast.If) and "iter is not None" in norm_text(first.test) and any("Set_Iter(iter)" in norm_text(s) for s in first.body)
        if ok:
            r6.ok(f"{ci.name}.Result: if iter is not None: self.Set_Iter(iter)")
        else:
            r6.fail(f.qualname, "restore-first", f.file, f.lineno, f"{ci.name}.Result", "the result is computed without first restoring the requested iteration")

    # R15.7 the restored iteration's mesh becomes the current mesh
    from ..flow import Locals

    r7 = ctx.rule("R15.7", "mesh pinning: Save_Iter records the current-mesh index attribute; Set_Iter switches mesh whenever the recorded index differs from that same attribute (and then stores it)", min_instances=2)
    fsave_i, fset_i = simu.methods["Save_Iter"], simu.methods["Set_Iter"]

    def self_attr(n):
        return n.attr if isinstance(n, ast.Attribute) and isinstance(n.value, ast.Name) and n.value.id == "self" else None

    r7.instance(fn=fsave_i.qualname)
    cur = None
    for n in ast.walk(fsave_i.node):
        if isinstance(n, ast.Assign) and isinstance(n.targets[0], ast.Subscript) and isinstance(n.targets[0].slice, ast.Constant) and n.targets[0].slice.value == "indexMesh":
            cur = self_attr(n.value)
    if cur is None:
        r7.fail(fsave_i.qualname, "record", fsave_i.file, fsave_i.lineno, "_Simu.Save_Iter", "the iteration does not record the index of the current mesh (`iter['indexMesh'] = self.<current index>`)")
    else:
        r7.ok(f"Save_Iter records self.{cur.split('__')[-1]}")
        # the recorded attribute is the one that follows the mesh actually loaded: it is assigned wherever self.__mesh is replaced from the list
        loc = Locals(fset_i.node)

        def is_recorded(e):
            e = loc.resolve(e)
            return isinstance(e, ast.Subscript) and isinstance(e.slice, ast.Constant) and e.slice.value == "indexMesh"

        r7.instance(fn=fset_i.qualname)
        calls = []

        def visit(block, guards):
            for st in block:
                if isinstance(st, ast.If):
                    visit(st.body, guards + [(st, True)])
                    visit(st.orelse, guards + [(st, False)])
                    continue
                for n in ast.walk(st):
                    if isinstance(n, ast.Call) and (self_attr(n.func) or "").endswith("__Update_mesh"):
                        calls.append((n, st, list(guards), block))
                for fld in ("body", "orelse", "finalbody"):
                    sub = getattr(st, fld, None)
                    if isinstance(sub, list) and sub and isinstance(sub[0], ast.stmt) and not isinstance(st, ast.If):
                        visit(sub, guards)

        visit(fset_i.node.body, [])
        bad = None
        if not calls:
            bad = "Set_Iter never switches to the mesh of the restored iteration (no __Update_mesh call)"
        for n, st, guards, block in calls:
            if not (n.args and is_recorded(n.args[0])):
                bad = f"`{norm_text(n)}` does not load the mesh index recorded in the iteration"
                continue
            for g, branch in guards:
                t = g.test
                okg = (branch and isinstance(t, ast.Compare) and len(t.ops) == 1 and isinstance(t.ops[0], ast.NotEq)
                       and ((is_recorded(t.left) and self_attr(t.comparators[0]) == cur) or (is_recorded(t.comparators[0]) and self_attr(t.left) == cur)))
                if not okg:
                    bad = f"the mesh switch is guarded by `{norm_text(t)}`; only `<recorded index> != self.{cur.split('__')[-1]}` (the index of the mesh currently loaded) may skip it"
            if guards:
                stores = [s for s in block if isinstance(s, ast.Assign) and any(self_attr(t) == cur for t in s.targets) and is_recorded(s.value)]
                if not stores:
                    bad = f"the guarded mesh switch does not store the recorded index in self.{cur.split('__')[-1]}: the next restore compares against a stale index"
        if bad:
            r7.fail(fset_i.qualname, "switch", fset_i.file, fset_i.lineno, "_Simu.Set_Iter", bad)
        else:
            r7.ok("Set_Iter: if recorded != current: current = recorded; __Update_mesh(recorded)")
    # restoring an iteration replaces both fields of a staggered simulation: the memo flags follow (R14.6)
    from . import c14

    c14.staggered_flags_rule(ctx, simu)
    c14.mesh_index_rule(ctx, "R15.11")



def mesh_roundtrip_rule(ctx, rid="R15.5"):
    """R15.5: Load_Mesh(Mesh.Save(mesh)) on recorder stubs: the loaded mesh is built from the same element groups in the
    same order (element-indexed arrays follow the order of the groups), each with its own connectivity, the coordinates,
    its partition data handed to _Set_partitioned_data under the right names, and its node tags."""
    from types import SimpleNamespace

    from ..xarray import Lbl
    from ..xeval import Interp, XObj, Opaque, Sink, EnumVal, XRaise, _Bound
    from ..repo import ClassInfo, FuncInfo

    repo = ctx.repo
    r5 = ctx.rule(rid, "Load_Mesh(Mesh.Save(mesh)): same element groups in the same order, each with its connectivity, the coordinates, its partition data (elements, nodes, rank, ghostElements by name) and its node tags", min_instances=2)
    mcls = repo.cls(f"{MESH}.Mesh")
    fsave = mcls.methods["Save"]
    fload = repo.func(f"{MESH}.Load_Mesh")
    ge = repo.cls(GE)
    fset = ge.methods["_Set_partitioned_data"]
    stored = None
    for n in ast.walk(fset.node):
        if isinstance(n, ast.Assign) and isinstance(n.value, ast.Tuple) and any("partitionned_data" in norm_text(t) or "partitioned_data" in norm_text(t) for t in n.targets):
            stored = [norm_text(e) for e in n.value.elts]
    if stored is None:
        raise AnalysisError("R15.5: _Set_partitioned_data no longer stores a tuple")
    et = repo.cls("EasyFEA.FEM._utils.ElemType")
    mem = repo.enum_members(et.qualname)
    types = [EnumVal(et, "QUAD4", mem["QUAD4"]), EnumVal(et, "TRI3", mem["TRI3"]), EnumVal(et, "SEG2", mem["SEG2"])]

    def group(k):
        pdata = tuple(Lbl("part", k, nm) for nm in stored)
        return SimpleNamespace(elemType=types[k], connect=Lbl("connect", k), nodes=Lbl("owned-and-ghost-nodes", k), _Get_partitioned_data=lambda pdata=pdata: pdata, _dict_nodes_tags={f"tag{k}": Lbl("tagnodes", k)}, dim=2 if k < 2 else 1)

    groups = [group(k) for k in range(3)]
    dge = {types[k]: groups[k] for k in range(3)}
    mesh = XObj(mcls, dict(coord=Lbl("coord"), dict_groupElem=dge, dim=2,
                           Get_list_groupElem=lambda dim=None: [g for g in reversed(groups) if dim is None or g.dim == dim]))
    cap = {}

    def hook(fn, args, kwargs):
        tag = getattr(fn, "tag", "") if isinstance(fn, Opaque) else ""
        if tag.endswith("pickle.dump"):
            cap["dumped"] = args[0]
            return None
        if tag.endswith("pickle.load"):
            return cap["dumped"]
        if isinstance(fn, (_Bound, FuncInfo)):
            fi = fn.finfo if isinstance(fn, _Bound) else fn
            if fi.module.name.endswith(".Terminal"):
                return None
            if fi.name == "Join":
                return "path/mesh.pickle"
            if fi.name == "Exists":
                return True
            if fi.name == "Create":
                rec = SimpleNamespace(created=dict(kwargs) if kwargs else dict(zip(("elemType", "connect", "coordinates"), args)), part=None, tags=[])
                rec._Set_partitioned_data = lambda *a, rec=rec, **k: setattr(rec, "part", (a, k))
                rec.Set_Tag = lambda nodes, tag, rec=rec: rec.tags.append((nodes, tag))
                cap.setdefault("created", []).append(rec)
                return rec
        if isinstance(fn, ClassInfo) and fn is mcls:
            cap["mesh_args"] = (args, kwargs)
            return Opaque("mesh")
        return NotImplemented

    r5.instance(fn=fsave.qualname)
    I = Interp(repo, extra_builtins={"MPI_SIZE": 1, "MPI_RANK": 0, "open": lambda *a, **k: Sink()})
    I.call_hook = hook
    from ..repo import ModuleInfo as _MI

    path_const = lambda obj, attr: "/easyfea" if isinstance(obj, _MI) and attr.isupper() and attr.endswith("DIR") else NotImplemented
    I.attr_hook = path_const
    try:
        I.call_function(fsave, ["folder"], self_obj=mesh)
    except XRaise as e:
        r5.fail(fsave.qualname, "save", fsave.file, fsave.lineno, "Mesh.Save", f"raises {e}")
        return
    if "dumped" not in cap:
        r5.fail(fsave.qualname, "save", fsave.file, fsave.lineno, "Mesh.Save", "nothing is pickled")
        return
    r5.ok("Mesh.Save pickles one record per element group")
    r5.instance(fn=fload.qualname)
    I2 = Interp(repo, extra_builtins={"MPI_SIZE": 1, "MPI_RANK": 0, "open": lambda *a, **k: Sink()})
    I2.call_hook = hook
    I2.attr_hook = path_const
    try:
        I2.call_function(fload, ["path/mesh.pickle"])
    except XRaise as e:
        r5.fail(fload.qualname, "load", fload.file, fload.lineno, "Load_Mesh", f"raises {e}")
        return
    problems = []
    margs = cap.get("mesh_args")
    loaded = None
    if margs is not None:
        loaded = margs[1].get("dict_groupElem", margs[0][0] if margs[0] else None)
    if not isinstance(loaded, dict):
        problems.append(("mesh", "the loaded groups are not handed to Mesh(dict_groupElem=...)"))
    else:
        order = [k.name for k in loaded]
        if order != [t.name for t in types]:
            problems.append(("group-order", f"the element groups come back in the order {order}, they were {[t.name for t in types]}: arrays indexed by element (results per element, tags) follow Get_list_groupElem, which is the reversed insertion order within a dimension - a round trip permutes them"))
        for k, t in enumerate(types):
            rec = loaded.get(t)
            if rec is None or not hasattr(rec, "created"):
                problems.append((f"group:{t.name}", f"group {t.name} is missing after the round trip"))
                continue
            c = rec.created
            if c.get("connect") != Lbl("connect", k) or c.get("coordinates") != Lbl("coord") or not (isinstance(c.get("elemType"), EnumVal) and c["elemType"].name == t.name):
                problems.append((f"create:{t.name}", f"group {t.name} is re-created from {c!r}"))
            if rec.part is None:
                problems.append((f"partition:{t.name}", f"group {t.name}: the partition data are not restored"))
            else:
                a, kw = rec.part
                params = [p for p in fset.params() if p != "self"]
                given = dict(zip(params, a))
                given.update(kw)
                for nm in ("elements", "nodes", "rank", "ghostElements"):
                    if given.get(nm) != Lbl("part", k, nm):
                        problems.append((f"partition:{nm}", f"group {t.name}: _Set_partitioned_data receives {nm}={given.get(nm)!r}, the saved {nm} is {Lbl('part', k, nm)!r}"))
            if rec.tags != [(Lbl("tagnodes", k), f"tag{k}")]:
                problems.append((f"tags:{t.name}", f"group {t.name}: tags restored as {rec.tags!r}"))
    if problems:
        for key, msg in problems[:4]:
            r5.fail(fload.qualname, key, fload.file, fload.lineno, "Load_Mesh", msg)
    else:
        r5.ok("round trip: groups, order, connectivity, coordinates, partition data and tags come back")


def history_paths_rule(ctx):
    """R15.13: a history entry that is a path is resolved against the place it was written to, not against whatever
    `self.folder` (or a new `folder` argument) is when it is read: every `Load_Mesh(Folder.Join(<base>, <entry of the mesh
    history>))` in _Simu must take <base> from state recorded when the entry was written.  (The iteration files are
    stored as full paths, R15.4; the mesh files are stored relative to the save folder.)"""
    from ..flow import Locals

    repo = ctx.repo
    r = ctx.rule("R15.13", "mesh files of the history are located where they were written: no Load_Mesh(Folder.Join(self.folder | folder argument, <mesh history entry>)) at read time", min_instances=1)
    simu = repo.cls(SIMU)
    for nm, f in sorted(simu.methods.items()):
        if f.cls is not simu:
            continue
        L = Locals(f.node)
        params = set(f.params())
        for n in ast.walk(f.node):
            if not (isinstance(n, ast.Call) and (dotted(n.func) or "").split(".")[-1] == "Load_Mesh" and n.args):
                continue
            a = L.resolve(n.args[0])
            if not (isinstance(a, ast.Call) and (dotted(a.func) or "").endswith("Join") and len(a.args) >= 2):
                continue
            base, entry = a.args[0], a.args[1]
            # the entry comes from the mesh history?
            etxt = L.text(entry)
            if isinstance(entry, ast.Name):
                etxt += " " + " ".join(norm_text(d) for d in L.all_defs(entry.id))
                for lp in ast.walk(f.node):
                    if isinstance(lp, ast.For) and any(isinstance(x, ast.Name) and x.id == entry.id for x in ast.walk(lp.target)):
                        etxt += " " + norm_text(lp.iter)
            if "listMesh" not in etxt:
                continue
            r.instance(fn=f.qualname)
            btxt = L.text(base)
            current = btxt in ("self.folder", "self.__folder") or (isinstance(base, ast.Name) and base.id in params)
            if current:
                r.fail(f.qualname, f"path-resolved-at-read-time:{f.node.name.lstrip('_')}", f.file, n.lineno, f"_Simu.{f.node.name}", f"the mesh file of a history entry is looked up under `{btxt}` as it is NOW (`{norm_text(n)[:70]}`): after the save folder changed (simu.folder = other, or a second Save(other)) the meshes written by the first save are not found")
            else:
                r.ok(f"_Simu.{f.node.name}: mesh entries resolved against {btxt}")


def restore_fields_rule(ctx, rid="R15.14"):
    """'brings back exactly the fields that were current when iteration i was saved': Set_Iter of every simulation class
    hands an ARRAY to _Set_solutions for each field the running time scheme keeps (velocity, acceleration) -- the stored
    one when the iteration has it, zeros when the iteration was saved under a scheme that does not keep it; never
    nothing, which would leave the live field of another iteration in place.  Interpreted with a history entry saved
    under the static scheme and one saved under the dynamic scheme."""
    from ..xeval import Interp, XObj, EnumVal, Opaque, XRaise, Uninterpretable
    from ..xarray import XArray
    from ..alg import Poly, Q, is_zero

    repo = ctx.repo
    simu = repo.cls(SIMU)
    algo_cls = repo.cls("EasyFEA.Simulations.Solvers.AlgoType")
    members = repo.enum_members(algo_cls.qualname)
    r = ctx.rule(rid, "Set_Iter passes an array for every field of the running time scheme (stored value, or zeros for an iteration saved without it): no live field survives a restore", min_instances=6)
    U, V, A = (XArray((4,), [Poly.var(f"{n}{i}") for i in range(4)]) for n in "uva")
    cfg = [
        ("EasyFEA.Simulations._elastic.Elastic", "newmark", dict(displacement=U), dict(displacement=U, speed=V, accel=A), 3),
        ("EasyFEA.Simulations._hyperelastic.HyperElastic", "midpoint", dict(displacement=U), dict(displacement=U, speed=V, accel=A), 3),
        ("EasyFEA.Simulations._thermal.Thermal", "parabolic", dict(thermal=U), dict(thermal=U, thermalDot=V), 2),
        ("EasyFEA.Simulations._weakforms.WeakForms", "newmark", dict(u=U), dict(u=U, v=V, a=A), 3),
        ("EasyFEA.Simulations._weakforms.WeakForms", "parabolic", dict(u=U), dict(u=U, v=V), 2),
    ]
    for cname, algo, static_entry, dynamic_entry, nfields in cfg:
        ci = repo.cls(cname)
        f = ci.methods["Set_Iter"]
        for label, entry in (("saved under the static scheme", static_entry), ("saved under the running scheme", dynamic_entry)):
            r.instance(fn=f.qualname)
            got = []
            entry = dict(entry, indexMesh=0)
            obj = XObj(ci, {simu.mangle("__indexMesh"): 0, "Get_results": lambda it=-1, entry=entry: dict(entry), "algo": EnumVal(algo_cls, algo, members[algo]), "problemType": Opaque("pt"),
                            "_Set_solutions": lambda pt, u, v=None, a=None, got=got: got.append((u, v, a)),
                            # the mesh switch is not the subject here (R15.7 / R15.11 / R14.22): taken or not, it is a no-op on the stand-in
                            simu.mangle("__Update_mesh"): lambda *a_, **k_: None})
            try:
                Interp(repo).call_function(f, [0], self_obj=obj)
            except XRaise as e:
                r.fail(f.qualname, f"restore:{label}", f.file, f.lineno, f"{ci.name}.Set_Iter", f"{algo} scheme, iteration {label}: raises {e}")
                continue
            except Uninterpretable as e:
                if "KeyError" in str(e):
                    r.fail(f.qualname, f"restore:{label}", f.file, f.lineno, f"{ci.name}.Set_Iter", f"{algo} scheme, iteration {label}: the field is read from the history entry without a test ({str(e).split(': ', 1)[-1]}): an iteration saved before the time scheme was selected cannot be restored")
                    continue
                raise
            bad = None
            if len(got) != 1:
                bad = f"_Set_solutions is called {len(got)} times"
            else:
                want = [U, entry.get("speed", entry.get("thermalDot", entry.get("v"))), entry.get("accel", entry.get("a"))][:nfields]
                for k, (g, w) in enumerate(zip(got[0], want)):
                    name = ("the primary field", "the rate field", "the acceleration")[k]
                    if not isinstance(g, XArray):
                        bad = f"{name} handed to _Set_solutions is {g!r}: the live {name.split()[-1]} of whatever iteration was current stays in place"
                        break
                    target = w if w is not None else XArray(U.shape, [Q(0)] * U.size)
                    if g.shape != target.shape or any(not is_zero(Poly.of(x) - Poly.of(y)) for x, y in zip(g.data, target.data)):
                        bad = f"{name} restored is {[str(x) for x in g.data]}, expected {'the stored one' if w is not None else 'zeros'}"
                        break
            if bad:
                r.fail(f.qualname, f"restore:{label}", f.file, f.lineno, f"{ci.name}.Set_Iter", f"{algo} scheme, iteration {label}: {bad}")
            else:
                r.ok(f"{ci.name} ({algo}), iteration {label}: every field restored")


def save_restore_round_trip_rule(ctx, rid="R15.16"):
    """'brings back exactly the fields ... that were current when iteration i was saved': for every simulation class that
    can run a time scheme (its element system has a C slot -> first-order scheme, an M slot -> second-order schemes), the
    pair Save_Iter / Set_Iter is interpreted as a ROUND TRIP under each scheme the class can run: the committed
    displacement-like field, its rate and (second order) its second rate are distinct symbolic arrays; what Save_Iter
    hands to the base class is fed back to Set_Iter, which must give _Set_solutions the same arrays -- not zeros, not
    nothing -- for every field the scheme carries from one step to the next."""
    from ..xeval import Interp, XObj, EnumVal, Opaque, XRaise, FuncInfo, _Bound
    from ..xarray import XArray
    from ..alg import Poly

    repo = ctx.repo
    simu = repo.cls(SIMU)
    algo_cls = repo.cls("EasyFEA.Simulations.Solvers.AlgoType")
    members = repo.enum_members(algo_cls.qualname)
    r = ctx.rule(rid, "Save_Iter then Set_Iter is the identity on (u, v) under a first-order scheme and on (u, v, a) under a second-order scheme, for every simulation class whose element system has the corresponding C / M slot and every member of the scheme family", min_instances=16)
    U, V, A = (XArray((4,), [Poly.var(f"{n}{i}") for i in range(4)]) for n in "uva")

    def capability(ci):
        """(has C slot, has M slot) from the 4-tuples Construct_local_matrix_system builds"""
        c = m = False
        for k in [ci] + [b for b in ci.mro if b is not simu and b.qualname.startswith("EasyFEA.Simulations")]:
            f = k.methods.get("Construct_local_matrix_system")
            if f is None:
                continue
            tuples = []
            for n in ast.walk(f.node):
                if isinstance(n, ast.Assign) and isinstance(n.targets[0], ast.Subscript) and isinstance(n.value, ast.Tuple) and len(n.value.elts) == 4:
                    tuples.append(n.value)
                elif isinstance(n, ast.Return) and isinstance(n.value, ast.Dict):
                    tuples += [v for v in n.value.values if isinstance(v, ast.Tuple) and len(v.elts) == 4]
            for t in tuples:
                isnone = lambda e: isinstance(e, ast.Constant) and e.value is None
                c = c or not isnone(t.elts[1])
                m = m or not isnone(t.elts[2])
            break
        return c, m

    for ci in sorted(repo.subclasses(simu), key=lambda c: c.qualname):
        fs, fr = ci.methods.get("Save_Iter"), ci.methods.get("Set_Iter")
        if fs is None or fr is None or fs.cls is not ci:
            continue
        hasC, hasM = capability(ci)
        # every member of the second-order family, as the code itself classifies them (newmark, midpoint, hht, hht_newmark, the two Euler schemes)
        hyper = [str(x.name) if hasattr(x, "name") else str(x) for x in Interp(repo).call_function(repo.method(algo_cls.qualname, "Get_Hyperbolic_Types"), [])]
        schemes = ([("parabolic", 2)] if hasC else []) + ([(h, 3) for h in hyper] if hasM else [])
        for algo, nfields in schemes:
            r.instance(fn=fs.qualname)
            saved, got = {}, []
            ev = EnumVal(algo_cls, algo, members[algo])

            def hook(fn, args, kwargs, saved=saved):
                fi = fn.finfo if isinstance(fn, _Bound) else fn if isinstance(fn, FuncInfo) else None
                if fi is not None and fi.cls is simu and fi.name == "Save_Iter":
                    saved.update(args[0] if args else kwargs.get("iter", {}))
                    return None
                if fi is not None and fi.cls is simu and fi.name == "Set_Iter":
                    return dict(saved)
                return NotImplemented

            attrs = {"algo": ev, "problemType": Opaque("pt"), "_Get_u_n": lambda pt=None: U, "_Get_v_n": lambda pt=None: V, "_Get_a_n": lambda pt=None: A,
                     "_Set_solutions": lambda pt, u, v=None, a=None, got=got: got.append((u, v, a))}
            obj = XObj(ci, attrs)
            for nm in list(ci.class_attrs) + [k for c in ci.mro for k in c.methods]:
                pass
            # private per-class extras (e.g. the quadrature point counts of HyperElastic) are absent
            for c in ci.mro:
                for an in ("__nPts_e",):
                    obj.attrs.setdefault(c.mangle(an), None)
            I = Interp(repo)
            I.call_hook = hook
            try:
                I.call_function(fs, [], self_obj=obj)
                I.call_function(fr, [0], self_obj=obj)
            except XRaise as e:
                r.fail(fs.qualname, f"round-trip:{ci.name}:{algo}", fs.file, fs.lineno, f"{ci.name}.Save_Iter", f"{algo} scheme: raises {e}")
                continue
            bad = None
            if not got:
                bad = "Set_Iter does not hand the restored fields to _Set_solutions"
            else:
                u, v, a = got[-1]
                same = lambda x, y: isinstance(x, XArray) and list(x.data) == list(y.data)
                if not same(u, U):
                    bad = "the restored primary field is not the saved one"
                elif not same(v, V):
                    bad = f"the rate field restored under the {algo} scheme is {'absent' if v is None else 'not the saved one (zeros?)'}: Save_Iter stores {sorted(saved)} only -- the velocity the scheme carries into the next step is lost by a restore"
                elif nfields == 3 and not same(a, A):
                    bad = f"the second rate restored under the {algo} scheme is {'absent' if a is None else 'not the saved one'}: Save_Iter stores {sorted(saved)} only"
            if bad:
                r.fail(fs.qualname, f"round-trip:{ci.name}:{algo}", fs.file, fs.lineno, f"{ci.name}.Save_Iter", f"{ci.name}, {algo} scheme: {bad}: restoring an iteration (even the current one) changes the steps that follow, and rate results queried for iteration i are not those obtained at the time")
            else:
                r.ok(f"{ci.name}, {algo}: Save_Iter -> Set_Iter restores {'(u, v, a)' if nfields == 3 else '(u, v)'}")
