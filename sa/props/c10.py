"""C10 -- frame indifference: necessary structural conditions.

R10.1 the frame matrix applied on the right of the beam N / B matrices maps
      global components to local ones (rows = local axes);
R10.2 Get_Pmat is the Kelvin-Mandel (and Voigt) matrix of eps -> p eps p^T, a
      polynomial identity in the entries of p; Apply_Pmat spells P M P^T / P^T M P;
R10.3 the change-of-basis matrix is homogeneous of degree 0 in the axes;
R10.4 rotation / reflection helpers are orthogonal (rational parametrisation).
"""

from __future__ import annotations

from fractions import Fraction

import ast
from types import SimpleNamespace

from ..alg import Poly, Q, MQ, Rat, is_zero
from ..repo import AnalysisError, dotted, norm_text
from ..xeval import Uninterpretable, Interp, XObj, Opaque, _NpAttr, _Bound, XRaise
from ..xarray import XArray
from ..femchain import XFe, fe_hook_full

MU = "EasyFEA.Models._utils"
BEAM_ELEM = "EasyFEA.FEM.Elems._beam"
BEAM_MODEL = "EasyFEA.Models.Beam._beam._Beam"


def cross(a, b):
    return [a[1] * b[2] - a[2] * b[1], a[2] * b[0] - a[0] * b[2], a[0] * b[1] - a[1] * b[0]]


def frame_rule(ctx):
    repo = ctx.repo
    r = ctx.rule("R10.1", "beam frame parity: the block applied on the right of the local N / B matrices has the local axes as rows (global -> local)", min_instances=6)
    eb = repo.cls(BEAM_ELEM + "._EulerBernoulli")
    fP = eb.methods["_Compute_P_e_pg"]
    fC = repo.cls(BEAM_MODEL).methods["_Calc_P"]
    i = [Poly.var(f"i{k}") for k in range(3)]
    j = [Poly.var(f"j{k}") for k in range(3)]
    k = cross(i, j)

    def hook(fn, args, kwargs):
        # Normalize(cross(i, j)) of an orthonormal pair is the cross product itself
        from ..repo import FuncInfo

        if isinstance(fn, FuncInfo) and fn.name == "Normalize":
            return args[0]
        return fe_hook_full(fn, args, kwargs)

    I = Interp(repo)
    I.call_hook = hook
    beam_cls = repo.cls(BEAM_MODEL)
    i3, j3 = i, j
    for dof_n, nPe in ((3, 2), (6, 2)):
        r.instance(fn=fP.qualname)
        if dof_n == 3:
            # plane frame: both axes in the (x, y) plane; the third axis must still be i x j (right-handed: the sign of
            # the rotation dof follows the orientation of the member)
            i, j = [i3[0], i3[1], Poly()], [j3[0], j3[1], Poly()]
        else:
            i, j = i3, j3
        k = cross(i, j)
        _ln = SimpleNamespace(unitVector=XArray((3,), i))
        # (the public attributes and the private fields behind them: a rewrite may read either, refactored/C10-R2)
        beam = XObj(beam_cls, {"line": _ln, beam_cls.mangle("__line"): _ln, "yAxis": XArray((3,), j), beam_cls.mangle("__yAxis"): XArray((3,), j), "name": "b0", "dim": 2 if dof_n == 3 else 3, beam_cls.mangle("__dim"): 2 if dof_n == 3 else 3})
        obj = XObj(eb, dict(Ne=1, nPe=nPe))
        obj.attrs["Get_Elements_Tag"] = lambda tag: [0]
        bs = SimpleNamespace(dof_n=dof_n, beams=[beam], dim=2 if dof_n == 3 else 3)
        try:
            X = XArray.from_nested(I.call_function(fP, [bs], self_obj=obj))
        except Uninterpretable as e_sym:
            # the frame code decides something on the VALUES of the axes (a comparison of a component): the symbolic frame cannot
            # follow it; the same identity is decided on exact orthonormal frames of every orientation instead
            num_frames = [((Q(1), Q(0), Q(0)), (Q(0), Q(1), Q(0))), ((Q(-1), Q(0), Q(0)), (Q(0), Q(1), Q(0))), ((Q(3, 5), Q(4, 5), Q(0)), (Q(-4, 5), Q(3, 5), Q(0))), ((Q(-3, 5), Q(-4, 5), Q(0)), (Q(-4, 5), Q(3, 5), Q(0)))]
            if dof_n == 6:
                num_frames += [((Q(2, 3), Q(2, 3), Q(1, 3)), (Q(-2, 3), Q(1, 3), Q(2, 3))), ((Q(-2, 3), Q(-2, 3), Q(-1, 3)), (Q(-2, 3), Q(1, 3), Q(2, 3))), ((Q(0), Q(0), Q(1)), (Q(0), Q(1), Q(0)))]
            badn = None
            for fi_, fj_ in num_frames:
                fk_ = cross(list(fi_), list(fj_))
                _ln = SimpleNamespace(unitVector=XArray((3,), list(fi_)))
                beam_n = XObj(beam_cls, {"line": _ln, beam_cls.mangle("__line"): _ln, "yAxis": XArray((3,), list(fj_)), beam_cls.mangle("__yAxis"): XArray((3,), list(fj_)), "name": "b0", "dim": 2 if dof_n == 3 else 3, beam_cls.mangle("__dim"): 2 if dof_n == 3 else 3})
                bs_n = SimpleNamespace(dof_n=dof_n, beams=[beam_n], dim=2 if dof_n == 3 else 3)
                try:
                    Xn = XArray.from_nested(I.call_function(fP, [bs_n], self_obj=obj))
                except (XRaise, Uninterpretable) as e2:
                    raise AnalysisError(f"R10.1: the frame block cannot be interpreted symbolically ({e_sym}) nor on exact frames ({e2})")
                axes_n = [list(fi_), list(fj_), fk_]
                nn = dof_n * nPe
                for a in range(nn):
                    for b in range(nn):
                        want = Q(0) if a // 3 != b // 3 else axes_n[a % 3][b % 3]
                        if badn is None and not is_zero(Xn[0, 0, a, b] - want):
                            badn = (fi_, fj_, a, b, Xn[0, 0, a, b], want)
            if badn is None:
                r.ok(f"dof_n={dof_n}: every 3x3 diagonal block has rows (i, j, i x j) on {len(num_frames)} exact frames (the code branches on the axis values)")
            else:
                fi_, fj_, a, b, got, want = badn
                r.fail(fP.qualname, "parity", fP.file, fP.lineno, "_Compute_P_e_pg", f"dof_n={dof_n}, member frame i = {[str(x) for x in fi_]}, j = {[str(x) for x in fj_]}: block entry [{a},{b}] is {got}, expected {want} (rows = local axes i, j, i x j): the frame applied to the dofs is not the right-handed frame of the member - rotations are read against the translations")
            continue
        n = dof_n * nPe
        if X.shape != (1, 1, n, n):
            r.fail(fP.qualname, f"shape{dof_n}", fP.file, fP.lineno, "_Compute_P_e_pg", f"block matrix has shape {X.shape}")
            continue
        axes = [i, j, k]
        bad = None
        for a in range(n):
            for b in range(n):
                if a // 3 != b // 3:
                    want = Q(0)
                else:
                    want = axes[a % 3][b % 3]  # row a%3 = local axis, column = global component
                if not is_zero(X[0, 0, a, b] - want):
                    bad = (a, b, X[0, 0, a, b])
        if bad is None:
            r.ok(f"dof_n={dof_n}: every 3x3 diagonal block has rows (i, j, i x j): u_local = X u_global")
        else:
            a, b, got = bad
            tr = all(is_zero(X[0, 0, a2, b2] - ([i, j, k][b2 % 3][a2 % 3] if a2 // 3 == b2 // 3 else Q(0))) for a2 in range(n) for b2 in range(n))
            r.fail(fP.qualname, "parity", fP.file, fP.lineno, "_Compute_P_e_pg",
                   f"dof_n={dof_n}: block entry [{a},{b}] is {got!r}; the matrix multiplying local-dof columns on the right must have the local axes as rows (global->local)" + (" - it is the transpose (local->global): only symmetric / signed-permutation frames (0, 90 degrees) give the right beam response" if tr else ""))
    # the product sites: <local matrix> @ <P from _Compute_P_e_pg>
    sites = 0
    for cname in ("_EulerBernoulli", "_Timoshenko"):
        ci = repo.cls(f"{BEAM_ELEM}.{cname}")
        for mname, f in ci.methods.items():
            if f.cls is not ci:
                continue
            pvars = set()
            for n in ast.walk(f.node):
                if isinstance(n, ast.Assign) and isinstance(n.value, ast.Call) and (dotted(n.value.func) or "").endswith("_Compute_P_e_pg") and isinstance(n.targets[0], ast.Name):
                    pvars.add(n.targets[0].id)
            if not pvars:
                continue
            uses = [n for n in ast.walk(f.node) if isinstance(n, ast.Name) and n.id in pvars and isinstance(n.ctx, ast.Load)]
            for u in uses:
                r.instance(fn=f.qualname)
                sites += 1
                parent = next((p for p in ast.walk(f.node) if isinstance(p, ast.BinOp) and isinstance(p.op, ast.MatMult) and (p.right is u or p.left is u)), None)
                if parent is not None and parent.right is u:
                    r.ok(f"{cname}.{mname}: {norm_text(parent)}")
                else:
                    r.fail(f.qualname, f"site:{norm_text(parent) if parent is not None else u.id}", f.file, u.lineno, f"{cname}.{mname}", "the frame block is not applied as <local matrix> @ P")
    if sites < 5:
        raise AnalysisError(f"R10.1: only {sites} product sites found (5 confirmed by hand)")


def kelvin_of(M3):
    """Kelvin-Mandel vector (xx,yy,zz,yz,xz,xy) of a symmetric 3x3 (or 2x2: xx,yy,xy)"""
    s2 = MQ.sqrt(2)
    n = len(M3)
    if n == 3:
        return [M3[0][0], M3[1][1], M3[2][2], M3[1][2] * s2, M3[0][2] * s2, M3[0][1] * s2]
    return [M3[0][0], M3[1][1], M3[0][1] * s2]


def kelvin_basis(dim):
    s2 = MQ.sqrt(2)
    pairs = [(0, 0), (1, 1), (2, 2), (1, 2), (0, 2), (0, 1)] if dim == 3 else [(0, 0), (1, 1), (0, 1)]
    out = []
    for a, b in pairs:
        E = [[Q(0)] * dim for _ in range(dim)]
        if a == b:
            E[a][a] = Q(1)
        else:
            E[a][b] = E[b][a] = 1 / s2
        out.append(E)
    return out


def pmat_rules(ctx):
    repo = ctx.repo
    r2 = ctx.rule("R10.2", "Get_Pmat == matrix of eps -> p eps p^T in Kelvin-Mandel (and the Voigt pair) as a polynomial identity in p; Apply_Pmat spells P M P^T / P^T M P", min_instances=6)
    r3 = ctx.rule("R10.3", "scale homogeneity: the change-of-basis matrix does not depend on the length of the axes", min_instances=2)
    f = repo.func(MU + ".Get_Pmat")
    sym_norm = [0]

    def hook(fn, args, kwargs):
        if isinstance(fn, _NpAttr) and fn.path == "linalg.norm":
            from ..xeval import Uninterpretable

            if isinstance(args[0], (Poly, Rat)) and not (isinstance(args[0], Poly) and args[0].is_const()):
                raise Uninterpretable("norm of a symbolic scalar (perpendicularity test on symbolic axes)")
            a = XArray.from_nested(args[0]) if not isinstance(args[0], (Poly, Rat)) else XArray((1,), [args[0]])
            if any(isinstance(x, (Poly, Rat)) and not (isinstance(x, Poly) and x.is_const()) for x in a.data):
                sym_norm[0] += 1
                return Q(1)  # symbolic axes are taken of unit length; lengths are the subject of R10.3
            tot = Q(0)
            for x in a.data:
                x = x.const_value() if isinstance(x, Poly) else x
                tot = tot + x * x
            return MQ.sqrt(tot)
        return NotImplemented

    I = Interp(repo)
    I.call_hook = hook
    for dim in (2, 3):
        r2.instance(fn=f.qualname)
        ax = [[Poly.var(f"p{c+1}{k+1}") for k in range(dim)] for c in range(dim)]  # ax[c] = axis_{c+1}
        if dim == 3:
            ax[2] = cross(ax[0], ax[1])
        Pm = XArray.from_nested(I.call_function(f, [XArray((dim,), ax[0]), XArray((dim,), ax[1])]))
        n = 3 if dim == 2 else 6
        # p has the axes as columns: p[r][c] = ax[c][r]
        p = [[ax[c][rr] for c in range(dim)] for rr in range(dim)]
        if dim == 2:
            pass
        ref = [[None] * n for _ in range(n)]
        for J, E in enumerate(kelvin_basis(dim)):
            img = [[sum((p[a][k] * E[k][l] * p[b][l] for k in range(dim) for l in range(dim)), Poly()) for b in range(dim)] for a in range(dim)]
            col = kelvin_of(img)
            for Irow in range(n):
                ref[Irow][J] = col[Irow]
        bad = None
        if Pm.shape != (n, n):
            bad = f"shape {Pm.shape}"
        else:
            for a in range(n):
                for b in range(n):
                    if not is_zero(Pm[a, b] - ref[a][b]):
                        bad = f"entry [{a},{b}] = {Pm[a,b]!r}, expected {ref[a][b]!r}"
        if bad:
            r2.fail(f.qualname, f"mandel{dim}", f.file, f.lineno, "Get_Pmat", f"dim {dim}: not the Kelvin-Mandel matrix of eps -> p eps p^T with p = [axis_1 axis_2 axis_3]: {bad}")
        else:
            r2.ok(f"Get_Pmat dim {dim} (Kelvin-Mandel): {n*n} polynomial identities in the entries of p")
        # Voigt pair
        r2.instance(fn=f.qualname)
        Ps, Pe = I.call_function(f, [XArray((dim,), ax[0]), XArray((dim,), ax[1])], dict(useMandel=False))
        Ps, Pe = XArray.from_nested(Ps), XArray.from_nested(Pe)
        s2 = MQ.sqrt(2)
        kap = [Q(1)] * dim + [s2] * (n - dim)
        # sigma_voigt = sigma_kelvin / kappa ; eps_voigt = eps_kelvin * kappa
        bad = None
        for a in range(n):
            for b in range(n):
                ws = ref[a][b] * (kap[b] / kap[a])
                we = ref[a][b] * (kap[a] / kap[b])
                if not is_zero(Ps[a, b] - ws) or not is_zero(Pe[a, b] - we):
                    bad = f"entry [{a},{b}]"
        if bad:
            r2.fail(f.qualname, f"voigt{dim}", f.file, f.lineno, "Get_Pmat", f"dim {dim}: (Ps, Pe) are not the Voigt forms diag(1/kappa) Pm diag(kappa), diag(kappa) Pm diag(1/kappa): {bad}")
        else:
            r2.ok(f"Get_Pmat dim {dim} (Voigt): Ps, Pe consistent with the Kelvin-Mandel matrix")
    # R10.3 with numeric non-unit axes
    for dim, a1, a2 in ((2, (3, 4), (-8, 6)), (3, (2, 0, 0), (0, 3, 0)), (3, (3, 4, 0), (-4, 3, 0)), (3, (2, -2, 1), (1, 2, 2))):
        r3.instance(fn=f.qualname)
        big = XArray.from_nested(I.call_function(f, [XArray((dim,), [Q(x) for x in a1]), XArray((dim,), [Q(x) for x in a2])]))
        n1 = MQ.sqrt(sum(Q(x) ** 2 for x in a1))
        n2 = MQ.sqrt(sum(Q(x) ** 2 for x in a2))
        unit = XArray.from_nested(I.call_function(f, [XArray((dim,), [Q(x) / n1 for x in a1]), XArray((dim,), [Q(x) / n2 for x in a2])]))
        n = big.shape[0]
        same = all(is_zero(big[a, b] - unit[a, b]) for a in range(n) for b in range(n))
        orth = True
        for a in range(n):
            for b in range(n):
                tot = sum((big[a, k] * big[b, k] for k in range(n)), Q(0))
                if not is_zero(tot - (1 if a == b else 0)):
                    orth = False
        if same and orth:
            r3.ok(f"axes {a1}, {a2} (lengths {n1}, {n2}): same matrix as the unit axes, P P^T = I exactly")
        else:
            r3.fail(f.qualname, f"scale:{a1},{a2}", f.file, f.lineno, "Get_Pmat", f"axes {a1}, {a2} of lengths ({n1}, {n2}): the matrix {'differs from the one of the normalised axes' if not same else ''}{' and ' if not same and not orth else ''}{'is not orthogonal' if not orth else ''}: the normalisation is not a division by the norm")
    # Apply_Pmat
    fa = repo.func(MU + ".Apply_Pmat")
    I2 = Interp(repo)
    n = 3
    P = XArray((n, n), [Poly.var(f"P{a}{b}") for a in range(n) for b in range(n)])
    M = XArray((n, n), [Poly.var(f"M{a}{b}") for a in range(n) for b in range(n)])
    for toGlobal in (True, False):
        for prank in (2, 3, 4):
            for mrank in (2, 3, 4):
                r2.instance(fn=fa.qualname)
                Pp = XArray((1,) * (prank - 2) + (n, n), P.data)
                Mm = XArray((1,) * (mrank - 2) + (n, n), M.data)
                res = XArray.from_nested(I2.call_function(fa, [Pp, Mm, toGlobal]))
                lead = max(prank, mrank) - 2
                bad = None
                if res.shape != (1,) * lead + (n, n):
                    bad = f"shape {res.shape}"
                else:
                    flat = res.reshape(n, n)
                    for a in range(n):
                        for b in range(n):
                            if toGlobal:
                                want = sum((P[a, j] * M[j, k] * P[b, k] for j in range(n) for k in range(n)), Poly())
                            else:
                                want = sum((P[j, a] * M[j, k] * P[k, b] for j in range(n) for k in range(n)), Poly())
                            if not is_zero(flat[a, b] - want):
                                bad = f"entry [{a},{b}]"
                if bad:
                    r2.fail(fa.qualname, f"apply:{toGlobal},{prank},{mrank}", fa.file, fa.lineno, "Apply_Pmat", f"toGlobal={toGlobal}, P rank {prank}, M rank {mrank}: result is not {'P M P^T' if toGlobal else 'P^T M P'} ({bad})")
                else:
                    r2.ok(f"Apply_Pmat toGlobal={toGlobal} ranks ({prank},{mrank}): {'P M P^T' if toGlobal else 'P^T M P'}" if (prank, mrank) == (2, 2) else None)


def rigid_rules(ctx):
    """R10.4 / R8.3: _Rotation_matrix orthogonal with det 1; Symmetry is the Householder map."""
    repo = ctx.repo
    r = ctx.rule("R10.4", "geometric helpers: rotation matrix orthogonal with determinant +1, reflection orthogonal with determinant -1; Mesh motions move every group and notify", min_instances=3)
    GU = "EasyFEA.Geoms._utils"
    mod = repo.module(GU)
    return r, mod


def run(ctx):
    from . import e2e_rules as _e2e

    ctx.attempt(_e2e.beam_rule, ctx, 'R10.E2')
    ctx.attempt(_e2e.frame_rule_e2e, ctx, 'R10.E1')
    ctx.attempt(_e2e.beam_length_rule, ctx, 'R10.18')
    from .c07 import embedding_dimension_rule as _embedding_dimension_rule

    # 'members in any embedding': the embedding dimension read from the coordinates (a frame lying in the (x, z) plane is 3-D)
    ctx.attempt(_embedding_dimension_rule, ctx, "R10.11")
    ctx.attempt(stored_frame_rule, ctx)
    ctx.attempt(fibre_derivative_rule, ctx)
    ctx.attempt(bar_direction_rule, ctx)
    from .. import beamops as _beamops
    from ..elems import ElemLib as _ElemLib

    # 'whatever its inclination in 2D or 3D': N, B and the shear operator carry the frame block in the plane AND in space
    ctx.attempt(_beamops.operator_frame_rule, ctx, _ElemLib(ctx.repo), "R10.14")
    # 'hyperelastic analyses': the active (fibre) stress is a tensor in the notation of the operators
    ctx.attempt(active_stress_direction_rule, ctx)
    from . import c18 as _c18

    # 'hyperelastic ... analyses': the invariants the laws are functions of are scalars of the rotated problem
    ctx.attempt(_c18.invariant_value_rule, ctx, "R10.17")
    from . import c09 as _c09

    # 'a beam gives the same response in its own axes whatever its inclination': the loads of an inclined member too
    ctx.attempt(_c09.beam_lineload_rule, ctx)
    from . import c11 as _c11

    # rotating the material axes rotates the law, whatever the notation the material was given in
    ctx.attempt(_c11.notation_rotation_rule, ctx)
    # 'axes rotated by Q yield the Q-rotated tensor': stiffness AND compliance, by the same rotation
    ctx.attempt(_c11.reduction_rule, ctx, "R10.12")
    ctx.attempt(_c11.rotation_direction_rule, ctx, "R10.13")
    from . import c08 as _c08
    from ..elems import ElemLib as _EL

    # 'reflecting a whole problem ... loads': the normals a pressure acts along follow the reflection
    ctx.attempt(_c08.reflection_orientation_rule, ctx, _EL(ctx.repo), "R10.10")
    # a re-oriented member / material gives the re-oriented response also on a simulation that was already assembled: no memo keyed by an object whose axes it reads
    from ..shared import memo_rule as _memo_rule, cached_param_rule as _cached_param_rule

    _scope = ("EasyFEA.FEM.Elems._beam", "EasyFEA.Models.Beam", "EasyFEA.Simulations._beam", "EasyFEA.FEM._group_elem", "EasyFEA.Models.Elastic")
    ctx.attempt(_memo_rule, ctx, "R10.6", scope=lambda f: f.module.name.startswith(_scope), min_instances=0)
    ctx.attempt(_cached_param_rule, ctx, "R10.7", min_instances=20)
    ctx.level = "other"
    ctx.explanation = (
        "Equality of two solves is not decidable statically. Decided necessary conditions: the block matrix applied to the beam N/B matrices is the "
        "global->local frame (interpreted with symbolic axes i, j: rows must be i, j, i x j) at all five product sites; Get_Pmat is, entry by entry, the "
        "Kelvin-Mandel / Voigt matrix of eps -> p eps p^T as a polynomial identity in p (no orthonormality assumed); Apply_Pmat's generated einsum spells "
        "P M P^T / P^T M P for all rank combinations; the change-of-basis matrix is invariant under rescaling of the axes and exactly orthogonal for "
        "rational orthogonal axes of non-unit length."
    )
    ctx.assume("rotation / reflection helpers of Geoms._utils are covered under C08 (R8.3)")
    frame_rule(ctx)
    pmat_rules(ctx)
    # moving the mesh of a live simulation: every motion notifies (R14.4)
    from . import c14

    c14.motion_notify_rule(ctx)


def stored_frame_rule(ctx):
    """R10.8: the frame a beam stores is orthonormal whatever vertical axis it is given: the yAxis setter is interpreted on
    exact (rational / quadratic-surd) directions, the stored y axis must be a unit vector orthogonal to the fibre and
    _Calc_P must return an orthogonal matrix (P P^T = I) -- members whose fibre is neither parallel nor perpendicular
    to the given axis included."""
    from types import SimpleNamespace

    from ..alg import MQ
    from ..xeval import FuncInfo, _Bound

    repo = ctx.repo
    r = ctx.rule("R10.8", "beam frame: for any given vertical axis the stored y axis is unit and orthogonal to the fibre, and _Calc_P is orthogonal (P P^T = I), on exact inclined directions, collinear given axes included; right-handed (third axis = i x j) also for members drawn towards -x", min_instances=11)
    bm = repo.cls(BEAM_MODEL)
    fset = bm.setters["yAxis"]
    fP = bm.methods["_Calc_P"]

    def normalize(v):
        v = XArray.from_nested(v)
        tot = Q(0)
        for x in v.data:
            tot = tot + x * x
        if is_zero(tot):
            return v
        nrm = MQ.sqrt(tot) if isinstance(tot, (int, Fraction)) else tot ** Q(1, 2)
        return XArray(v.shape, [x / nrm for x in v.data])

    def hook(fn, args, kwargs):
        fi = fn.finfo if isinstance(fn, _Bound) else fn if isinstance(fn, FuncInfo) else None
        if fi is not None and fi.name == "Normalize":
            return normalize(args[0])
        if fi is not None and fi.name in ("AsCoords", "_"):
            v = list(XArray.from_nested(args[0]).data)
            return XArray((3,), v + [Q(0)] * (3 - len(v)))
        return NotImplemented

    cases = [
        ((Q(1), Q(0), Q(0)), (Q(0), Q(1), Q(0))),
        ((Q(3, 5), Q(4, 5), Q(0)), (Q(0), Q(1), Q(0))),
        ((Q(3, 5), Q(4, 5), Q(0)), (Q(0), Q(3), Q(0))),
        ((Q(2, 3), Q(2, 3), Q(1, 3)), (Q(0), Q(0), Q(1))),
        ((Q(2, 3), Q(-1, 3), Q(2, 3)), (Q(1), Q(1), Q(0))),
        # a given axis collinear with the fibre: the setter announces that it picks another one
        ((Q(1), Q(0), Q(0)), (Q(2), Q(0), Q(0))),
        ((Q(3, 5), Q(4, 5), Q(0)), (Q(3), Q(4), Q(0))),
        ((Q(0), Q(0), Q(1)), (Q(0), Q(0), Q(1))),
        ((Q(0), Q(0), Q(-1)), (Q(0), Q(0), Q(5))),
        # members drawn towards -x (the third axis i x j then points to -z in the plane)
        ((Q(-1), Q(0), Q(0)), (Q(0), Q(1), Q(0))),
        ((Q(-3, 5), Q(-4, 5), Q(0)), (Q(0), Q(1), Q(0))),
        ((Q(-2, 3), Q(2, 3), Q(1, 3)), (Q(0), Q(0), Q(1))),
    ]
    for fibre, given in cases:
        r.instance(fn=fset.qualname + ".setter")
        line = SimpleNamespace(unitVector=XArray((3,), list(fibre)))
        dim = 2 if fibre[2] == 0 and given[2] == 0 else 3
        obj = XObj(bm, {bm.mangle("__line"): line, "line": line, "Need_Update": lambda *a, **k: None, "name": "beam", bm.mangle("__dim"): dim, "dim": dim})
        I = Interp(repo, extra_builtins={"print": lambda *a, **k: None})
        I.call_hook = hook
        tag = f"fibre={[str(x) for x in fibre]},given={[str(x) for x in given]}"
        try:
            I.call_function(fset, [XArray((3,), list(given))], self_obj=obj)
            y = XArray.from_nested(obj.attrs[bm.mangle("__yAxis")])
            P = XArray.from_nested(I.call_function(fP, [], self_obj=obj))
        except XRaise as e:
            r.fail(fset.qualname + ".setter", "frame", fset.file, fset.lineno, "_Beam.yAxis.setter", f"{tag}: raises {e}")
            continue
        problems = []
        yy = sum((a * a for a in y.data), Q(0))
        yx = sum((a * b for a, b in zip(y.data, fibre)), Q(0))
        if not is_zero(yy - 1):
            problems.append(f"|yAxis|^2 = {yy}")
        if not is_zero(yx):
            problems.append(f"yAxis . fibre = {yx}")
        for a in range(3):
            for b in range(3):
                v = sum((P[a, k] * P[b, k] for k in range(3)), Q(0))
                if not is_zero(v - (1 if a == b else 0)):
                    problems.append(f"(P P^T)[{a},{b}] = {v}")
        # right-handed: the columns of P are (i, j, i x j) - a reflection [i, j, -(i x j)] is orthogonal too, but it turns the
        # rotation dofs against the translations (a rigid rotation of the member stores energy)
        col = lambda c: [P[a, c] for a in range(3)]
        ixj = cross(col(0), col(1))
        if not problems and any(not is_zero(col(2)[a] - ixj[a]) for a in range(3)):
            r.fail(fP.qualname, "frame-left-handed", fP.file, fP.lineno, "_Beam._Calc_P", f"{tag}: the third axis of the member frame is {[str(x) for x in col(2)]}, i x j = {[str(x) for x in ixj]}: the frame is a reflection (det P = -1): the rotation dofs of the member are read with the wrong sign relative to its translations, a rigid rotation is no longer a zero-energy mode")
            continue
        if problems:
            r.fail(fset.qualname + ".setter", "frame-not-orthonormal", fset.file, fset.lineno, "_Beam.yAxis.setter", f"{tag}: {problems[0]} (and {len(problems) - 1} more): the local transverse displacement and the bending stiffness are scaled by the length of the stored axis - the response of a member depends on its inclination")
        else:
            r.ok(f"{tag}: orthonormal frame")


def fibre_derivative_rule(ctx):
    """R10.9: the beam operators differentiate along the member: d/ds with s the abscissa along the fibre direction i that
    the member frame P = [i, j, k] is built on (i = unit vector from the first to the second end).  The physical shape
    function derivative the element class hands out (Get_dN_e_pg) is interpreted on a straight segment for the three
    embeddings (on the x axis: inDim 1; in the plane: inDim 2; in space: inDim 3), drawn towards +x and towards -x:
    sum_a dN_a/ds (X_a . i) must be 1 in all of them."""
    from ..elems import ElemLib
    from ..femchain import Chain

    repo = ctx.repo
    r = ctx.rule("R10.9", "member abscissa: the shape-function derivative used by the beam operators is taken along the fibre direction i of the member frame, for members drawn in either direction, on the x axis (inDim 1), in the plane and in space", min_instances=12)
    lib = ElemLib(repo)
    f = repo.method("EasyFEA.FEM._group_elem._GroupElem", "Get_dN_e_pg")
    cases = {
        "x-axis, towards +x": (1, [(Q(1), Q(0), Q(0)), (Q(4), Q(0), Q(0))]),
        "x-axis, towards -x": (1, [(Q(4), Q(0), Q(0)), (Q(1), Q(0), Q(0))]),
        "plane, (3,4) direction": (2, [(Q(0), Q(0), Q(0)), (Q(3), Q(4), Q(0))]),
        "plane, (-3,-4) direction": (2, [(Q(3), Q(4), Q(0)), (Q(0), Q(0), Q(0))]),
        "space, (2,-1,2) direction": (3, [(Q(0), Q(0), Q(0)), (Q(2), Q(-1), Q(2))]),
        "space, (-2,1,-2) direction": (3, [(Q(2), Q(-1), Q(2)), (Q(0), Q(0), Q(0))]),
    }

    def normalize_hook(fn, args, kwargs):
        fi = fn.finfo if isinstance(fn, _Bound) else fn if hasattr(fn, "node") and hasattr(fn, "qualname") else None
        if fi is not None and getattr(fi, "name", "") == "Normalize":
            v = XArray.from_nested(args[0])
            if v.ndim == 2:
                rows = []
                for k in range(v.shape[0]):
                    row = [v[k, d] for d in range(v.shape[1])]
                    tot = sum((x * x for x in row), Q(0))
                    nrm = MQ.sqrt(tot) if not is_zero(tot) else Q(1)
                    rows.append([x / nrm for x in row])
                return XArray.from_nested(rows)
            tot = sum((x * x for x in v.data), Q(0))
            nrm = MQ.sqrt(tot) if not is_zero(tot) else Q(1)
            return XArray(v.shape, [x / nrm for x in v.data])
        return fe_hook_full(fn, args, kwargs)

    # the element classes the beam simulation works on (the derivative is the one THEY hand out)
    beam_classes = [repo.cls("EasyFEA.FEM.Elems._beam." + n) for n in ("EULER_BERNOULLI2", "TIMOSHENKO2")]
    for label, (inDim, ends) in [(f"{c.name}: {lab}", v) for c in beam_classes for lab, v in cases.items()]:
        r.instance(fn=f.qualname)
        ch = Chain(lib, "SEG2", symbolic_vertices=False, fe=True)
        ch.obj.cls = next(c for c in beam_classes if label.startswith(c.name + ":"))
        a = ch.obj.attrs
        a["inDim"] = inDim
        a["coord"] = XArray.from_nested([list(p) for p in ends])
        ch.I.call_hook = normalize_hook
        try:
            dN = XArray.from_nested(ch.dN_e())
        except XRaise as e:
            r.fail(f.qualname, f"fibre-derivative:{label}", f.file, f.lineno, "_GroupElem.Get_dN_e_pg", f"{label}: raises {e}")
            continue
        d = [ends[1][k] - ends[0][k] for k in range(3)]
        n2 = sum((x * x for x in d), Q(0))
        nrm = MQ.sqrt(n2)
        i = [x / nrm for x in d]
        tot = Q(0)
        for n_ in range(2):
            s = sum((ends[n_][k] * i[k] for k in range(3)), Q(0))
            tot = tot + dN[0, 0, 0, n_] * s
        if is_zero(tot - 1):
            r.ok(f"{label}: d/ds along the fibre")
        else:
            r.fail(f.qualname, f"fibre-derivative:{label}", f.file, f.lineno, "_GroupElem.Get_dN_e_pg", f"SEG2 {label}: sum_a dN_a (X_a . i) = {tot} instead of 1: the derivative is taken along the global x axis while the member frame (line.unitVector) points the other way; strain measures that are odd in the abscissa (Timoshenko shear v' - rz) get the wrong sign relative to the frame: a rigid rotation of the member stores shear energy")


def active_stress_direction_rule(ctx, rid="R10.15"):
    """'vectors rotated': the active stress tau (T x T) of a hyperelastic law is a TENSOR built from the fibre direction.
    `Set_active_stress_vec` + `Compute_active_stress` are interpreted on a symbolic unit direction T: the vector they
    hand to the operators must be the Kelvin-Mandel vector of tau T T^T (shear entries carry sqrt 2: only then is the
    6-vector rotated by the orthogonal matrix of R10.2 when the fibre is rotated)."""
    from ..repo import FuncInfo

    repo = ctx.repo
    ci = repo.cls("EasyFEA.Models.HyperElastic._laws._HyperElastic")
    fS = ci.methods["Set_active_stress_vec"]
    fC = ci.methods["Compute_active_stress"]
    r = ctx.rule(rid, "active stress: the stored direction tensor and the stress handed to the operators are the Kelvin-Mandel vector of tau T T^T for a symbolic unit fibre T (so that rotating the fibre rotates the stress)", min_instances=2)
    T = [Poly.var(f"T{k}") for k in range(3)]
    tau = Poly.var("tau")

    def hook(fn, args, kwargs):
        if isinstance(fn, FuncInfo) and fn.name == "Normalize":
            return args[0]  # T is taken of unit length
        return fe_hook_full(fn, args, kwargs)

    from ..femchain import XFe

    I = Interp(repo)
    I.call_hook = hook
    obj = XObj(ci, dict(active_stress=tau))
    want = kelvin_of([[T[a] * T[b] for b in range(3)] for a in range(3)])
    for label, f, scale in (("stored direction tensor", fS, Poly.const(1)), ("Compute_active_stress", fC, tau)):
        r.instance(fn=f.qualname)
        try:
            if f is fS:
                I.call_function(f, [XFe((1, 1, 3), list(T))], self_obj=obj)
                got = obj.attrs.get(ci.mangle("__TxT"))
            else:
                got = I.call_function(f, [SimpleNamespace(_Slice_Vector=lambda v: v)], self_obj=obj)
        except XRaise as e:
            r.fail(f.qualname, "raises", f.file, f.lineno, f.name, f"{label}: raises {e}")
            continue
        got = XArray.from_nested(got) if got is not None else None
        if got is None or got.shape != (1, 1, 6):
            r.fail(f.qualname, "shape", f.file, f.lineno, f.name, f"{label}: {'nothing stored' if got is None else got.shape}, expected (Ne, nPg, 6)")
            continue
        bad = [(k, got.data[k]) for k in range(6) if not is_zero(got.data[k] - scale * want[k])]
        if bad:
            k, g = bad[0]
            r.fail(f.qualname, "kelvin", f.file, f.lineno, f.name, f"{label}: component {k} is {g!r}, the Kelvin-Mandel vector of tau T T^T has {scale * want[k]!r}: the active stress is not the tensor tau T x T in the notation the operators use (its shear part does not follow a rotation of the fibre)")
        else:
            r.ok(f"{label} == Kelvin-Mandel vector of {'tau ' if f is fC else ''}T T^T")


def bar_direction_rule(ctx, rid="R10.16"):
    """'a beam ... gives the same response ... whatever its inclination': a 1-D structure (axial dof only) has no member
    frame - its unknown is the displacement along the global x axis - so the strain its operator reports is du_x/dx whichever
    way the line was drawn.  `Get_beam_B_e_pg` of the beam element classes is interpreted for a structure of dimension 1 on
    a real SEG2 element lying on the x axis, drawn towards +x and towards -x: B applied to the nodal values of
    u_x = a + b x must be b (the axial force N = EA du/dx then has the sign of the stretching in both cases)."""
    from ..elems import ElemLib
    from ..femchain import Chain

    repo = ctx.repo
    r = ctx.rule(rid, "1-D beam structure: the axial strain operator applied to u_x = a + b x returns b for a line drawn towards +x and towards -x (Euler-Bernoulli and Timoshenko)", min_instances=4)
    lib = ElemLib(repo)
    a_, b_ = Poly.var("a"), Poly.var("b")
    for cname in ("EULER_BERNOULLI2", "TIMOSHENKO2"):
        ci = repo.cls("EasyFEA.FEM.Elems._beam." + cname)
        f = repo.lookup_method(ci, "Get_beam_B_e_pg")
        for label, ends in (("towards +x", [Q(1), Q(4)]), ("towards -x", [Q(4), Q(1)])):
            r.instance(fn=f.qualname)
            ch = Chain(lib, "SEG2", symbolic_vertices=False, fe=True)
            ch.obj.cls = ci
            at = ch.obj.attrs
            at["inDim"] = 1
            at["coord"] = XArray.from_nested([[x, Q(0), Q(0)] for x in ends])
            ch.I.call_hook = fe_hook_full
            bs = SimpleNamespace(dim=1, dof_n=1, beams=[])
            try:
                B = XArray.from_nested(ch.I.call_function(f, [bs], self_obj=ch.obj))
            except XRaise as e:
                r.fail(f.qualname, f"bar:{cname}:{label}", f.file, f.lineno, f"{cname}.Get_beam_B_e_pg", f"{label}: raises {e}")
                continue
            u = [a_ + b_ * x for x in ends]
            bad = None
            if B.shape[-2:] != (1, 2):
                bad = f"B has shape {B.shape}"
            else:
                for p in range(B.shape[1]):
                    strain = sum((Poly.of(B[0, p, 0, n]) * u[n] for n in range(2)), Poly())
                    if bad is None and not is_zero(strain - b_):
                        bad = f"B u = {strain!r} at integration point {p}, expected du_x/dx = b"
            if bad:
                r.fail(f.qualname, f"bar:{cname}:{label}", f.file, f.lineno, f"{cname}.Get_beam_B_e_pg", f"1-D structure, line drawn {label}: {bad}: the axial strain (and N = EA du/dx) has the sign of the drawing direction - a bar in tension is reported in compression")
            else:
                r.ok(f"{cname}, {label}: B u == du/dx")
