"""C08 -- geometry tables and closed forms behind measures, normals and point
location.  Measures of real meshes, closed boundaries and point location on
real meshes depend on gmsh and floating-point geometry: NOT decided."""

from __future__ import annotations

import ast

from ..alg import Poly, Q, MQ, is_zero
from ..elems import ElemLib
from ..repo import AnalysisError, dotted, norm_text, FuncInfo
from ..xeval import Interp, XObj, Opaque, _NpAttr, XRaise, Uninterpretable, exact, Sink
from ..xarray import XArray

GE = "EasyFEA.FEM._group_elem._GroupElem"
GU = "EasyFEA.Geoms._utils"
NFACES = {"TETRA": 4, "HEXA": 6, "PRISM": 5}
NEDGES = {"TETRA": 6, "HEXA": 12, "PRISM": 9}


def sub(a, b):
    return [x - y for x, y in zip(a, b)]


def cross(a, b):
    return [a[1] * b[2] - a[2] * b[1], a[2] * b[0] - a[0] * b[2], a[0] * b[1] - a[1] * b[0]]


def dot(a, b):
    return sum(x * y for x, y in zip(a, b))


def rows_of(lib, ed, attr):
    f = lib.repo.lookup_method(ed.cls, attr)
    if f is None:
        return None, None
    t = lib.I.call_function(f, [], self_obj=ed.obj)
    t = XArray.from_nested(t) if not isinstance(t, XArray) else t
    if t.ndim == 2:
        return [[int(x) for x in row.data] for row in t], f
    if t.ndim == 1 and all(isinstance(x, (list, tuple)) for x in t.data):
        return [[int(x) for x in row] for row in t.data], f
    return [[int(x) for x in t.data]], f


def plane_key(n, p0):
    """canonical key of the plane n.x = n.p0 (direction normalised by its first non-zero entry)"""
    k = next(x for x in n if x != 0)
    nn = tuple(x / k for x in n)
    return nn, dot(nn, p0)


def branch_for_dim(f, k):
    """the body of the `<name> == k` branch of the dimension dispatch in Get_pointsInElem"""
    for n in ast.walk(f.node):
        if isinstance(n, ast.If) and isinstance(n.test, ast.Compare) and isinstance(n.test.left, ast.Name) and isinstance(n.test.ops[0], ast.Eq) and isinstance(n.test.comparators[0], ast.Constant) and n.test.comparators[0].value == k:
            return n
    return None


def location_triples(lib, ed):
    """(p0, p1, p2) node triples of the faces exactly as Get_pointsInElem builds them (its dim == 3 statements up to the three index lists are interpreted)"""
    repo = lib.repo
    f = repo.method(GE, "Get_pointsInElem")
    branch3 = branch_for_dim(f, 3)
    if branch3 is None:
        raise AnalysisError("dim == 3 branch of Get_pointsInElem not found")
    stmts, names = [], []
    for st in branch3.body:
        if isinstance(st, ast.Assign) and "self.coord" in norm_text(st.value):
            continue
        stmts.append(st)
        if isinstance(st, ast.Assign) and isinstance(st.value, ast.ListComp) and isinstance(st.value.elt, ast.Subscript) and isinstance(st.targets[0], ast.Name):
            names.append(st.targets[0].id)
            if len(names) == 3:
                break
    if len(names) != 3:
        raise AnalysisError("Get_pointsInElem no longer builds the three face index lists [surface[0]], [surface[1]], [surface[-1]]")
    I = Interp(repo)
    p0, p1, p2 = I.run_statements(stmts, {"self": ed.obj}, f.module, names, cls=f.cls)
    return [(int(a), int(b), int(c)) for a, b, c in zip(p0, p1, p2)]


def tables_rule(ctx, lib):
    r = ctx.rule("R8.1", "face / surface / segment tables: every row lies in one bounding plane (edge), rows cover every face (edge) once, the normal of the triple used by point location points outward; 2-D contours are counter-clockwise and the triangle tables tile the element", min_instances=15)
    for name in lib.names((3,)):
        ed = lib.get(name)
        X = ed.coords
        centroid = [sum(c[k] for c in X[: ed.info["Nvertex"]]) / ed.info["Nvertex"] for k in range(3)]
        triples = location_triples(lib, ed)
        for attr in ("surfaces", "faces"):
            rows, f = rows_of(lib, ed, attr)
            if attr == "surfaces" and len(triples) != len(rows):
                raise AnalysisError(f"{name}: {len(triples)} face triples for {len(rows)} surface rows")
            r.instance(fn=f.qualname)
            bad = None
            planes = {}
            for ri, row in enumerate(rows):
                row_nodes = list(row)
                while attr == "surfaces" and len(row_nodes) > 3 and row_nodes[-1] == row_nodes[0]:
                    row_nodes = row_nodes[:-1]  # closing / padding copies of the first node
                p0, p1, pl = X[row_nodes[0]], X[row_nodes[1]], X[row_nodes[-1]]
                if attr == "faces":
                    # vertices first: use the first three vertices
                    p1, pl = X[row_nodes[1]], X[row_nodes[2]]
                n = cross(sub(p1, p0), sub(pl, p0))
                if all(x == 0 for x in n):
                    bad = f"row {ri} {row}: degenerate triple"
                    break
                off = [dot(n, sub(X[a], p0)) for a in row_nodes]
                if any(o != 0 for o in off):
                    bad = f"row {ri} {row}: node {row_nodes[[o != 0 for o in off].index(True)]} is not in the plane of the face"
                    break
                # bounding plane: all element nodes on one side
                side = [dot(n, sub(c, p0)) for c in X]
                if any(s > 0 for s in side) and any(s < 0 for s in side):
                    bad = f"row {ri} {row}: the plane cuts the element (not a bounding face)"
                    break
                if attr == "surfaces":
                    # Get_pointsInElem keeps points with v.n <= tol, n = (p1-p0) x (p2-p0) of ITS triple: must be non-zero and outward
                    t0, t1, t2 = triples[ri]
                    nt = cross(sub(X[t1], X[t0]), sub(X[t2], X[t0]))
                    if all(x == 0 for x in nt):
                        bad = f"row {ri} {row}: the triple ({t0},{t1},{t2}) used by Get_pointsInElem is degenerate: zero normal, the half-space test of this face is always true"
                        break
                    if dot(nt, sub(centroid, X[t0])) >= 0:
                        bad = f"row {ri} {row}: normal of the triple ({t0},{t1},{t2}) points inward: interior points would be rejected"
                        break
                planes.setdefault(plane_key(n, p0), []).append(ri)
            if bad is None and attr == "faces":
                # each row must be a valid element of the boundary type, numbered so that its normal points outward
                # (MeshIO.Surface_reconstruction builds the boundary groups from these rows)
                for ri, row in enumerate(rows):
                    nv = 3 if len(row) in (3, 6) else 4
                    verts = [X[a] for a in row[:nv]]
                    nrm = cross(sub(verts[1], verts[0]), sub(verts[-1] if nv == 3 else verts[3], verts[0]))
                    if nv == 3:
                        nrm = cross(sub(verts[1], verts[0]), sub(verts[2], verts[0]))
                    if dot(nrm, sub(centroid, verts[0])) >= 0:
                        bad = f"row {ri} {row}: vertex order gives an inward normal: the reconstructed boundary element is flipped (the integral of the normal over the boundary no longer vanishes)"
                        break
                    btype = {3: "TRI3", 6: "TRI6", 4: "QUAD4", 8: "QUAD8", 9: "QUAD9"}.get(len(row))
                    if btype is None:
                        bad = f"row {ri} {row}: {len(row)} nodes is not a surface element type"
                        break
                    bd = lib.get(btype)
                    lin = lib.get("TRI3" if nv == 3 else "QUAD4")
                    Nl = [lin.tables["N"][1].data[a] for a in range(nv)]
                    for k, node in enumerate(row):
                        env = dict(zip(bd.vars, bd.coords[k]))
                        img = [sum((Nl[a].eval(env) * verts[a][c] for a in range(nv)), Q(0)) for c in range(3)]
                        if any(img[c] != X[node][c] for c in range(3)):
                            bad = f"row {ri} {row}: node {node} (position {k}) is not where local node {k} of a {btype} with these vertices lies"
                            break
                    if bad:
                        break
            if bad is None:
                if len(planes) != NFACES[ed.shape] or any(len(v) != 1 for v in planes.values()) or len(rows) != NFACES[ed.shape]:
                    bad = f"{len(rows)} rows on {len(planes)} distinct planes; a {ed.shape} has {NFACES[ed.shape]} faces"
            if bad:
                r.fail(f.qualname, f"{attr}", f.file, f.lineno, f"{name}.{attr}", f"{name}.{attr}: {bad}")
            else:
                r.ok(f"{name}.{attr}: {len(rows)} rows, coplanar, bounding, {'outward, ' if attr == 'surfaces' else ''}each face once")
        rows, f = rows_of(lib, ed, "segments")
        r.instance(fn=f.qualname)
        bad = None
        edges = set()
        for ri, row in enumerate(rows):
            a, b = X[row[0]], X[row[-1]] if len(row) == 2 else X[row[-1]]
            # end points: the two vertices of the row
            verts = [x for x in row if x < ed.info["Nvertex"]]
            if len(verts) != 2:
                bad = f"row {ri} {row}: {len(verts)} vertices"
                break
            a, b = X[verts[0]], X[verts[1]]
            d = sub(b, a)
            for x in row:
                if any(c != 0 for c in cross(d, sub(X[x], a))):
                    bad = f"row {ri} {row}: node {x} is not on the edge"
            # an edge of the element: lies in two bounding planes -> all other nodes on one side is hard; use vertex pair uniqueness
            edges.add(frozenset(verts))
        if bad is None and (len(edges) != NEDGES[ed.shape] or len(rows) != NEDGES[ed.shape]):
            bad = f"{len(rows)} rows covering {len(edges)} vertex pairs; a {ed.shape} has {NEDGES[ed.shape]} edges"
        if bad:
            r.fail(f.qualname, "segments", f.file, f.lineno, f"{name}.segments", f"{name}.segments: {bad}")
        else:
            r.ok(f"{name}.segments: {len(rows)} collinear rows, each edge once")
    for name in lib.names((2,)):
        ed = lib.get(name)
        X = ed.coords
        rows, f = rows_of(lib, ed, "surfaces")
        r.instance(fn=f.qualname)
        contour = rows[0]
        bad = None
        if contour[0] != contour[-1]:
            bad = "contour is not closed"
        else:
            area2 = sum(X[a][0] * X[b][1] - X[b][0] * X[a][1] for a, b in zip(contour[:-1], contour[1:]))
            ref = {"TRI": Q(1, 2), "QUAD": Q(4)}[ed.shape]
            if area2 / 2 != ref:
                bad = f"signed area of the contour is {area2/2}, reference area {ref} (counter-clockwise expected)"
        if bad:
            r.fail(f.qualname, "surfaces", f.file, f.lineno, f"{name}.surfaces", f"{name}.surfaces: {bad}")
        else:
            r.ok(f"{name}.surfaces: closed counter-clockwise contour of area {ref}")
    # _Get_2d_element_types agrees with the face node counts
    fac = lib.repo.cls("EasyFEA.FEM._group_elem.GroupElemFactory")
    f2 = fac.methods["_Get_2d_element_types"]
    from ..xeval import EnumVal

    et = lib.repo.cls("EasyFEA.FEM._utils.ElemType")
    for name in lib.names((3,)):
        r.instance(fn=f2.qualname)
        ed = lib.get(name)
        res = lib.I.call_function(f2, [EnumVal(et, name, lib.enum[name])])
        sizes = sorted({lib.gmsh[str(x.name)]["nPe"] for x in res})
        rows, _ = rows_of(lib, ed, "faces")
        have = sorted({len(rw) for rw in rows})
        if sizes == have:
            r.ok(f"{name}: boundary element types {[str(x) for x in res]} match face sizes {have}")
        else:
            r.fail(f2.qualname, f"types:{name}", f2.file, f2.lineno, "_Get_2d_element_types", f"{name}: boundary types {[str(x) for x in res]} have {sizes} nodes but the faces table rows have {have}")


def orientation_rule(ctx):
    repo = ctx.repo
    r = ctx.rule("R8.2", "orientation independence of point location: the 2-D test derives its normal from the element itself; the 3-D test must normalise the sign of its outward normals by the element's own orientation", min_instances=1)
    f = repo.method(GE, "Get_pointsInElem")
    r.instance(fn=f.qualname)
    branch3 = branch_for_dim(f, 3)
    if branch3 is None:
        raise AnalysisError("R8.2: dim == 3 branch of Get_pointsInElem not found")
    body = norm_text(ast.Module(body=branch3.body, type_ignores=[]))
    # the normal array entering the half-space test
    nvar = None
    for n in ast.walk(branch3):
        if isinstance(n, ast.Call) and (dotted(n.func) or "") == "np.einsum" and len(n.args) == 3 and isinstance(n.args[2], ast.Name):
            nvar = n.args[2].id
    flips = [n for n in ast.walk(branch3) if isinstance(n, ast.AugAssign) and isinstance(n.op, ast.Mult) and nvar is not None and nvar in norm_text(n.target) and norm_text(n.value) in ("-1", "-1.0")]
    signed = [n for n in ast.walk(branch3) if isinstance(n, ast.Assign) and nvar is not None and any(isinstance(t, ast.Name) and t.id == nvar for t in n.targets) and any(k in norm_text(n.value) for k in ("np.sign", "Det(", "jacobian"))]
    normalised = bool(flips or signed)
    if normalised:
        r.ok("3-D branch contains an orientation normalisation")
    else:
        r.fail(f.qualname, "orientation:3d", f.file, branch3.lineno, "Get_pointsInElem", "the 3-D branch tests v.n <= tol against the outward normals of a positively oriented element and never looks at the element's own orientation: after Mesh.Symmetry (negative Jacobian) every interior point is rejected, while the 2-D branch (normal built from the element's own edges) is unaffected")


def reduce_mod(p: Poly, rules):
    """rules: {var: Poly} meaning var^2 -> Poly (triangular, terminates)"""
    changed = True
    while changed:
        changed = False
        out = Poly()
        for m, c in p.t.items():
            d = dict(m)
            hit = next((v for v in rules if d.get(v, 0) >= 2), None)
            if hit is None:
                out = out + Poly({m: c})
                continue
            changed = True
            k = d[hit]
            d[hit] = k % 2
            if d[hit] == 0:
                del d[hit]
            term = Poly({tuple(sorted(d.items())): c}) * (rules[hit] ** (k // 2))
            out = out + term
        p = out
    return p


def rigid_rule(ctx):
    repo = ctx.repo
    r = ctx.rule("R8.3", "rigid motions: _Rotation_matrix is orthogonal with determinant 1 and Symmetry is the Householder reflection (orthogonal, determinant -1), as polynomial identities modulo x^2+y^2+z^2 = 1, c^2+s^2 = 1", min_instances=3)
    f = repo.func(GU + "._Rotation_matrix")
    x, y, z, c, s = (Poly.var(v) for v in "xyzcs")

    def hook(fn, args, kwargs):
        if isinstance(fn, FuncInfo) and fn.name in ("Normalize", "AsCoords"):
            return args[0]
        if isinstance(fn, _NpAttr) and fn.path == "cos":
            return c
        if isinstance(fn, _NpAttr) and fn.path == "sin":
            return s
        return NotImplemented

    I = Interp(repo)
    I.call_hook = hook
    R = XArray.from_nested(I.call_function(f, [XArray((3,), [x, y, z]), Poly.var("theta")]))
    rules = {"s": 1 - c * c, "z": 1 - x * x - y * y}
    r.instance(fn=f.qualname)
    bad = None
    for i in range(3):
        for j in range(3):
            e = sum((R[i, k] * R[j, k] for k in range(3)), Poly()) - (1 if i == j else 0)
            if not reduce_mod(e, rules).is_zero():
                bad = f"(R R^T)[{i},{j}]"
    if bad:
        r.fail(f.qualname, "orthogonal", f.file, f.lineno, "_Rotation_matrix", f"R R^T != I for a unit axis and c^2 + s^2 = 1 ({bad})")
    else:
        r.ok("_Rotation_matrix: R R^T == I modulo the unit-axis and Pythagorean relations")
    r.instance(fn=f.qualname)
    det = (R[0, 0] * (R[1, 1] * R[2, 2] - R[1, 2] * R[2, 1]) - R[0, 1] * (R[1, 0] * R[2, 2] - R[1, 2] * R[2, 0]) + R[0, 2] * (R[1, 0] * R[2, 1] - R[1, 1] * R[2, 0]))
    if reduce_mod(det - 1, rules).is_zero():
        r.ok("_Rotation_matrix: det R == 1")
    else:
        r.fail(f.qualname, "det", f.file, f.lineno, "_Rotation_matrix", f"det R - 1 reduces to {reduce_mod(det - 1, rules)!r}, not 0")
    g = repo.func(GU + ".Symmetry")
    r.instance(fn=g.qualname)
    I2 = Interp(repo)
    I2.call_hook = hook
    P = XArray((1, 3), [Poly.var(f"p{k}") for k in range(3)])
    nvec = XArray((3,), [x, y, z])
    pt = XArray((3,), [Poly.var(f"o{k}") for k in range(3)])

    def hook2(fn, args, kwargs):
        if isinstance(fn, _NpAttr) and fn.path == "reshape":
            return args[0]
        return hook(fn, args, kwargs)

    I2.call_hook = hook2
    new = XArray.from_nested(I2.call_function(g, [P, pt, nvec]))
    H = [[Poly.of(new[0, i]).diff(f"p{j}") for j in range(3)] for i in range(3)]
    want = [[(1 if i == j else 0) - 2 * [x, y, z][i] * [x, y, z][j] for j in range(3)] for i in range(3)]
    okH = all(is_zero(H[i][j] - want[i][j]) for i in range(3) for j in range(3))
    # fixed points: the plane point maps to itself
    fixed = all(is_zero(Poly.of(new[0, i]).subs({f"p{k}": Poly.var(f"o{k}") for k in range(3)}) - Poly.var(f"o{i}")) for i in range(3))
    orth = all(reduce_mod(sum((H[i][k] * H[j][k] for k in range(3)), Poly()) - (1 if i == j else 0), rules).is_zero() for i in range(3) for j in range(3))
    if okH and fixed and orth:
        r.ok("Symmetry: x -> x - 2((x-p).n) n, linear part I - 2 n n^T orthogonal (det -1), points of the plane fixed")
    else:
        r.fail(g.qualname, "householder", g.file, g.lineno, "Symmetry", f"the map is not the Householder reflection through the plane (linear part ok={okH}, plane fixed={fixed}, orthogonal={orth})")


def measure_rule(ctx):
    repo = ctx.repo
    r = ctx.rule("R8.5", "reflections keep a positive measure: |det F| is taken on the path to the weighted Jacobian; only the inverse map asks for the signed value", min_instances=2)
    f = repo.method(GE, "Get_jacobian_e_pg")
    r.instance(fn=f.qualname)
    a = f.node.args
    defaults = dict(zip([x.arg for x in a.args][-len(a.defaults):], a.defaults))
    dflt = defaults.get("absoluteValues")
    from ..flow import must_pass

    def takes_abs(st):
        return isinstance(st, ast.Assign) and isinstance(st.value, ast.Call) and (dotted(st.value.func) or "") in ("np.abs", "np.absolute", "np.fabs", "abs")

    # |.| on every completing path on which absoluteValues is true: the flag alone may guard it (any further
    # condition - dimension, element type - leaves some elements with a signed measure)
    has_abs = must_pass(f.node.body, takes_abs, lambda t: isinstance(t, ast.Name) and t.id == "absoluteValues",
                        ignore_return=lambda st: st.value is None or (isinstance(st.value, ast.Constant) and st.value.value is None))
    if isinstance(dflt, ast.Constant) and dflt.value is True and has_abs:
        r.ok("Get_jacobian_e_pg(absoluteValues=True) applies np.abs to det F")
    else:
        r.fail(f.qualname, "abs", f.file, f.lineno, "Get_jacobian_e_pg", "the Jacobian handed to the integrals is not |det F| by default: a mirrored mesh would integrate to a negative measure")
    g = repo.method(GE, "Get_weightedJacobian_e_pg")
    r.instance(fn=g.qualname)
    calls = [n for n in ast.walk(g.node) if isinstance(n, ast.Call) and (dotted(n.func) or "").endswith("Get_jacobian_e_pg")]
    if calls and all(not any(k.arg == "absoluteValues" for k in c.keywords) and len(c.args) <= 1 for c in calls):
        r.ok("Get_weightedJacobian_e_pg uses the default (absolute) Jacobian")
    else:
        r.fail(g.qualname, "signed", g.file, g.lineno, "Get_weightedJacobian_e_pg", "the weighted Jacobian is built from the signed determinant")


def run(ctx):
    from ..shared import foreign_state_rule as _fsr

    ctx.attempt(_fsr, ctx, 'R8.24', lambda f, _s=('EasyFEA.FEM', 'EasyFEA.Simulations', 'EasyFEA.Models'): f.module.name.startswith(_s))
    from . import e2e_rules as _e2e

    ctx.attempt(_e2e.geometry_rule, ctx, 'R8.E1')
    from ..shared import group_loop_rule as _group_loop_rule

    ctx.attempt(_group_loop_rule, ctx, "R8.12", scope=lambda f, _s=("EasyFEA.FEM._mesh", "EasyFEA.FEM._group_elem"): f.module.name.startswith(_s), min_instances=5)
    from ..shared import state_alias_rule as _state_alias_rule

    ctx.attempt(_state_alias_rule, ctx, "R8.11", scope=lambda f, _s=("EasyFEA.FEM._group_elem", "EasyFEA.FEM._mesh"): f.module.name.startswith(_s), min_instances=50)
    # 'before and after the mesh is moved or mirrored': no memo of a geometric quantity survives a change of the coordinates
    from ..shared import memo_rule as _memo_rule, cached_param_rule as _cached_param_rule

    _scope = ("EasyFEA.FEM._group_elem", "EasyFEA.FEM._mesh", "EasyFEA.FEM.Elems")
    ctx.attempt(_memo_rule, ctx, "R8.9", scope=lambda f: f.module.name.startswith(_scope), min_instances=0)
    ctx.attempt(_cached_param_rule, ctx, "R8.10", min_instances=20)
    ctx.level = "other"
    ctx.explanation = (
        "Decided on the exact reference coordinates: every face / surface / segment row is coplanar (collinear), bounding, covers each face (edge) exactly once and the triple "
        "Get_pointsInElem uses gives an outward normal; 2-D contours are counter-clockwise with the reference area and the triangle tables tile the element; boundary element types "
        "agree with face sizes; the rotation matrix is orthogonal with determinant 1 and Symmetry is the Householder reflection (polynomial identities modulo the unit-vector "
        "relations); |det F| is used for measures. Known finding: 3-D point location ignores the element orientation. NOT decided: measures, closedness and point location on real "
        "(gmsh) meshes, floating-point geometry, the nearest-node search heuristic (F22)."
    )
    lib = ElemLib(ctx.repo)
    tables_rule(ctx, lib)
    # (R8.2 looked for a `normals *= -1` / np.sign statement in the 3-D branch of Get_pointsInElem: a frozen idiom; retired:
    # R8.23 interprets the function on a TETRA4 and a HEXA8 in both orientations.)
    rigid_rule(ctx)
    measure_rule(ctx)
    from .. import indexspace

    indexspace.rule(ctx, "R8.6")
    candidate_order_rule(ctx)
    ctx.attempt(inverse_map_rule, ctx, lib)
    ctx.attempt(motion_application_rule, ctx)
    ctx.attempt(location_candidates_rule, ctx)
    ctx.attempt(mesh_motion_rule, ctx)
    ctx.attempt(preselection_rule, ctx)
    ctx.attempt(projector_rule, ctx, lib)
    ctx.attempt(reflection_orientation_rule, ctx, lib)
    ctx.attempt(surface_normal_rule, ctx, lib)
    ctx.attempt(point_in_solid_rule, ctx, lib)
    ctx.attempt(evaluation_order_rule, ctx, lib)
    ctx.attempt(distorted_selection_rule, ctx, lib)
    from .c07 import weighted_jacobian_rule as _weighted_jacobian_rule

    # 'the measure ... is unchanged by ... reflection': |det F| * w, orientation-free
    ctx.attempt(_weighted_jacobian_rule, ctx, "R8.21")


def candidate_order_rule(ctx):
    """R8.7: point location visits the candidate elements in ascending order: _Get_Mapping writes the per-point reference
    coordinates at every visit (last visit wins) while its per-element outputs are indexed by element number, and the
    consumers pick the highest-numbered containing element - the two agree only for an ascending visit order."""
    from ..flow import Locals

    repo = ctx.repo
    r = ctx.rule("R8.7", "candidate elements of the point location have sorted provenance (np.unique / np.sort) - shared points must get reference coordinates and nodal values from the same element", min_instances=1)
    f = repo.method(GE, "_Get_nearby_elements")
    r.instance(fn=f.qualname)
    ge = repo.cls(GE)

    def sorted_returns(fn, depth=2):
        L = Locals(fn.node)
        rets = [n for n in ast.walk(fn.node) if isinstance(n, ast.Return) and n.value is not None]
        if not rets:
            return False
        for rt in rets:
            e = L.expand(rt.value)
            while isinstance(e, ast.Call) and (dotted(e.func) or "") in ("np.asarray", "np.array") and e.args:
                e = e.args[0]
            if isinstance(e, ast.Call) and (dotted(e.func) or "") in ("np.unique", "np.sort", "sorted", "np.arange", "np.flatnonzero"):
                continue
            if isinstance(e, ast.Subscript) and isinstance(e.value, ast.Call) and (dotted(e.value.func) or "") in ("np.where", "np.nonzero"):
                continue
            if depth > 0 and isinstance(e, ast.Call) and isinstance(e.func, ast.Attribute) and isinstance(e.func.value, ast.Name) and e.func.value.id == "self":
                g = repo.lookup_method(ge, e.func.attr)
                if g is not None and sorted_returns(g, depth - 1):
                    continue
            return False
        return True

    ok = sorted_returns(f)
    if ok:
        r.ok("_Get_nearby_elements returns np.unique(...) (ascending)")
    else:
        r.fail(f.qualname, "unsorted-candidates", f.file, f.lineno, "_Get_nearby_elements", "the candidate elements are returned in hash / discovery order: a point on a shared edge, face or node gets the reference coordinates of the last element visited but the nodal values of the highest-numbered one")


# ---------------------------------------------------------------------------
# R8.8  the inverse isoparametric map: residual of the iterative branch, closed form of the affine branch
# ---------------------------------------------------------------------------


def _free_names(fnode):
    bound = {a.arg for a in fnode.args.args + fnode.args.kwonlyargs}
    loads = set()
    for n in ast.walk(fnode):
        if isinstance(n, ast.Name):
            if isinstance(n.ctx, ast.Store):
                bound.add(n.id)
            else:
                loads.add(n.id)
    return loads - bound


def inverse_map_rule(ctx, lib):
    """In `_Get_Mapping` the reference coordinates of a located point are xi_0 + (x - x_0) inv(F) when the element is
    affine, otherwise the root of a residual handed to least_squares.  The residual must vanish exactly at the
    reference point whose image is the query point, for EVERY straight-sided element (not only parallelograms): it is
    interpreted on a generic rational straight-sided geometry at a symbolic reference point with xP = x(xi); the
    affine closed form is interpreted on the same kind of geometry for simplices."""
    from ..femchain import Chain

    repo = ctx.repo
    r = ctx.rule("R8.8", "inverse isoparametric map: the residual minimised for distorted elements vanishes identically at xP = x(xi) on general straight-sided elements; the affine closed form xi0 + (x - x0) inv(F) returns xi on simplices", min_instances=10)
    f = repo.method(GE, "_Get_Mapping")
    mi = f.module
    # the function handed to least_squares
    ls = [n for n in ast.walk(f.node) if isinstance(n, ast.Call) and (dotted(n.func) or "").split(".")[-1] == "least_squares"]
    if not ls or not ls[0].args or not isinstance(ls[0].args[0], ast.Name):
        raise AnalysisError("R8.8: the least_squares call of _Get_Mapping was not found")
    res_name = ls[0].args[0].id
    inner = [n for n in ast.walk(f.node) if isinstance(n, ast.FunctionDef) and n.name == res_name]
    if not inner:
        raise AnalysisError(f"R8.8: residual function {res_name} not found in _Get_Mapping")
    inner = inner[0]
    # the enclosing assignments the residual depends on (transitively), in source order, with their guards
    parents = {}
    for p in ast.walk(f.node):
        for c in ast.iter_child_nodes(p):
            parents[c] = p
    assigns = {}
    for n in ast.walk(f.node):
        if isinstance(n, ast.Assign) and len(n.targets) == 1 and isinstance(n.targets[0], ast.Name):
            # not inside the residual itself or another nested function
            q, nested = n, False
            while q in parents:
                q = parents[q]
                if isinstance(q, (ast.FunctionDef, ast.Lambda)) and q is not f.node:
                    nested = True
            if not nested:
                assigns.setdefault(n.targets[0].id, []).append(n)
    # the element loop variable(s): every plain for-target of the function is bound to element 0
    loop_names = {n.target.id for n in ast.walk(f.node) if isinstance(n, ast.For) and isinstance(n.target, ast.Name)}
    provided = {"self", "np", "least_squares"} | loop_names
    need, order = set(_free_names(inner)), []
    work = list(need)
    seen = set()
    while work:
        nm = work.pop()
        if nm in seen or nm in provided:
            continue
        seen.add(nm)
        for a in assigns.get(nm, []):
            order.append(a)
            for x in ast.walk(a.value):
                if isinstance(x, ast.Name) and x.id not in seen:
                    work.append(x.id)
            # the names its guards test are needed too (to decide whether the assignment is on the path)
            q = a
            while q in parents:
                p_ = parents[q]
                if isinstance(p_, ast.If):
                    for x in ast.walk(p_.test):
                        if isinstance(x, ast.Name) and x.id not in seen:
                            work.append(x.id)
                q = p_
    order = sorted(set(order), key=lambda a: a.lineno)

    def guards(n):
        out = []
        q = n
        while q in parents:
            p = parents[q]
            if isinstance(p, ast.If):
                out.append((p.test, q in p.body))
            q = p
        return out

    names2 = [n for n in lib.names((2, 3)) if lib.get(n).shape in ("TRI", "QUAD", "TETRA", "HEXA", "PRISM")]
    # an orthonormal rational frame: columns = the element's own axes (i, j, k) in space
    FR = [[Q(2, 3), Q(-2, 3), Q(1, 3)], [Q(2, 3), Q(1, 3), Q(-2, 3)], [Q(1, 3), Q(2, 3), Q(2, 3)]]
    ORG = [Q(1, 2), Q(-3), Q(7, 5)]
    variants = [(n, False) for n in names2] + [(n, True) for n in ("QUAD4", "QUAD8", "TRI6")]
    for name, embedded in variants:
        ed = lib.get(name)
        if ed.order > 2 and ed.shape in ("HEXA", "PRISM"):
            continue
        r.instance(fn=f.qualname)
        ch = Chain(lib, name, symbolic_vertices=False)
        dim = ed.dim
        I = ch.I
        label = f"{name} embedded in space (plane through (1/2, -3, 7/5), rational orthonormal axes)" if embedded else name
        if embedded:
            # place the plane element in space: X = ORG + x i + y j; the element's frame is handed out by _Get_sysCoord_e
            glob = [[ORG[c] + row[0] * FR[c][0] + row[1] * FR[c][1] for c in range(3)] for row in ch.node_coords]
            ch.obj.attrs["coord"] = XArray.from_nested(glob)
            ch.obj.attrs["inDim"] = 3
            ch.obj.attrs["_Get_sysCoord_e"] = lambda *a, **k: XArray((1, 3, 3), [FR[i][j] for i in range(3) for j in range(3)])
        coordElem = XArray.from_nested(ch.node_coords)
        env = {"self": ch.obj}
        env.update({nm: 0 for nm in loop_names})
        try:
            for a in order:
                skip = False
                for test, in_body in guards(a):
                    try:
                        tv = I.eval_expr(test, dict(env), f.file, mi)
                        tv = bool(tv) if isinstance(tv, (bool, int)) else None
                    except (Uninterpretable, AnalysisError, KeyError):
                        tv = None
                    if tv is not None and tv != in_body:
                        skip = True
                if skip:
                    continue
                try:
                    env[a.targets[0].id] = I.eval_expr(a.value, dict(env), f.file, mi)
                except (Uninterpretable, AnalysisError) as _e:
                    import os
                    if os.environ.get("DBG88"): print("skip", a.targets[0].id, _e)
                    continue  # not needed on this path (e.g. Gauss-point data of the affine branch)
            fn_clo = I.run_statements([inner], env, mi, [res_name], cls=f.cls)[0]
            xi = XArray((dim,), [Poly.var(v) for v in ed.vars])
            if embedded:
                # the query point is x(xi) in space; the code projects it on the element's axes the way it projects the nodes
                xloc = ch.x_of_xi()
                xg = [Poly.const(ORG[c]) + xloc[0] * FR[c][0] + xloc[1] * FR[c][1] for c in range(3)]
                xP = XArray((dim,), [sum((xg[c] * FR[c][k] for c in range(3)), Poly()) for k in range(dim)])
            else:
                xP = XArray((dim,), ch.x_of_xi())
            J = XArray.from_nested(fn_clo(xi, xP))
        except XRaise as e:
            r.fail(f.qualname, f"residual:{ed.shape}{':embedded' if embedded else ''}", f.file, inner.lineno, "_Get_Mapping", f"{label}: the residual raises {e}")
            continue
        bad = [k for k, v in enumerate(J.data) if not is_zero(v)]
        if bad:
            r.fail(f.qualname, f"residual:{ed.shape}{':embedded' if embedded else ''}", f.file, inner.lineno, "_Get_Mapping", f"{label}: on a general straight-sided element the residual handed to least_squares does not vanish at the point whose image is the query point (component {bad[0]}: {str(J.data[bad[0]])[:120]}): located points get wrong reference coordinates, so interpolated values are wrong on every non-parallelogram element")
        else:
            r.ok(f"{label}: residual(xi, x(xi)) == 0 identically on a generic straight-sided geometry")
    # affine closed form on simplices
    for name in [n for n in names2 if lib.get(n).shape in ("TRI", "TETRA")]:
        ed = lib.get(name)
        r.instance(fn=f.qualname)
        ch = Chain(lib, name, symbolic_vertices=False, fe=True)
        dim = ed.dim
        invF = XArray.from_nested(ch.invF())
        x = ch.x_of_xi()
        x0 = [ch.node_coords[0][k] for k in range(dim)]
        origin = ch.I.call_function(repo.lookup_method(ed.cls, "origin"), [], self_obj=ch.obj) if repo.lookup_method(ed.cls, "origin") is not None else None
        if origin is None:
            raise AnalysisError("R8.8: element origin not found")
        origin = list(XArray.from_nested(origin).data)
        if len(origin) == 1:
            origin = origin * dim  # numpy broadcasting of [0]
        bad = None
        for j in range(dim):
            tot = Poly.const(origin[j]) if not isinstance(origin[j], Poly) else origin[j]
            for k in range(dim):
                tot = tot + (x[k] - x0[k]) * invF[0, 0, k, j]
            if not is_zero(tot - Poly.var(ed.vars[j])):
                bad = (j, tot)
        if bad:
            r.fail(f.qualname, f"affine:{name}", f.file, f.lineno, "_Get_Mapping", f"{name}: xi0 + (x(xi) - x0) @ invF is {bad[1]!r} for component {bad[0]}, not the reference coordinate")
        else:
            r.ok(f"{name}: xi0 + (x(xi) - x0) @ inv(F) == xi")


def motion_application_rule(ctx):
    """R8.13: Geoms.Rotate / Translate apply the motion they name: Rotate(x) = c + R (x - c) with R the matrix
    _Rotation_matrix returns for (direction, theta * pi / 180) -- applied as R, not as its transpose (the inverse
    rotation) -- and Translate(x) = x + (dx, dy, dz); interpreted with a symbolic matrix and symbolic points."""
    from ..xeval import FuncInfo, _Bound, NP

    repo = ctx.repo
    r = ctx.rule("R8.13", "Rotate(x) == c + R (x - c) with R = _Rotation_matrix(direction, theta*pi/180) (not its transpose); Translate(x) == x + (dx, dy, dz)", min_instances=2)
    fR, fT = repo.func(GU + ".Rotate"), repo.func(GU + ".Translate")
    Rm = [[Poly.var(f"r{i}{j}") for j in range(3)] for i in range(3)]
    cap = {}

    def hook(fn, args, kwargs):
        fi = fn if isinstance(fn, FuncInfo) else getattr(fn, "finfo", None)
        if isinstance(fi, FuncInfo) and fi.name == "_Rotation_matrix":
            cap["args"] = args
            return XArray((3, 3), [Rm[i][j] for i in range(3) for j in range(3)])
        if isinstance(fi, FuncInfo) and fi.name in ("AsCoords", "_"):
            v = list(XArray.from_nested(args[0]).data)
            return XArray((3,), v + [Q(0)] * (3 - len(v)))
        return NotImplemented

    def attr(obj, name):
        if obj is NP and name == "pi":
            return Poly.var("PI")
        return NotImplemented

    pts = XArray((2, 3), [Poly.var(f"x{n}{d}") for n in range(2) for d in range(3)])
    c = XArray((3,), [Poly.var(f"c{d}") for d in range(3)])
    axis = XArray((3,), [Poly.var(f"n{d}") for d in range(3)])
    r.instance(fn=fR.qualname)
    I = Interp(repo)
    I.call_hook, I.attr_hook = hook, attr
    try:
        out = XArray.from_nested(I.call_function(fR, [pts, Q(30), c, axis]))
        bad = None
        if out.shape != (2, 3):
            bad = f"shape {out.shape}"
        else:
            for n in range(2):
                for i in range(3):
                    want = c[i] + sum((Rm[i][j] * (pts[n, j] - c[j]) for j in range(3)), Poly())
                    if not is_zero(Poly.of(out[n, i]) - want):
                        wantT = c[i] + sum((Rm[j][i] * (pts[n, j] - c[j]) for j in range(3)), Poly())
                        bad = f"component {i} of point {n} is {out[n, i]!r}" + (": the TRANSPOSE of the rotation matrix is applied (rotation by -theta)" if is_zero(Poly.of(out[n, i]) - wantT) else f", expected {want!r}")
        a = cap.get("args")
        if bad is None and a is not None:
            ang = Poly.of(a[1]) if not isinstance(a[1], Poly) else a[1]
            if not is_zero(ang - Poly.var("PI") * Q(30, 180)):
                bad = f"the angle handed to _Rotation_matrix is {a[1]!r}, expected theta * pi / 180 (degrees to radians)"
            elif list(XArray.from_nested(a[0]).data) != list(axis.data):
                bad = "the axis handed to _Rotation_matrix is not the `direction` argument"
        if bad:
            r.fail(fR.qualname, "rotate-application", fR.file, fR.lineno, "Rotate", bad)
        else:
            r.ok("Rotate: c + R (x - c), angle in radians")
    except XRaise as e:
        r.fail(fR.qualname, "rotate-application", fR.file, fR.lineno, "Rotate", f"raises {e}")
    r.instance(fn=fT.qualname)
    I = Interp(repo)
    I.call_hook = hook
    d = [Poly.var("dx"), Poly.var("dy"), Poly.var("dz")]
    out = XArray.from_nested(I.call_function(fT, [pts, d[0], d[1], d[2]]))
    if out.shape == (2, 3) and all(is_zero(Poly.of(out[n, i]) - (pts[n, i] + d[i])) for n in range(2) for i in range(3)):
        r.ok("Translate: x + (dx, dy, dz)")
    else:
        r.fail(fT.qualname, "translate-application", fT.file, fT.lineno, "Translate", "the translation is not x + (dx, dy, dz) component by component")


class _ExactKDTree:
    """scipy.spatial.KDTree on exact coordinates: nearest neighbour and ball queries by exhaustive comparison"""

    _xeval_open = True

    def __init__(self, pts):
        self.pts = XArray.from_nested(pts)

    @staticmethod
    def _d2(a, b):
        return sum(((x - y) * (x - y) for x, y in zip(a, b)), Q(0))

    def _rows(self, x):
        x = XArray.from_nested(x)
        if x.ndim == 1:
            return [list(x.data)], True
        n = x.shape[-1]
        return [list(x.data[i * n: (i + 1) * n]) for i in range(x.size // n)], False

    def query(self, x, k=1):
        if k != 1:
            raise AnalysisError("KDTree.query with k != 1 is not modelled")
        rows, single = self._rows(x)
        n = self.pts.shape[1]
        P = [list(self.pts.data[i * n: (i + 1) * n]) for i in range(self.pts.shape[0])]
        idx, dist = [], []
        for r in rows:
            best = min(range(len(P)), key=lambda i: (self._d2(r, P[i]), i))
            idx.append(best)
            dist.append(MQ.sqrt(self._d2(r, P[best])))
        if single:
            return dist[0], idx[0]
        return XArray((len(rows),), dist), XArray((len(rows),), idx)

    def query_ball_point(self, x, r):
        rows, single = self._rows(x)
        n = self.pts.shape[1]
        P = [list(self.pts.data[i * n: (i + 1) * n]) for i in range(self.pts.shape[0])]
        r = exact(r)
        r2 = r * r
        if isinstance(r2, MQ):
            if not r2.is_rational():
                raise AnalysisError("KDTree radius whose square is irrational")
            r2 = r2.rational()
        out = [[i for i in range(len(P)) if self._d2(row, P[i]) <= r2] for row in rows]
        return out[0] if single else out


def location_candidates_rule(ctx):
    """R8.14: 'locating arbitrary points, singly or in batches': the candidate elements Get_Mapping searches when the
    caller names none contain, for every query coordinate, the element that holds it.  _Get_nearby_elements and
    _Get_nearby_nodes are interpreted on a two-triangle mesh with a stretched element (the closest node of a point of
    the large triangle belongs to the flat neighbour only), one query point at a time, with an exact KD-tree."""
    from ..xeval import exact as _exact

    repo = ctx.repo
    r = ctx.rule("R8.14", "point location: the default candidate set of Get_Mapping holds the element containing each query coordinate (stretched two-triangle meshes, single-point queries, exact KD-tree)", min_instances=9)
    ge = repo.cls(GE)
    f = ge.methods["_Get_nearby_elements"]
    connect = XArray((2, 3), [0, 1, 2, 0, 3, 1])
    rows = [[0, 1, 2], [0, 3, 1]]

    def elements_of(nodes, exclusively=True):
        ns = set(int(_exact(v)) for v in (XArray.from_nested(nodes).data if not isinstance(nodes, int) else [nodes]))
        return XArray.from_nested([e for e, c in enumerate(rows) if (set(c) <= ns if exclusively else set(c) & ns)] or [])

    def hook(fn, args, kwargs):
        if isinstance(fn, Opaque) and fn.tag.endswith(("spatial.KDTree", "spatial.cKDTree")):
            return _ExactKDTree(args[0])
        fi = fn if isinstance(fn, FuncInfo) else getattr(fn, "finfo", None)
        if isinstance(fi, FuncInfo) and fi.name == "_CheckIsVector":
            return None
        return NotImplemented

    # nodes A(0,0) B(10,0) C(5,3) and D below AB: under the middle of AB, then under its first fifth (query points far from the centroid of ABC)
    cases = [(Q(5), Q(-1, 2), Q(5), y, h) for y, h in ((Q(-2, 5), 1), (Q(1, 10), 0), (Q(2, 5), 0), (Q(1), 0), (Q(2), 0), (Q(14, 5), 0))]
    cases += [(Q(2), Q(-3, 10), Q(2), y, h) for y, h in ((Q(-1, 5), 1), (Q(1, 5), 0), (Q(1, 2), 0))]
    for dx, dy, x, y, holder in cases:
        coord = XArray((4, 3), [Q(0), Q(0), Q(0), Q(10), Q(0), Q(0), Q(5), Q(3), Q(0), dx, dy, Q(0)])
        r.instance(fn=f.qualname)
        g = XObj(ge, {"coord": coord, "nodes": XArray((4,), [0, 1, 2, 3]), "connect": connect, "_global_to_local_nodes": XArray((4,), [0, 1, 2, 3]), "Nn": 4, "Ne": 2, "dim": 2, "inDim": 2, "Get_Elements_Nodes": elements_of})
        g.attrs[ge.mangle("__connect")] = connect
        g.attrs[ge.mangle("__coord")] = coord
        I = Interp(repo)
        I.call_hook = hook
        q = XArray((1, 3), [x, y, Q(0)])
        out = I.call_function(f, [q], self_obj=g)
        got = sorted(int(_exact(v)) for v in XArray.from_nested(out).data) if not isinstance(out, (int,)) else [int(out)]
        if holder in got:
            r.ok(f"D({dx}, {dy}), point ({x}, {y}) alone: candidates {got} hold element {holder}")
        else:
            r.fail(f.qualname, "candidates", f.file, f.lineno, "_Get_nearby_elements", f"nodes A(0,0) B(10,0) C(5,3) D({dx},{dy}), triangles ABC and ADB, single query point ({x}, {y}): it lies in element {holder} but the candidate elements are {got}: the point is not located and the evaluated field is 0 there")


def mesh_motion_rule(ctx, rid="R8.15"):
    """Mesh.Translate / Rotate / Symmetry and the coord setter move EVERY element group of the mesh -- the main groups,
    their boundary groups and the point group share the coordinates -- by the same motion, then notify the observers.
    The four mutators are interpreted on a mesh of three recorder groups (dimension 2, 1 and 0)."""
    from ..xeval import FuncInfo

    repo = ctx.repo
    r = ctx.rule(rid, "mesh motions: Translate / Rotate / Symmetry / coord assignment hand the moved coordinates to every element group (all dimensions) and notify", min_instances=4)
    mesh = repo.cls("EasyFEA.FEM._mesh.Mesh")

    ge = repo.cls(GE)
    inval = []

    def G(dim, coord, tag=None):
        # a real element-group object (its own coord setter and whatever helper the mesh calls on it are interpreted);
        # _InitMatrix -- the invalidation of the memoised geometric factors -- is recorded
        g = XObj(ge, {"dim": dim, "inDim": 2, "nodes": XArray((3,), [0, 1, 2], "i"), "Ncoords": 3, ge.mangle("__coord"): coord})
        g.attrs["_InitMatrix"] = lambda g=g: inval.append(id(g))
        return g

    old = XArray((3, 3), [Poly.var(f"x{n}{c}") for n in range(3) for c in range(3)])
    moved = XArray((3, 3), [Poly.var(f"m{n}{c}") for n in range(3) for c in range(3)])
    d = [Poly.var("dx"), Poly.var("dy"), Poly.var("dz")]
    cases = [
        ("Translate", mesh.methods["Translate"], list(d), XArray((3, 3), [old[n, c] + d[c] for n in range(3) for c in range(3)])),
        ("Rotate", mesh.methods["Rotate"], [Q(30)], moved),
        ("Symmetry", mesh.methods["Symmetry"], [], moved),
        ("coord = ...", mesh.setters["coord"], [moved], moved),
    ]
    for label, f, args, want in cases:
        r.instance(fn=f.qualname)
        groups = {"TRI3": G(2, XArray(old.shape, list(old.data))), "SEG2": G(1, XArray(old.shape, list(old.data))), "POINT": G(0, XArray(old.shape, list(old.data)))}
        del inval[:]
        notes = []
        obj = XObj(mesh, {mesh.mangle("__dict_groupElem"): groups, mesh.mangle("__dim"): 2, "_Notify": lambda *a, **k: notes.append(a)})

        def hook(fn, a, k):
            fi = fn if isinstance(fn, FuncInfo) else getattr(fn, "finfo", None)
            if isinstance(fi, FuncInfo) and fi.module.name.endswith("Geoms._utils") and fi.name in ("Rotate", "Symmetry"):
                return XArray(moved.shape, list(moved.data))
            return NotImplemented

        I = Interp(repo)
        I.call_hook = hook
        I.call_function(f, args, self_obj=obj)
        cur = {t: g.attrs.get(ge.mangle("__coord")) for t, g in groups.items()}
        stale = [t for t, c in cur.items() if not (isinstance(c, XArray) and c.shape == want.shape and all(is_zero(Poly.of(a) - Poly.of(b)) for a, b in zip(c.data, want.data)))]
        kept = [t for t, g in groups.items() if id(g) not in inval]
        if not stale and kept:
            r.fail(f.qualname, f"memo-kept:{label}", f.file, f.lineno, f"Mesh.{label}", f"Mesh.{label}: the element group(s) {kept} receive the moved coordinates without re-initialising their memoised geometric factors (F, invF, jacobian, ...): the embedding dimension read from the coordinates can change with the motion (a planar mesh moved out of its plane), the kept inverse Jacobians then belong to another frame than the freshly computed mappings")
        elif stale:
            r.fail(f.qualname, f"motion:{label}", f.file, f.lineno, f"Mesh.{label}", f"Mesh.{label}: the element group(s) {stale} keep their coordinates (or receive other ones): boundary normals, boundary integrals and the measure after the next motion are computed from two different geometries")
        elif not notes:
            r.fail(f.qualname, f"notify:{label}", f.file, f.lineno, f"Mesh.{label}", f"Mesh.{label} does not notify the observers")
        else:
            r.ok(f"Mesh.{label}: every group moved, observers notified")


def preselection_rule(ctx):
    """R8.16: 'locating arbitrary points ... in batches': the bounding-box preselection of _Get_Mapping returns every query
    coordinate that lies inside the bounds of the element, whatever the TYPE of the coordinate array (an integer
    lattice takes the image fast path) and the ORDER of the coordinates in it: an image raster, the same lattice in
    x-major order, a shuffled lattice, and the same points as floats -- points on the far boundary included.
    _Get_coord_Near is interpreted with integer-kind arrays modelled."""
    repo = ctx.repo
    ge = repo.cls(GE)
    f = ge.methods["_Get_coord_Near"]
    r = ctx.rule("R8.16", "bounding-box preselection of the point location: every coordinate inside the element's bounds is returned, for integer lattices in any order and for floats, far boundary included", min_instances=6)
    nX, nY = 5, 4
    raster = [(x, y) for y in range(nY) for x in range(nX)]  # image order: x fastest
    xmajor = [(x, y) for x in range(nX) for y in range(nY)]  # np.mgrid order
    shuffled = [raster[(7 * k + 3) % len(raster)] for k in range(len(raster))]
    elems = {"interior": [(Q(6, 5), Q(1, 2)), (Q(16, 5), Q(1, 2)), (Q(2), Q(12, 5))], "touching the far corner": [(Q(3), Q(2)), (Q(4), Q(2)), (Q(4), Q(3))]}
    for oname, pts in (("image raster", raster), ("x-major lattice", xmajor), ("shuffled lattice", shuffled)):
        for kind in ("i", None):
            for ename, tri in elems.items():
                r.instance(fn=f.qualname)
                coords = XArray((len(pts), 3), [v for (x, y) in pts for v in (x, y, 0)], kind)
                if kind is None:
                    coords = XArray(coords.shape, [Q(v) for v in coords.data])
                coordElem = XArray((3, 3), [v for (x, y) in tri for v in (x, y, Q(0))])
                dims = XArray((3,), [nX, nY, 1], kind)
                xs, ys = [p[0] for p in tri], [p[1] for p in tri]
                want = {k for k, (x, y) in enumerate(pts) if min(xs) <= x <= max(xs) and min(ys) <= y <= max(ys)}
                label = f"{oname} of {'integers' if kind else 'floats'}, element {ename}"
                try:
                    out = Interp(repo).call_function(f, [coords, coordElem, dims], self_obj=XObj(ge, {}))
                    got = {int(exact(v)) for v in XArray.from_nested(out).data}
                except XRaise as e:
                    r.fail(f.qualname, f"preselect:{oname}:{kind}", f.file, f.lineno, "_Get_coord_Near", f"{label}: raises {e}")
                    continue
                missing = sorted(want - got)
                if missing:
                    r.fail(f.qualname, f"preselect:{oname}:{'int' if kind else 'float'}", f.file, f.lineno, "_Get_coord_Near", f"{label}: the coordinates {[pts[k] for k in missing][:4]} lie inside the element's bounds but are not preselected (returned: {[pts[k] for k in sorted(got)][:6]}): they are never tested against the element, the field evaluated there is 0")
                else:
                    r.ok(f"{label}: every coordinate in the bounds is preselected")


def projector_rule(ctx, lib):
    """R8.17: the mesh-to-mesh projector interpolates: every row of Calc_projector(old, new) is ONE interpolation of the old
    nodal values at the new node -- also for a new node lying on an edge shared by two old elements, which the point
    location reports in both (its reference coordinates being those of one of them).  Calc_projector is interpreted
    on two triangles sharing a diagonal, with a modelled sparse matrix: rows sum to one and a symbolic linear field is
    reproduced at a node on the diagonal and at an interior node."""
    from types import SimpleNamespace

    from .c03 import XCsr
    from ..xeval import FuncInfo, Sink as _XSink

    repo = ctx.repo
    f = repo.func("EasyFEA.FEM._mesh.Calc_projector")
    r = ctx.rule("R8.17", "Calc_projector: each row is one interpolation (rows sum to 1, a symbolic linear field is reproduced), new node on an edge shared by two old elements included", min_instances=1)
    r.instance(fn=f.qualname)
    ed = lib.get("TRI3")
    tri = ed.obj
    old_xy = [(Q(0), Q(0)), (Q(1), Q(0)), (Q(1), Q(1)), (Q(0), Q(1))]
    new_xy = old_xy + [(Q(1, 2), Q(1, 2)), (Q(3, 4), Q(1, 4))]
    connect = XArray((2, 3), [0, 1, 2, 0, 2, 3])
    # reference coordinates of the detected nodes (those of the LAST element that detected each of them)
    xi = [(Q(0), Q(0)), (Q(1), Q(0)), (Q(1), Q(0)), (Q(0), Q(1)), (Q(1, 2), Q(0)), (Q(1, 2), Q(1, 4))]
    mapping = (XArray((6,), list(range(6))), XArray((2,), [0, 1]), [XArray((5,), [0, 1, 2, 4, 5]), XArray((4,), [0, 2, 3, 4])], XArray((6, 2), [v for p in xi for v in p]))
    N_of = repo.lookup_method(ed.cls, "_N")
    I = Interp(repo, extra_builtins={"Tic": lambda *a, **k: _XSink()})
    Ntab = I.call_function(N_of, [], self_obj=tri)
    gold = SimpleNamespace(Get_Mapping=lambda *a, **k: mapping, _N=lambda: Ntab, nPe=3, _Get_nearby_nodes=lambda c: XArray((0,), []))
    corners = SimpleNamespace(nodes=XArray((4,), [0, 1, 2, 3]))
    old = SimpleNamespace(dim=2, Nn=4, groupElem=gold, connect=connect, Get_Quality=lambda *a, **k: XArray((2,), [Q(1), Q(1)]), Get_list_groupElem=lambda d=None: [corners])
    new = SimpleNamespace(dim=2, Nn=6, coord=XArray((6, 3), [v for (x, y) in new_xy for v in (x, y, Q(0))]), Get_list_groupElem=lambda d=None: [corners])

    def hook(fn, args, kwargs):
        if isinstance(fn, Opaque) and fn.tag.endswith("csr_matrix"):
            kwargs = {k: v for k, v in kwargs.items() if k != "dtype"}
            if len(args) == 2:
                return XCsr(args[0], shape=args[1])
            return XCsr(*args, **kwargs)
        fi = fn if isinstance(fn, FuncInfo) else getattr(fn, "finfo", None)
        if isinstance(fi, FuncInfo) and fi.module.name.startswith("EasyFEA.Utilities"):
            return _XSink()
        return NotImplemented

    I.call_hook = hook
    try:
        P = I.call_function(f, [old, new])
    except XRaise as e:
        r.fail(f.qualname, "projector", f.file, f.lineno, "Calc_projector", f"raises {e}")
        return
    if not isinstance(P, XCsr):
        raise AnalysisError("R8.17: Calc_projector did not return the modelled sparse matrix")
    a, b, c = Poly.var("a"), Poly.var("b"), Poly.var("c")
    field = lambda x, y: a + b * x + c * y
    uold = [field(x, y) for x, y in old_xy]
    bad = None
    for n, (x, y) in enumerate(new_xy):
        rs = P.row_sum(n)
        if not is_zero(Poly.of(rs) - 1):
            bad = f"row {n} (new node at ({x}, {y})) sums to {rs}, not 1"
            break
        val = sum((Poly.of(v) * uold[j] for (i, j), v in P.entries.items() if i == n), Poly())
        if not is_zero(val - field(x, y)):
            bad = f"new node at ({x}, {y}): the projected linear field is {val!r}, expected {field(x, y)!r}"
            break
    if bad:
        r.fail(f.qualname, "projector", f.file, f.lineno, "Calc_projector", f"old mesh: triangles ABC, ACD of the unit square; new nodes at the corners, at (1/2, 1/2) on the shared diagonal and at (3/4, 1/4): {bad}: a node detected in two elements receives one interpolation per element")
    else:
        r.ok("two triangles sharing a diagonal: rows sum to 1, linear field reproduced")



def reflection_orientation_rule(ctx, lib, rid="R8.18"):
    """'outward normals ... before and after the mesh is moved or mirrored': the normal of a boundary element is built from
    the order of its nodes (cross(z, dx/dr) for segments, dx/dr x dx/ds for faces).  A reflection H keeps the
    connectivity and maps the coordinates, so the computed normal becomes cross(H a, H b) = det(H) H (a x b) = -H n:
    the image of an outward normal points INTO the mirrored domain unless the reflection also reverses the orientation
    of the boundary elements.  Get_normals_e_pg is interpreted on a symbolic segment and a symbolic triangle before
    and after Geoms.Symmetry (rational unit normal of the mirror); required: n_after == H n_before."""
    from ..femchain import fe_hook_full

    repo = ctx.repo
    ge = repo.cls(GE)
    f = ge.methods["Get_normals_e_pg"]
    fsym = repo.func(GU + ".Symmetry")
    r = ctx.rule(rid, "a reflection of the mesh maps the normals of the boundary elements by the reflection (n_after == H n_before): outward stays outward", min_instances=2)
    m = [Q(3, 5), Q(4, 5), Q(0)]
    H = [[(Q(1) if i == j else Q(0)) - 2 * m[i] * m[j] for j in range(3)] for i in range(3)]
    for name, planar in (("SEG2", True), ("TRI3", False)):
        ed = lib.get(name)
        r.instance(fn=f.qualname)
        nPe = ed.nPe
        pts = [[Poly.var(f"x{a}{c}") if (c < 2 or not planar) else Poly() for c in range(3)] for a in range(nPe)]
        dN = XArray.from_nested([[[Poly.of(e) for e in row] for row in [[ed.tables["dN"][1][a * ed.dim + k] for a in range(nPe)] for k in range(ed.dim)]]]) if False else None
        I0 = Interp(repo)
        I0.call_hook = fe_hook_full
        dNtab = I0.call_function(repo.lookup_method(ed.cls, "_dN"), [], self_obj=ed.obj)
        # evaluate the derivative table at the reference origin (constant for SEG2 / TRI3)
        dNv = XArray.from_nested(dNtab)
        vals = [[None] * nPe for _ in range(ed.dim)]
        for a in range(nPe):
            for k in range(ed.dim):
                fn = dNv[a, k] if dNv.ndim == 2 else dNv[a]
                vals[k][a] = fn(*([Q(0)] * ed.dim))
        dN_pg = XArray((1, ed.dim, nPe), [vals[k][a] for k in range(ed.dim) for a in range(nPe)])

        def normals(coords):
            obj = XObj(ge, {"dim": ed.dim, "order": ed.order, "coord": XArray((nPe, 3), [v for p in coords for v in p]), "connect": XArray((1, nPe), list(range(nPe))), "_global_to_local_nodes": XArray((nPe,), list(range(nPe))), "Get_dN_pg": lambda mt=None: dN_pg, "Ncoords": nPe, "nodes": XArray((nPe,), list(range(nPe)))})
            I = Interp(repo)
            I.call_hook = fe_hook_full
            return XArray.from_nested(I.call_function(f, [Opaque("mt"), None, False], self_obj=obj))

        n0 = normals(pts)
        I = Interp(repo)

        def hook(fn, args, kwargs):
            from ..xeval import FuncInfo

            fi = fn if isinstance(fn, FuncInfo) else getattr(fn, "finfo", None)
            if isinstance(fi, FuncInfo) and fi.name in ("AsCoords", "_") and fi.module.name.endswith("Geoms._utils"):
                v = list(XArray.from_nested(args[0]).data)
                return XArray((3,), v + [Q(0)] * (3 - len(v)))
            if isinstance(fi, FuncInfo) and fi.name == "Normalize":
                return XArray.from_nested(args[0])  # the mirror normal given is a unit vector
            return NotImplemented

        I.call_hook = hook
        moved = XArray.from_nested(I.call_function(fsym, [XArray((nPe, 3), [v for p in pts for v in p]), [Q(1), Q(-2), Q(0)], list(m)]))
        n1 = normals([[moved[a, c] for c in range(3)] for a in range(nPe)])
        want = [sum((Poly.of(n0[0, 0, j]) * H[i][j] for j in range(3)), Poly()) for i in range(3)]
        got = [Poly.of(n1[0, 0, i]) for i in range(3)]
        if all(is_zero(g - w) for g, w in zip(got, want)):
            r.ok(f"{name}: normal after the reflection == H . normal before")
        elif all(is_zero(g + w) for g, w in zip(got, want)):
            r.fail(f.qualname, f"reflection-flips-normal:{name}", f.file, f.lineno, "Get_normals_e_pg", f"{name} boundary element: after Mesh.Symmetry the computed normal is MINUS the image of the normal (cross(H a, H b) = -H (a x b), the connectivity keeps its order): normals that were outward point into the mirrored domain; a pressure applied after the reflection acts in the opposite sense")
        else:
            r.fail(f.qualname, f"reflection-normal:{name}", f.file, f.lineno, "Get_normals_e_pg", f"{name}: the normal after the reflection is neither H n nor -H n")


def evaluation_order_rule(ctx, lib):
    """R8.19: 'locating arbitrary points, singly or in batches, and evaluating a nodal field there reproduces any
    polynomial of the element's order' -- whatever the ORDER in which the caller lists the candidate elements.
    Mesh.Evaluate_dofsValues_at_coordinates, Get_Mapping and _Get_Mapping are interpreted end to end on two TRI3 sharing
    the diagonal of the unit square (real shape functions, Jacobians and inverse map; the two geometric predicates
    _Get_coord_Near / Get_pointsInElem, decided by R8.1, R8.2, R8.16, are replaced by exact oracles) with a symbolic linear
    nodal field a + b x + c y, for query points on the shared diagonal, at a shared vertex and inside one element, with the
    candidate elements given ascending, descending and with a repetition: the evaluated field must be a + b x + c y."""
    from types import SimpleNamespace

    from ..gausslib import GaussLib
    from ..femchain import fe_hook_full

    repo = ctx.repo
    mesh_ci = repo.cls("EasyFEA.FEM._mesh.Mesh")
    fE = mesh_ci.methods["Evaluate_dofsValues_at_coordinates"]
    r = ctx.rule("R8.19", "Evaluate_dofsValues_at_coordinates reproduces a symbolic linear field at points on a shared edge, at a shared vertex and inside an element, for candidate elements listed in any order (ascending, descending, repeated)", min_instances=3)
    ge = repo.cls(GE)
    coords = [[Q(0), Q(0), Q(0)], [Q(1), Q(0), Q(0)], [Q(1), Q(1), Q(0)], [Q(0), Q(1), Q(0)]]
    rows = [[0, 1, 2], [0, 2, 3]]
    connect = XArray((2, 3), [n for row in rows for n in row], "i")
    kind = GaussLib(repo).factory("TRI3", "mass")
    gc, gw = XArray.from_nested(kind[3]), XArray.from_nested(kind[4])

    def pts_in_elem(cn, e):
        cn = XArray.from_nested(cn)
        tri = [coords[n] for n in rows[int(e)]]
        cr = lambda a, b, c: (b[0] - a[0]) * (c[1] - a[1]) - (b[1] - a[1]) * (c[0] - a[0])
        out = [i for i in range(cn.shape[0]) if all(cr(tri[k], tri[(k + 1) % 3], (cn[i, 0], cn[i, 1])) >= 0 for k in range(3))]
        return XArray((len(out),), out, "i")

    def hook(fn, args, kwargs):
        fi = fn if isinstance(fn, FuncInfo) else getattr(fn, "finfo", None)
        if isinstance(fi, FuncInfo) and fi.module.name.startswith("EasyFEA.Utilities") and fi.name in ("Tic", "Tac", "_CheckIsVector"):
            return Sink()
        return fe_hook_full(fn, args, kwargs)

    a_, b_, c_ = Poly.var("a"), Poly.var("b"), Poly.var("c")
    u = XArray((4,), [a_ + b_ * c[0] + c_ * c[1] for c in coords])
    pts = [(Q(1, 2), Q(1, 2)), (Q(0), Q(0)), (Q(3, 4), Q(1, 4)), (Q(1, 3), Q(1, 3)), (Q(1, 4), Q(1, 2))]
    q = XArray((len(pts), 3), [v for p in pts for v in (p[0], p[1], Q(0))])
    for label, el in (("ascending", [0, 1]), ("descending", [1, 0]), ("repeated", [1, 0, 1])):
        r.instance(fn=fE.qualname)
        obj = lib.make_obj("TRI3")
        at = obj.attrs
        at.update(Ne=2, Nn=4, Ncoords=4, connect=connect, coord=XArray.from_nested(coords), inDim=2, _global_to_local_nodes=XArray((4,), [0, 1, 2, 3], "i"), nodes=XArray((4,), [0, 1, 2, 3], "i"))
        at[ge.mangle("__connect")] = connect
        at[ge.mangle("__coord")] = at["coord"]
        at[ge.mangle("__dim")] = 2
        at["Get_gauss"] = lambda mt=None: SimpleNamespace(coord=gc, weights=gw, nPg=gc.shape[0])
        at["Get_pointsInElem"] = pts_in_elem
        at["_Get_coord_Near"] = lambda cn, ce, dims=None: XArray((XArray.from_nested(cn).shape[0],), list(range(XArray.from_nested(cn).shape[0])), "i")
        I = Interp(repo)
        I.call_hook = hook
        m = XObj(mesh_ci, {"dim": 2, "Nn": 4, "Get_list_groupElem": (lambda d=None, _o=obj: [_o]), "groupElem": obj})
        try:
            out = XArray.from_nested(I.call_function(fE, [q, u, XArray((len(el),), el, "i")], self_obj=m))
        except XRaise as e:
            r.fail(fE.qualname, f"order:{label}", fE.file, fE.lineno, "Mesh.Evaluate_dofsValues_at_coordinates", f"candidate elements {el}: raises {e}")
            continue
        bad = None
        for k, (x, y) in enumerate(pts):
            want = a_ + b_ * x + c_ * y
            got = out[k, 0] if out.ndim == 2 else out[k]
            if not is_zero(Poly.of(got) - want):
                bad = f"point ({x}, {y}): evaluated {got!r}, the field is {want!r}"
                break
        if bad:
            r.fail(fE.qualname, f"order:{label}", fE.file, fE.lineno, "Mesh.Evaluate_dofsValues_at_coordinates", f"unit square, triangles (0,1,2) and (0,2,3), linear nodal field a + b x + c y, candidate elements {el} ({label}): {bad}: a point shared by two elements takes its reference coordinates in one of them and its nodal values in the other")
        else:
            r.ok(f"candidate elements {label}: linear field reproduced at {len(pts)} points")


def distorted_selection_rule(ctx, lib):
    """R8.20: '... as well as on general (non-parallelogram) quadrangles ..., before and after the mesh is moved or
    mirrored': the closed-form inverse map xi0 + (x - x0) inv(F) is exact on affine elements only (R8.8); every element whose
    Jacobian varies must take the iterative inversion, whatever its ORIENTATION (after Mesh.Symmetry det F < 0 everywhere).
    _Get_Mapping is interpreted on one general QUAD4, as meshed and mirrored, for a query point x(xi*) with xi* rational;
    the numerical solver is replaced by an exact oracle (it returns xi*): the reference coordinates handed back must be
    xi*, which the affine shortcut cannot produce on this element."""
    from types import SimpleNamespace

    from ..femchain import fe_hook_full

    repo = ctx.repo
    ge = repo.cls(GE)
    r = ctx.rule("R8.20", "inverse map of a distorted QUAD4: the exact reference coordinates are returned for the element as meshed and mirrored (the iterative inversion is selected for both orientations), also for query points on an edge and at a node of the element", min_instances=4)
    ed = lib.get("QUAD4")
    Ns = [ed.tables["N"][1][i, 0] for i in range(4)]
    f = repo.lookup_method(ed.cls, "_Get_Mapping")
    gp = [(Q(-1, 2), Q(-1, 2)), (Q(1, 2), Q(-1, 2)), (Q(1, 2), Q(1, 2)), (Q(-1, 2), Q(1, 2))]
    # (1/3, 2/5) is not on the curve (xi + eta) / 2 + xi eta = 0 where the affine shortcut about the first Gauss point happens to be
    # exact; (1, 2/5) lies on an edge and (-1, 1) is a node of the reference element: located points very often are
    for label, mirror, xi_star in (("as meshed", False, (Q(1, 3), Q(2, 5))), ("mirrored (x -> -x)", True, (Q(1, 3), Q(2, 5))),
                                   ("as meshed, point on an edge", False, (Q(1), Q(2, 5))), ("as meshed, point at a node", False, (Q(-1), Q(1)))):
        r.instance(fn=f.qualname)
        obj = lib.make_obj("QUAD4")
        a = obj.attrs
        quad = [(Q(0), Q(0)), (Q(2), Q(1, 4)), (Q(9, 4), Q(2)), (Q(-1, 3), Q(3, 2))]
        if mirror:
            quad = [(-x, y) for x, y in quad]
        coords = [[x, y, Q(0)] for x, y in quad]
        connect = XArray((1, 4), [0, 1, 2, 3], "i")
        a.update(Ne=1, Nn=4, Ncoords=4, connect=connect, coord=XArray.from_nested(coords), inDim=2, _global_to_local_nodes=XArray((4,), [0, 1, 2, 3], "i"), nodes=XArray((4,), [0, 1, 2, 3], "i"))
        a[ge.mangle("__connect")] = connect
        a[ge.mangle("__coord")] = a["coord"]
        a[ge.mangle("__dim")] = 2
        a["Get_gauss"] = lambda mt=None: SimpleNamespace(coord=XArray((4, 2), [v for p in gp for v in p]), weights=XArray((4,), [Q(1)] * 4), nPg=4)
        everything = lambda cn, *x, **k: XArray((XArray.from_nested(cn).shape[0],), list(range(XArray.from_nested(cn).shape[0])), "i")
        a["Get_pointsInElem"] = everything
        a["_Get_coord_Near"] = everything
        env = dict(zip(ed.vars, xi_star))
        xP = [sum((Ns[n].eval(env) * quad[n][k] for n in range(4)), Q(0)) for k in range(2)]
        calls = []

        def hook(fn, args, kwargs):
            if isinstance(fn, Opaque) and fn.tag.endswith("least_squares"):
                calls.append(1)
                root = list(xi_star)
                bnd = kwargs.get("bounds", args[3] if len(args) > 3 else None)
                if bnd is not None and kwargs.get("method", "trf") != "dogbox":
                    # scipy: with bounds the default 'trf' method keeps its iterates STRICTLY feasible: a root lying on a bound is
                    # approached, never returned (an error of the order of sqrt(eps) remains): modelled by an offset delta > 0
                    lo_b, hi_b = (list(XArray.from_nested(b).data) if isinstance(b, (list, tuple, XArray)) else [b, b] for b in bnd)
                    lo_b, hi_b = (lo_b * 2)[:2], (hi_b * 2)[:2]
                    dlt = Poly.var("delta_bounded_solver")
                    root = [v + dlt if v == lo_b[k] else v - dlt if v == hi_b[k] else v for k, v in enumerate(root)]
                    if root != list(xi_star):
                        calls.append("bounded")
                return SimpleNamespace(x=XArray((2,), root))
            fi = fn if isinstance(fn, FuncInfo) else getattr(fn, "finfo", None)
            if isinstance(fi, FuncInfo) and fi.module.name.startswith("EasyFEA.Utilities") and fi.name in ("Tic", "Tac", "_CheckIsVector"):
                return Sink()
            return fe_hook_full(fn, args, kwargs)

        I = Interp(repo)
        I.call_hook = hook
        try:
            out = I.call_function(f, [XArray((1, 3), [xP[0], xP[1], Q(0)]), XArray((1,), [0], "i"), True], self_obj=obj)
        except XRaise as e:
            r.fail(f.qualname, f"distorted:{label}", f.file, f.lineno, "_GroupElem._Get_Mapping", f"general QUAD4 {label}: raises {e}")
            continue
        xi = XArray.from_nested(out[3])
        got = [xi[0, k] for k in range(2)]
        if all(is_zero(Poly.of(g) - w) for g, w in zip(got, xi_star)):
            r.ok(f"general QUAD4 {label}: xi* recovered ({'iterative inversion' if calls else 'closed form'})")
        else:
            r.fail(f.qualname, f"distorted:{label}", f.file, f.lineno, "_GroupElem._Get_Mapping", f"general QUAD4 {label}, query point x(xi*) with xi* = {tuple(str(v) for v in xi_star)}: reference coordinates {tuple(str(g) for g in got)} are returned ({'the iterative inversion was not selected: ' if not calls else ''}the affine closed form is not the inverse map of a distorted element{'; the solver is called with bounds equal to the reference element, whose boundary a strictly-feasible method never reaches: points on edges and nodes are located to about 1e-8 only' if 'bounded' in calls else ''}): a nodal field of the element's order is not reproduced there")


def surface_normal_rule(ctx, lib, rid="R8.22"):
    """'boundary element groups carry outward normals that close the domain (the integral of the normal over the whole
    boundary vanishes and the flux of the position vector gives the positive area or volume) ... in 3D': the
    un-normalised normal of a face is the AREA-weighted normal dx/dr x dx/ds at each integration point - its length is the
    surface Jacobian there.  `Get_normals_e_pg(normalize=False)` is interpreted on a straight-sided, non-parallelogram
    QUAD4 face lying in an inclined plane of 3-D space (the Jacobian varies over the element although the element is of
    order 1 and flat) and on a TRI3 face, with the real derivative tables at the points of the mass rule; every
    n[e, p] must equal the cross product of the tangents AT that point, computed from the tables."""
    from ..femchain import fe_hook_full

    repo = ctx.repo
    ge = repo.cls(GE)
    f = ge.methods["Get_normals_e_pg"]
    r = ctx.rule(rid, "area-weighted normals: Get_normals_e_pg(normalize=False)[e, p] == dx/dr(p) x dx/ds(p) at every integration point of a non-parallelogram QUAD4 face and of a TRI3 face in an inclined plane", min_instances=2)
    for name, quad2d in (("QUAD4", [(Q(0), Q(0)), (Q(2), Q(1, 4)), (Q(9, 4), Q(2)), (Q(-1, 3), Q(3, 2))]), ("TRI3", [(Q(0), Q(0)), (Q(2), Q(1, 4)), (Q(1, 2), Q(3))])):
        r.instance(fn=f.qualname)
        ed = lib.get(name)
        nPe = ed.nPe
        # the plane z = x / 2 - y / 3 (exact rational coordinates)
        pts = [[x, y, x / 2 - y / 3] for x, y in quad2d]
        gp = [(Q(-1, 2), Q(-1, 2)), (Q(1, 2), Q(-1, 2)), (Q(1, 2), Q(1, 2)), (Q(-1, 2), Q(1, 2))] if name == "QUAD4" else [(Q(1, 6), Q(1, 6)), (Q(2, 3), Q(1, 6)), (Q(1, 6), Q(2, 3))]
        dNt = ed.tables["dN"][1]  # (nPe, dim) polynomials
        dvals = [[[Poly.of(dNt[a, k]).eval(dict(zip(ed.vars, g))) for a in range(nPe)] for k in range(ed.dim)] for g in gp]
        dN_pg = XArray((len(gp), ed.dim, nPe), [dvals[p][k][a] for p in range(len(gp)) for k in range(ed.dim) for a in range(nPe)])
        obj = XObj(ge, {"dim": ed.dim, "order": ed.order, "coord": XArray((nPe, 3), [v for p in pts for v in p]), "connect": XArray((1, nPe), list(range(nPe))),
                        "_global_to_local_nodes": XArray((nPe,), list(range(nPe))), "Get_dN_pg": lambda mt=None: dN_pg, "Ncoords": nPe, "nodes": XArray((nPe,), list(range(nPe))), "Ne": 1})
        I = Interp(repo)
        I.call_hook = fe_hook_full
        try:
            n = XArray.from_nested(I.call_function(f, [Opaque("mt"), None, False], self_obj=obj))
        except XRaise as e:
            r.fail(f.qualname, f"area-normal:{name}", f.file, f.lineno, "Get_normals_e_pg", f"{name}: raises {e}")
            continue
        bad = None
        if n.shape != (1, len(gp), 3):
            bad = f"shape {n.shape}, expected (Ne, nPg, 3) = (1, {len(gp)}, 3)"
        else:
            for p in range(len(gp)):
                ta = [sum((dvals[p][0][a] * pts[a][c] for a in range(nPe)), Q(0)) for c in range(3)]
                tb = [sum((dvals[p][1][a] * pts[a][c] for a in range(nPe)), Q(0)) for c in range(3)]
                want = [ta[1] * tb[2] - ta[2] * tb[1], ta[2] * tb[0] - ta[0] * tb[2], ta[0] * tb[1] - ta[1] * tb[0]]
                got = [n[0, p, c] for c in range(3)]
                if bad is None and any(not is_zero(Poly.of(g) - w) for g, w in zip(got, want)):
                    bad = f"integration point {p}: n = {[str(g) for g in got]}, dx/dr x dx/ds there = {[str(w) for w in want]}"
        if bad:
            r.fail(f.qualname, f"area-normal:{name}", f.file, f.lineno, "Get_normals_e_pg", f"{name} face in the plane z = x/2 - y/3: {bad}: the length of the un-normalised normal is not the surface Jacobian at that point - the sum of w n over a closed boundary does not vanish and the flux of the position vector is not the volume")
        else:
            r.ok(f"{name}: n[e, p] == dx/dr x dx/ds at the {len(gp)} integration points")


def point_in_solid_rule(ctx, lib, rid="R8.23"):
    """'point location ... before and after the mesh is moved or mirrored' in 3-D: `Get_pointsInElem` is interpreted on a
    TETRA4 and a HEXA8 with exact rational vertices, as meshed and mirrored (x -> -x with the connectivity kept: the
    orientation of the element is reversed), for query points that are inside, on a face, at a vertex and beyond each
    face.  The points it returns must be exactly those of the closed element, whatever the orientation - however the
    function obtains outward directions (face tables + orientation test, centroid, ...).  (`Normalize` is a positive
    rescaling: it does not change on which side of a face a point lies.)"""
    from ..femchain import fe_hook_full

    repo = ctx.repo
    ge = repo.cls(GE)
    f = ge.methods["Get_pointsInElem"]
    r = ctx.rule(rid, "3-D point-in-element test interpreted on a TETRA4 and a HEXA8, as meshed and mirrored: the points returned are exactly those of the closed element (inside, on a face, at a vertex; none of the points beyond a face)", min_instances=4)
    solids = {
        "TETRA4": [(Q(0), Q(0), Q(0)), (Q(2), Q(0), Q(0)), (Q(0), Q(3), Q(0)), (Q(0), Q(0), Q(1))],
        "HEXA8": [(Q(0), Q(0), Q(0)), (Q(2), Q(0), Q(0)), (Q(2), Q(1), Q(0)), (Q(0), Q(1), Q(0)), (Q(0), Q(0), Q(3)), (Q(2), Q(0), Q(3)), (Q(2), Q(1), Q(3)), (Q(0), Q(1), Q(3))],
    }
    queries = {
        "TETRA4": [((Q(1, 4), Q(1, 4), Q(1, 8)), True, "inside"), ((Q(1, 2), Q(1, 2), Q(0)), True, "on a face"), ((Q(2), Q(0), Q(0)), True, "a vertex"),
                   ((Q(1, 4), Q(1, 4), Q(-1, 8)), False, "below the base"), ((Q(2), Q(3), Q(1)), False, "beyond the oblique face"), ((Q(-1, 10), Q(1), Q(1, 4)), False, "behind the face x = 0")],
        "HEXA8": [((Q(1), Q(1, 2), Q(1)), True, "inside"), ((Q(2), Q(1, 3), Q(2)), True, "on a face"), ((Q(0), Q(1), Q(3)), True, "a vertex"),
                  ((Q(1), Q(1, 2), Q(7, 2)), False, "above the top"), ((Q(-1, 100), Q(1, 2), Q(1)), False, "behind the face x = 0"), ((Q(1), Q(11, 10), Q(1)), False, "beyond the face y = 1")],
    }

    def hook(fn, args, kwargs):
        fi = fn if isinstance(fn, FuncInfo) else getattr(fn, "finfo", None)
        if fi is not None and fi.name == "Normalize":
            return args[0]
        return fe_hook_full(fn, args, kwargs)

    for name, verts in solids.items():
        ed = lib.get(name)
        for label, mirror in (("as meshed", False), ("mirrored (x -> -x, connectivity kept)", True)):
            r.instance(fn=f.qualname)
            vs = [(-x, y, z) if mirror else (x, y, z) for x, y, z in verts]
            qs = [(((-p[0], p[1], p[2]) if mirror else p), inside, what) for p, inside, what in queries[name]]
            n = len(vs)
            obj = lib.make_obj(name)
            connect = XArray((1, n), list(range(n)), "i")
            obj.attrs.update(Ne=1, Nn=n, Ncoords=n, connect=connect, coord=XArray((n, 3), [c for v in vs for c in v]), inDim=3,
                             _global_to_local_nodes=XArray((n,), list(range(n)), "i"), nodes=XArray((n,), list(range(n)), "i"))
            obj.attrs[ge.mangle("__connect")] = connect
            obj.attrs[ge.mangle("__coord")] = obj.attrs["coord"]
            obj.attrs[ge.mangle("__dim")] = 3
            I = Interp(repo)
            I.call_hook = hook
            pts = XArray((len(qs), 3), [c for p, _i, _w in qs for c in p])
            try:
                idx = sorted(int(k) for k in XArray.from_nested(I.call_function(f, [pts, 0], self_obj=obj)).data)
            except XRaise as e:
                r.fail(f.qualname, f"solid:{name}:{label}", f.file, f.lineno, "Get_pointsInElem", f"{name} {label}: raises {e}")
                continue
            want = [k for k, (_p, inside, _w) in enumerate(qs) if inside]
            if idx == want:
                r.ok(f"{name} {label}: {len(want)} of {len(qs)} query points located in the element")
            else:
                miss = [qs[k][2] for k in want if k not in idx]
                extra = [qs[k][2] for k in idx if k not in want]
                r.fail(f.qualname, f"solid:{name}:{'mirrored' if mirror else 'meshed'}", f.file, f.lineno, "Get_pointsInElem", f"{name} {label}: " + (f"points of the element rejected: {miss}; " if miss else "") + (f"points outside accepted: {extra}; " if extra else "") + "the half-space tests use normals that are not outward for this orientation of the element (after a reflection the Jacobian is negative and every face table is inward)")
