"""C06 -- shape functions interpolate; derivative tables are the true derivatives.

Every obligation is a polynomial identity decided by normal form (sa.alg.Poly,
exact rationals)."""

from __future__ import annotations

import ast

from ..alg import Poly, Q, monomials_upto, abs_eval, within_roundoff, is_zero
from ..elems import ElemLib, to_poly
from ..repo import AnalysisError, dotted, norm_text
from ..xeval import Interp, XObj, Closure, XRaise, Opaque
from ..xarray import XArray, Lbl

GE = "EasyFEA.FEM._group_elem._GroupElem"
BEAM_MOD = "EasyFEA.FEM.Elems._beam"
DERIV_TABLES = [("dN", 1), ("ddN", 2), ("dddN", 3), ("ddddN", 4)]


def lagrange_rules(ctx, lib: ElemLib, names=None):
    r_k = ctx.rule("R6.1", "Kronecker property N_i(xi_j) = delta_ij at Get_Local_Coords", min_instances=19)
    r_pu = ctx.rule("R6.2", "partition of unity sum_i N_i == 1", min_instances=19)
    r_sp = ctx.rule("R6.3", "span: sum_i m(xi_i) N_i == m for all monomials of total degree <= order", min_instances=19)
    r_d = ctx.rule("R6.4", "each entry of _dN/_ddN/_dddN/_ddddN == k-th pure partial derivative of N_i", min_instances=19 * 4)
    names = names or lib.names((1, 2, 3))
    for name in names:
        ed = lib.get(name)
        cq = ed.cls.qualname
        st = ed.tables["N"]
        if st[0] != "ok":
            r_k.fail(cq + "._N", "raises", ed.cls.file, st[2].lineno, f"{name}._N", f"shape-function table {'has shape' if st[0] == 'shape' else 'raises'} {st[1]}")
            continue
        N, fN = st[1], st[2]
        Ns = [N.data[i] for i in range(ed.nPe)]
        vs = ed.vars
        # R6.1
        r_k.instance(fn=fN.qualname)
        for i, Ni in enumerate(Ns):
            for j, xj in enumerate(ed.coords):
                val = Ni.eval(dict(zip(vs, xj)))
                want = 1 if i == j else 0
                if val == want:
                    r_k.ok(f"{name}: N_{i+1}(node {j+1}) = {want}" if (i, j) in ((0, 0), (0, 1)) else None)
                else:
                    r_k.fail(cq + "._N", f"N{i+1}@node{j+1}", ed.cls.file, fN.lineno, f"{name}._N",
                             f"N_{i+1} evaluates to {val} at node {j+1} {tuple(str(c) for c in xj)}, expected {want}")
        # R6.2
        r_pu.instance(fn=fN.qualname)
        tot = Poly()
        for p in Ns:
            tot = tot + p
        if tot == 1:
            r_pu.ok(f"{name}: sum N_i == 1")
        else:
            r_pu.fail(cq + "._N", "partition-of-unity", ed.cls.file, fN.lineno, f"{name}._N",
                      f"sum_i N_i - 1 = {tot - 1!r} (not identically zero)")
        # R6.3
        r_sp.instance(fn=fN.qualname)
        for ex in monomials_upto(ed.dim, ed.order, total=True):
            m = Poly.const(1)
            for v, e in zip(vs, ex):
                m = m * Poly.var(v) ** e
            s = Poly()
            for Ni, xi in zip(Ns, ed.coords):
                s = s + Ni * m.eval(dict(zip(vs, xi)))
            if s == m:
                r_sp.ok(f"{name}: reproduces monomial {m!r}" if sum(ex) == ed.order else None)
            else:
                r_sp.fail(cq + "._N", f"monomial {m!r}", ed.cls.file, fN.lineno, f"{name}._N",
                          f"sum_i m(xi_i) N_i - m = {s - m!r} for m = {m!r}: degree-{ed.order} completeness fails")
        # R6.4
        for tab, k in DERIV_TABLES:
            st = ed.tables[tab]
            r_d.instance(fn=f"{cq}._{tab}")
            if st[0] == "shape":
                r_d.fail(cq + f"._{tab}", "rows", st[2].file, st[2].lineno, f"{name}._{tab}", f"the table of order-{k} derivatives has shape {st[1]}, the element has {ed.nPe} basis functions in dimension {ed.dim} (a table built for another element type of the same dimension is handed out)")
                continue
            if st[0] != "ok":
                # the table raises (TypeError from _Init_Functions when order >= k)
                nz = [i for i, Ni in enumerate(Ns) for v in vs if not _dk(Ni, v, k).is_zero()]
                f = st[2]
                if nz:
                    r_d.fail(cq + f"._{tab}", "raises", f.file, f.lineno, f"{name}._{tab}",
                             f"the table raises {st[1]} although the order-{k} derivatives of the shape functions are not zero (element order {ed.order})")
                else:
                    r_d.ok()
                continue
            T, fT = st[1], st[2]
            for i, Ni in enumerate(Ns):
                for c, v in enumerate(vs):
                    want = _dk(Ni, v, k)
                    got = T[i, c]
                    if got == want:
                        r_d.ok(f"{name}: _{tab}[{i}][{c}] == d^{k}N_{i+1}/d{v}^{k} = {want!r}" if (i, c) == (0, 0) else None)
                    else:
                        # locate the lambda for the report
                        raw = st[3]
                        raw2 = raw.reshape(ed.nPe, -1)
                        lam = raw2[i, c]
                        line = getattr(lam.node, "lineno", fT.lineno)
                        r_d.fail(cq + f"._{tab}", f"entry[{i}][{c}]", fT.file, line, f"{name}._{tab}",
                                 f"entry [{i}][{c}] is {got!r} but d^{k} N_{i+1}/d{v}^{k} = {want!r} (difference {got - want!r})")


def table_order_rule(ctx):
    """R6.4b: the tables of an element type do not depend on which other types were asked before it.  The 19 element classes
    are walked a second time IN THE OPPOSITE ORDER in a fresh interpreter (class-level containers are shared objects for the
    life of an interpreter, as in the program): every table has as many rows as the element has basis functions and the
    arity of its dimension, and the same entries as in the first walk (lagrange_rules)."""
    lib2 = ElemLib(ctx.repo)
    names = list(reversed(lib2.names((1, 2, 3))))
    r = ctx.rule("R6.4b", "the tables of an element type are the same whichever element types were queried before it (second walk in the opposite order, one shared interpreter)", min_instances=19)
    for name in names:
        ed = lib2.get(name)
        r.instance(fn=ed.cls.qualname)
        bad = [(tab, st) for tab, st in ed.tables.items() if st[0] == "shape"]
        if bad:
            tab, st = bad[0]
            r.fail(ed.cls.qualname + f"._{tab}", "rows-after-others", st[2].file, st[2].lineno, f"{name}._{tab}", f"asked after {names[:names.index(name)][-3:]}: the table _{tab} has shape {st[1]}, the element has {ed.nPe} basis functions in dimension {ed.dim}: a table built for another element type is handed out")
        else:
            r.ok(f"{name}: {len(ed.tables)} tables of its own shape")


def _dk(p, v, k):
    for _ in range(k):
        p = p.diff(v)
    return p


def hermite_rules(ctx):
    repo = ctx.repo
    r_h = ctx.rule("R6.5a", "Hermite: value/slope interpolation conditions at every node", min_instances=4)
    r_hd = ctx.rule("R6.5b", "Hermite: _Hermitian_dN/ddN/dddN == derivatives of _Hermitian_N", min_instances=12)
    mod = repo.module(BEAM_MOD)
    base = repo.cls(BEAM_MOD + "._EulerBernoulli")
    lib = ElemLib(repo)
    I = lib.I
    fams = [c for c in repo.subclasses(base) if "_Hermitian_N" in c.methods]
    r = Poly.var("x")
    roundoff = [0]
    for ci in sorted(fams, key=lambda c: c.qualname):
        # the Lagrange parent gives the nodes
        seg = [b for b in ci.mro if b.module.name.endswith("._seg") and b.name.startswith("SEG")]
        if not seg:
            raise AnalysisError(f"{ci.qualname}: no SEGn base class found")
        segname = seg[0].name
        ed = lib.get(segname)
        obj = XObj(ci, dict(nPe=ed.nPe, dim=1, order=ed.order))
        tabs = {}
        for m in ("_Hermitian_N", "_Hermitian_dN", "_Hermitian_ddN", "_Hermitian_dddN"):
            f = repo.lookup_method(ci, m)
            t = XArray.from_nested(I.call_function(f, [], self_obj=obj)).reshape(-1)
            if t.size != 2 * ed.nPe:
                r_h.fail(f.qualname, "size", f.file, f.lineno, f"{ci.name}.{m}",
                         f"table has {t.size} functions, expected 2*nPe = {2*ed.nPe}")
                continue
            tabs[m] = ([to_poly(fn(r), f"{ci.name}.{m}") for fn in t.data], f, t)
        if len(tabs) != 4:
            continue
        H, fH, _ = tabs["_Hermitian_N"]
        r_h.instance(fn=fH.qualname)
        # slope scale: psi columns are multiplied by l_e and d/dx = (2/l_e) d/dr on
        # the reference segment [-1, 1]  ->  reference slope of psi_i at node i is 1/2
        nodes = [c[0] for c in ed.coords]
        ref_len = max(nodes) - min(nodes)
        slope_unit = Q(1) / ref_len
        for a in range(ed.nPe):
            phi, psi = H[2 * a], H[2 * a + 1]
            for b, xb in enumerate(nodes):
                env = {"x": xb}
                checks = [
                    ("phi", "value", phi.eval(env), 1 if a == b else 0),
                    ("phi", "slope", phi.diff("x").eval(env), 0),
                    ("psi", "value", psi.eval(env), 0),
                    ("psi", "slope", psi.diff("x").eval(env), slope_unit if a == b else 0),
                ]
                for kind, what, got, want in checks:
                    src = phi if kind == "phi" else psi
                    if what == "slope":
                        src = src.diff("x")
                    if got != want and within_roundoff(got, want, abs_eval(src, env)):
                        # decimal approximations of rational coefficients (EB4/EB5 tables):
                        # deviation below the binary64 evaluation error of the lambda itself
                        r_h.ok(f"{ci.name}: {kind}_{a+1} {what} at node {b+1} = {want} within binary64 round-off (|dev| = {float(abs(got-want)):.1e})" if roundoff[0] == 0 else None)
                        roundoff[0] += 1
                    elif got == want:
                        r_h.ok(f"{ci.name}: {kind}_{a+1} {what} at node {b+1} = {want}" if (a, b) == (0, 0) else None)
                    else:
                        r_h.fail(fH.qualname, f"{kind}{a+1}.{what}@node{b+1}", fH.file, fH.lineno, f"{ci.name}._Hermitian_N",
                                 f"{kind}_{a+1} has {what} {got} at node {b+1} (xi={xb}), expected {want} (slope unit 1/{ref_len}: psi columns are scaled by l_e, dxi/dx = {ref_len}/l_e)")
        if roundoff[0]:
            r_h.note(f"{roundoff[0]} interpolation conditions hold only up to the binary64 evaluation error bound 64*2^-53*sum|c_m||x|^m (coefficients typed as 15-digit decimal approximations of rationals)")
        for m, k in (("_Hermitian_dN", 1), ("_Hermitian_ddN", 2), ("_Hermitian_dddN", 3)):
            T, fT, raw = tabs[m]
            r_hd.instance(fn=fT.qualname)
            for i, (h, t) in enumerate(zip(H, T)):
                want = _dk(h, "x", k)
                if t == want:
                    r_hd.ok(f"{ci.name}.{m}[{i}] == d^{k} H_{i+1}/dxi^{k}" if i == 0 else None)
                else:
                    line = getattr(raw.data[i].node, "lineno", fT.lineno)
                    r_hd.fail(fT.qualname, f"entry[{i}]", fT.file, line, f"{ci.name}.{m}",
                              f"entry {i} is {t!r} but the order-{k} derivative of _Hermitian_N[{i}] is {want!r}")


def accessor_rules(ctx):
    """R6.6: the evaluators use the table they are named after and index it
    consistently."""
    repo = ctx.repo
    r = ctx.rule("R6.6", "Get_Hermitian_X_pg evaluates self._Hermitian_X() through _Eval_Functions at the Gauss coordinates; _Eval_Functions stores [p,f,n] = F[n][f](*gp[p])", min_instances=5)
    ge = repo.cls(GE)
    pairs = [("Get_N_pg", "_N"), ("Get_dN_pg", "_dN"), ("Get_ddN_pg", "_ddN"), ("Get_dddN_pg", "_dddN"), ("Get_ddddN_pg", "_ddddN")]
    eb = repo.cls(BEAM_MOD + "._EulerBernoulli")
    hpairs = [("Get_Hermitian_N_pg", "_Hermitian_N"), ("Get_Hermitian_dN_pg", "_Hermitian_dN"),
              ("Get_Hermitian_ddN_pg", "_Hermitian_ddN"), ("Get_Hermitian_dddN_pg", "_Hermitian_dddN")]
    # the Lagrange getters are decided by interpretation (R6.10); the structural form is kept for the Hermitian getters only
    for ci, prs in ((eb, hpairs),):
        for getter, table in prs:
            f = repo.method(ci.qualname, getter)
            r.instance(fn=f.qualname)
            # interpreted on a recorder element (the call syntax used to be matched; it fired on a shared-helper extraction,
            # refactored/C06-R7): every Hermitian table is replaced by functions labelled with the table's name, the Gauss
            # coordinates by labels; the getter must return table X's functions evaluated at the Gauss points of its rule
            from types import SimpleNamespace as _NS

            nP, nH = 3, 4

            def mk(tname, n, ff):
                return lambda *a, _t=tname, _n=n, _f=ff: Lbl("H", _t, _n, _f, tuple(a))

            obj = XObj(ci, {"dim": 1, "nPe": 2})
            for _, tname in hpairs:
                obj.attrs[tname] = lambda _t=tname: XArray((nH, 1), [mk(_t, n, 0) for n in range(nH)])
            seen_mt = []
            obj.attrs["Get_gauss"] = lambda mt=None, _s=seen_mt: (_s.append(mt), _NS(coord=XArray((nP, 1), [Lbl("g", p) for p in range(nP)]), nPg=nP, weights=XArray((nP,), [1] * nP)))[1]
            try:
                res = Interp(repo).call_function(f, [], self_obj=obj)
            except XRaise as e:
                r.fail(f.qualname, "eval", f.file, f.lineno, f"{ci.name}.{getter}", f"raises {e}")
                continue
            bad = None
            if not isinstance(res, XArray) or res.shape != (nP, 1, nH):
                bad = f"returns {getattr(res, 'shape', res)!r}, expected the (nPg, 1, 2 nPe) table"
            else:
                for pp in range(nP):
                    for n in range(nH):
                        want = Lbl("H", table, n, 0, (Lbl("g", pp),))
                        if res[pp, 0, n] != want and bad is None:
                            bad = f"entry [p={pp}, 0, n={n}] holds {res[pp, 0, n]!r}, expected function n={n} of self.{table}() at Gauss point {pp}"
            if bad:
                r.fail(f.qualname, "table", f.file, f.lineno, f"{ci.name}.{getter}", bad)
            else:
                r.ok(f"{ci.name}.{getter}: self.{table}() evaluated at the Gauss points")
    # _Eval_Functions by label interpretation
    f = repo.method(GE, "_Eval_Functions")
    r.instance(fn=f.qualname)
    I = Interp(repo)
    nPe, nF, nPg, dim = 3, 2, 4, 2

    def mk(n, ff):
        return lambda *a: Lbl("F", n, ff, tuple(a))

    functions = XArray((nPe, nF), [mk(n, ff) for n in range(nPe) for ff in range(nF)])
    gp = XArray((nPg, dim), [Lbl("g", p, d) for p in range(nPg) for d in range(dim)])
    res = I.call_function(f, [functions, gp])
    bad = None
    if not isinstance(res, XArray) or res.shape != (nPg, nF, nPe):
        bad = f"result shape {getattr(res, 'shape', None)} != (nPg, nF, nPe)"
    else:
        for p in range(nPg):
            for ff in range(nF):
                for n in range(nPe):
                    want = Lbl("F", n, ff, tuple(Lbl("g", p, d) for d in range(dim)))
                    if res[p, ff, n] != want:
                        bad = f"entry [p={p}, f={ff}, n={n}] holds {res[p, ff, n]!r}, expected function (n={n}, f={ff}) at Gauss point {p}"
                        break
    if bad:
        r.fail(f.qualname, "layout", f.file, f.lineno, "_GroupElem._Eval_Functions", bad)
    else:
        r.ok("_Eval_Functions: out[p, f, n] == functions[n][f](*gaussPoints[p]) on a labelled 4x2x3 instance")


def run(ctx):
    ctx.level = "proof"
    ctx.explanation = (
        "Every shape-function lambda of the 19 Lagrange classes and the 4 Hermite families is translated from its AST "
        "to an exact polynomial over Q; Kronecker, partition of unity, polynomial completeness and every derivative-table "
        "entry are decided as polynomial identities by normal form (no sampling, all points of the reference element)."
    )
    ctx.trust("Python ast parser")
    ctx.trust("sa/alg.py Poly (exact multivariate polynomials over Q)")
    ctx.trust("sa/xeval.py (interpreter for the table-building functions: literals, lambdas, np.array/reshape)")
    lib = ElemLib(ctx.repo)
    lagrange_rules(ctx, lib)
    ctx.attempt(table_order_rule, ctx)
    hermite_rules(ctx)
    accessor_rules(ctx)
    ctx.attempt(evaluation_path_rule, ctx, lib)
    ctx.attempt(evaluated_derivative_rule, ctx, lib)


def evaluation_path_rule(ctx, lib):
    """R6.9: the tables are consumed through _GroupElem._Eval_Functions.  Evaluating the shape functions of every element
    at its own node coordinates AS THE CLASS RETURNS THEM (integer arrays for the elements whose nodes have integer
    coordinates) and at the element centre gives delta_ij and a partition of unity -- the evaluation buffer does not
    take the integer type of the evaluation points (numpy would truncate every value towards zero)."""
    from ..xarray import XTruncation
    from ..xeval import Uninterpretable

    repo = ctx.repo
    r = ctx.rule("R6.9", "evaluation path: _Eval_Functions(N, Get_Local_Coords()) == identity and the functions sum to one at an integer-typed interior / boundary point, for every element class", min_instances=15)
    ge = repo.cls("EasyFEA.FEM._group_elem._GroupElem")
    fe = ge.methods["_Eval_Functions"]
    for name in sorted(lib.names()):
        ed = lib.get(name)
        r.instance(fn=fe.qualname)
        I = Interp(repo)
        pts = I.call_function(repo.lookup_method(ed.cls, "Get_Local_Coords"), [], self_obj=ed.obj)
        pts = XArray.from_nested(pts)
        if pts.ndim == 1:
            pts = XArray((pts.shape[0], 1), pts.data, pts.dtype)
        N = I.call_function(repo.lookup_method(ed.cls, "_N"), [], self_obj=ed.obj)
        bad = None
        try:
            out = XArray.from_nested(I.call_function(fe, [N, pts]))
            if out.shape != (ed.nPe, 1, ed.nPe):
                bad = f"shape {out.shape}"
            else:
                for p in range(ed.nPe):
                    for n in range(ed.nPe):
                        if not is_zero(Poly.of(out[p, 0, n]) - (1 if p == n else 0)):
                            bad = f"N_{n + 1}(node {p + 1}) = {out[p, 0, n]!r}"
            # an integer-typed point that is not a node: the origin of the reference element
            org = XArray((1, ed.dim), [0] * ed.dim, "i")
            out0 = XArray.from_nested(I.call_function(fe, [N, org]))
            tot = sum((Poly.of(out0[0, 0, n]) for n in range(ed.nPe)), Poly())
            if bad is None and not is_zero(tot - 1):
                bad = f"sum_i N_i(origin) = {tot!r}"
        except (Uninterpretable, XTruncation) as e:
            if "integer type" in str(e):
                bad = f"evaluated at integer-typed points (dtype of {'Get_Local_Coords()' if pts.dtype == 'i' else 'the origin [0, ...]'}): {str(e).split(': ', 1)[-1] if ': ' in str(e) else e}"
            else:
                raise
        if bad:
            r.fail(fe.qualname, f"eval:{name}", fe.file, fe.lineno, "_Eval_Functions", f"{name}: {bad}")
        else:
            r.ok(f"{name}: N(nodes) == I through _Eval_Functions ({'integer' if pts.dtype == 'i' else 'float'} node coordinates)")


def evaluated_derivative_rule(ctx, lib):
    """R6.10: what the element hands to the operators is the EVALUATED table: Get_N_pg, Get_dN_pg, Get_ddN_pg, Get_dddN_pg and
    Get_ddddN_pg are interpreted for every Lagrange element class on a two-point stand-in rule with rational points; entry
    [p, d, n] must be the k-th pure partial derivative of N_n along xi_d (computed here by differentiating the exact
    polynomial N_n, proven by R6.1-R6.3) at point p -- zero tables included only when the derivative IS zero (order < k)."""
    from types import SimpleNamespace

    repo = ctx.repo
    ge = repo.cls(GE)
    r = ctx.rule("R6.10", "Get_N_pg / Get_dN_pg / Get_ddN_pg / Get_dddN_pg / Get_ddddN_pg[p, d, n] == d^k N_n / d xi_d^k at the integration point p, for every Lagrange element class", min_instances=60)
    getters = [("Get_N_pg", 0), ("Get_dN_pg", 1), ("Get_ddN_pg", 2), ("Get_dddN_pg", 3), ("Get_ddddN_pg", 4)]
    PTS = {1: [(Q(1, 3),), (Q(-2, 5),)], 2: [(Q(1, 5), Q(1, 7)), (Q(2, 7), Q(3, 11))], 3: [(Q(1, 5), Q(1, 7), Q(1, 9)), (Q(2, 7), Q(1, 11), Q(1, 13))]}
    for name in sorted(lib.names()):
        ed = lib.get(name)
        stN = ed.tables["N"]
        if stN[0] != "ok":
            continue
        Ns = [stN[1][i, 0] for i in range(ed.nPe)]
        vs = list(ed.vars)
        pts = PTS[ed.dim]
        for getter, k in getters:
            f = repo.lookup_method(ed.cls, getter)
            if f is None:
                continue
            r.instance(fn=f.qualname)
            obj = XObj(ed.obj.cls, dict(ed.obj.attrs))
            obj.attrs["Get_gauss"] = lambda mt=None, pts=pts, d=ed.dim: SimpleNamespace(coord=XArray((len(pts), d), [v for p in pts for v in p]), nPg=len(pts), weights=XArray((len(pts),), [Q(1, 2)] * len(pts)))
            I = Interp(repo)
            try:
                out = I.call_function(f, [Opaque("matrixType")], self_obj=obj)
            except XRaise as e:
                nz = any(not _dk(Ni, v, k).is_zero() for Ni in Ns for v in vs)
                if nz:
                    r.fail(f.qualname, f"evaluated:{name}:{getter}", f.file, f.lineno, f"{name}.{getter}", f"{name}.{getter} raises {e} although the order-{k} derivatives of its shape functions are not zero")
                else:
                    r.ok()
                continue
            out = XArray.from_nested(out)
            ncomp = 1 if k == 0 else ed.dim
            bad = None
            if out.shape != (len(pts), ncomp, ed.nPe):
                bad = f"shape {out.shape}, expected {(len(pts), ncomp, ed.nPe)}"
            else:
                for p, pt in enumerate(pts):
                    env = dict(zip(vs, pt))
                    for c in range(ncomp):
                        for n, Ni in enumerate(Ns):
                            want = (_dk(Ni, vs[c], k) if k else Ni).eval(env)
                            got = out[p, c, n]
                            if bad is None and not is_zero(Poly.of(got) - want):
                                bad = f"entry [p={p}, {vs[c] if k else 'value'}, node {n + 1}] is {got!r}, d^{k}N_{n + 1}/d{vs[c]}^{k} at {tuple(str(x) for x in pt)} is {want!r}"
            if bad:
                r.fail(f.qualname, f"evaluated:{name}:{getter}", f.file, f.lineno, f"{name}.{getter}", f"{name}.{getter}: {bad}: the evaluated table is not the derivative of the shape functions (operators built on it -- bending curvature, shear recovery -- use a wrong field)")
            else:
                r.ok(f"{name}.{getter} == d^{k}N at 2 points" if k == 3 else None)
