"""C13 -- user-written weak forms: activation layout, assembly index maps, slot
agreement, field values carry the active dof."""

from __future__ import annotations

import ast
from types import SimpleNamespace

from ..alg import Poly, Q, Rat, is_zero
from ..repo import AnalysisError, dotted, norm_text
from ..xeval import Interp, XObj, Opaque, Sink, XRaise, Uninterpretable
from ..xarray import XArray
from ..femchain import XFe, fe_hook_full

FORMS = "EasyFEA.FEM._forms"
FIELD = "EasyFEA.FEM._field.Field"
WF = "EasyFEA.Simulations._weakforms.WeakForms"


class FieldStub:
    _xeval_open = True

    def __init__(self, tag, dof_n, nPe, log):
        self.tag, self.dof_n, self.nPe, self.log = tag, dof_n, nPe, log
        self.node = self.dof = None
        self.matrixType = Opaque("mt")
        self.groupElem = SimpleNamespace(nPe=nPe, Ne=1, Get_weightedJacobian_e_pg=lambda mt=None: XFe((1, 1), [Poly.var("wJ")]))

    def copy(self):
        return FieldStub("v", self.dof_n, self.nPe, self.log)

    def _Set_current_active_node(self, n):
        self.node = int(n)

    def _Set_current_active_dof(self, d):
        self.dof = int(d)


def assemble_rule(ctx):
    """R13.2: BiLinearForm.Assemble / LinearForm.Assemble interpreted on a two-element group with symbolic element arrays
    (Integrate_e stubbed, the group's own row / column / assembly maps interpreted, scipy's duplicate-summing
    constructor modelled): the sparse matrix is the scatter-add of the element arrays."""
    from .c03 import XCsr
    from ..xeval import _Bound

    repo = ctx.repo
    mod = repo.module(FORMS)
    r2 = ctx.rule("R13.2", "Assemble interpreted: the sparse matrix / vector of a form is the scatter-add of Integrate_e over the group's dof maps (dof_n = 1 and 2, real and complex element arrays)", min_instances=6)
    ge = repo.cls("EasyFEA.FEM._group_elem._GroupElem")
    conn = [[0, 1, 2], [1, 3, 2]]
    Nn = 4
    for cname, bil in (("BiLinearForm", True), ("LinearForm", False)):
        ci = mod.classes[cname]
        f = ci.methods["Assemble"]
        for dof_n, cplx in ((1, False), (2, False), (1, True)):
            r2.instance(fn=f.qualname)
            c = XArray((2, 3), [n for row in conn for n in row])
            g = XObj(ge, {"nPe": 3, "Ne": 2, "Ncoords": Nn, "connect": c, ge.mangle("__connect"): c})
            n = 3 * dof_n
            from ..xeval import IMAG as _IMAG

            # (a complex-valued form - a damped Helmholtz operator - hands out complex element arrays: x + I y)
            X = XArray((2, n, n) if bil else (2, n, 1), [Poly.var(f"x{e}_{i}_{j}") + (_IMAG * Poly.var(f"y{e}_{i}_{j}") if cplx else Poly()) for e in range(2) for i in range(n) for j in range(n if bil else 1)])
            fld = SimpleNamespace(dof_n=dof_n, groupElem=g)
            obj = XObj(ci, {"Integrate_e": lambda field=None, X=X: X})

            def hook(fn, args, kwargs):
                if isinstance(fn, Opaque) and fn.tag.endswith("csr_matrix"):
                    return XCsr(*args, **kwargs)
                return NotImplemented

            I = Interp(repo)
            I.call_hook = hook
            key = f"{cname}:dof_n={dof_n}" + (":complex" if cplx else "")
            try:
                M = I.call_function(f, [fld], self_obj=obj)
            except XRaise as e:
                r2.fail(f.qualname, key, f.file, f.lineno, f"{cname}.Assemble", f"dof_n={dof_n}: raises {e}")
                continue
            except Uninterpretable as e:
                if "XTruncation" not in str(e):
                    raise
                r2.fail(f.qualname, key, f.file, f.lineno, f"{cname}.Assemble", f"dof_n={dof_n}, complex element arrays: {str(e).split('XTruncation: ')[-1]}: the assembled {'matrix' if bil else 'vector'} is not the scatter-add of what Integrate_e returns")
                continue
            want = {}
            for e in range(2):
                for i in range(n):
                    di = conn[e][i // dof_n] * dof_n + i % dof_n
                    for j in range(n if bil else 1):
                        dj = conn[e][j // dof_n] * dof_n + j % dof_n if bil else 0
                        want[(di, dj)] = want.get((di, dj), Poly()) + X[e, i, j]
            bad = None
            if not isinstance(M, XCsr):
                bad = "no sparse matrix is returned"
            else:
                got = M.dense()
                for k in set(want) | set(got):
                    if not is_zero(Poly.of(got.get(k, 0)) - want.get(k, Poly())):
                        bad = f"entry {k}: {got.get(k, 0)!r}, expected {want.get(k, Poly())!r}"
                        break
                if M.shape != ((Nn * dof_n, Nn * dof_n) if bil else (Nn * dof_n, 1)):
                    bad = f"shape {M.shape}"
            if bad:
                r2.fail(f.qualname, key, f.file, f.lineno, f"{cname}.Assemble", f"dof_n={dof_n}: {bad}: the assembled {'matrix' if bil else 'vector'} is not the scatter-add of the element arrays")
            else:
                r2.ok(f"{cname}.Assemble dof_n={dof_n}: scatter-add of Integrate_e")


def run(ctx):
    from . import e2e_rules as _e2e

    ctx.attempt(_e2e.weakforms_rule, ctx, 'R13.E1')
    from ..shared import flag_pair_rule as _flag_pair_rule

    ctx.attempt(_flag_pair_rule, ctx, "R13.10", scope=lambda f, _s=("EasyFEA.FEM._field", "EasyFEA.FEM._forms", "EasyFEA.Simulations._weakforms"): f.module.name.startswith(_s), min_instances=1)
    from ..shared import shared_container_rule as _shared_container_rule

    ctx.attempt(_shared_container_rule, ctx, "R13.9", scope=lambda f, _s=("EasyFEA.FEM._field", "EasyFEA.FEM._forms", "EasyFEA.FEM._linalg", "EasyFEA.Models._weakforms", "EasyFEA.Simulations._weakforms"): f.module.name.startswith(_s), min_instances=30)
    from . import c12 as _c12

    # a per-element coefficient written into a user form means the same as in the built-in operator (also when Ne == nPg)
    ctx.attempt(_c12.coefficient_table_rule, ctx, "R13.12")
    # a field on the right of a plain operand (`1 - u`, `k / u`, `A @ grad`): operands in the order written
    ctx.attempt(_c12.reflected_operator_rule, ctx, "R13.13")
    from . import c05 as _c05

    # 'a weak-form simulation returns the same solution as the dedicated simulation', also in time: l(v) and add_volumeLoad weigh the same
    ctx.attempt(_c05.load_equivalence_rule, ctx, "R13.14")
    ctx.attempt(mass_along_normal_rule, ctx)
    ctx.attempt(interpolate_rule, ctx)
    repo = ctx.repo
    ctx.level = "other"
    ctx.explanation = (
        "Decided: both Integrate_e loops are interpreted on a recording field stub: entry (i, j) of the element array is the form evaluated with trial (node i//dof_n, dof i%dof_n) and "
        "test (node j//dof_n, dof j%dof_n), multiplied by wJ and summed over Gauss points; Assemble scatters with the matrix maps (bilinear) / the vector map and column 0 (linear); the "
        "weak-form simulation puts computeK, C, M, F in slots 0..3 with one thickness factor; the value and the gradient a Field contributes depend on the active node and, for vector "
        "fields, on the active dof. Forms over a grammar (40 forms for scalar and vector fields, field / array / complex coefficients) are evaluated twice - "
        "by interpreting Field / FeArray / Integrate_e, and per point on reference tensors - and compared entry by entry (R13.8); the built-in anisotropic operator against the same meaning (R13.11). "
        "NOT decided: forms outside the grammar; the numerical solution of a weak-form simulation."
    )
    # ---- R13.1
    r1 = ctx.rule("R13.1", "activation layout: entry (i, j) <- form(u at (i//dof_n, i%dof_n), v at (j//dof_n, j%dof_n)) * wJ summed over Gauss points", min_instances=4)
    mod = repo.module(FORMS)
    for cname, bil in (("BiLinearForm", True), ("LinearForm", False)):
        ci = mod.classes[cname]
        f = ci.methods["Integrate_e"]
        for dof_n in (1, 2):
            r1.instance(fn=f.qualname)
            nPe = 2
            log = []
            field = FieldStub("u", dof_n, nPe, log)

            def form_bil(u, v):
                return XFe((1, 1), [Poly.var(f"a_{u.node}_{u.dof}_{v.node}_{v.dof}")])

            def form_lin(v):
                return XFe((1, 1), [Poly.var(f"l_{v.node}_{v.dof}")])

            obj = XObj(ci, {"_form": form_bil if bil else form_lin})
            I = Interp(repo)
            I.call_hook = fe_hook_full
            try:
                data = XArray.from_nested(I.call_function(f, [field], self_obj=obj))
            except XRaise as e:
                r1.fail(f.qualname, f"dof_n={dof_n}", f.file, f.lineno, f"{cname}.Integrate_e", str(e))
                continue
            n = nPe * dof_n
            bad = None
            want_shape = (1, n, n) if bil else (1, n, 1)
            if data.shape != want_shape:
                bad = f"shape {data.shape}, expected {want_shape}"
            else:
                for i in range(n):
                    for j in range(n if bil else 1):
                        if bil:
                            want = Poly.var(f"a_{i//dof_n}_{i%dof_n}_{j//dof_n}_{j%dof_n}") * Poly.var("wJ")
                        else:
                            want = Poly.var(f"l_{i//dof_n}_{i%dof_n}") * Poly.var("wJ")
                        if not is_zero(data[0, i, j] - want):
                            bad = f"entry ({i},{j}) = {data[0,i,j]!r}, expected {want!r}"
            if bad:
                r1.fail(f.qualname, f"dof_n={dof_n}", f.file, f.lineno, f"{cname}.Integrate_e", f"dof_n={dof_n}: {bad}")
            else:
                r1.ok(f"{cname}.Integrate_e dof_n={dof_n}: (node, dof) = (i // dof_n, i % dof_n), weighted by wJ")

    assemble_rule(ctx)

    # ---- R13.3
    r3 = ctx.rule("R13.3", "WeakForms.Construct_local_matrix_system: computeK, computeC, computeM, computeF fill slots 0..3, each integrated on the same field and multiplied by the thickness once", min_instances=1)
    wf = repo.cls(WF)
    f = wf.methods["Construct_local_matrix_system"]
    r3.instance(fn=f.qualname)
    t = Poly.var("t")
    cap = {}

    class Form:
        _xeval_open = True

        def __init__(self, nm):
            self.nm = nm

        def Integrate_e(self, field):
            cap.setdefault("fields", []).append(field)
            return Poly.var(self.nm)

    fld = Opaque("field")
    # the assembled (K, C, M, F) are memoised by the simulation and the scheme setters do not invalidate them: the element
    # system holds every form that was given WHATEVER time scheme is selected when it is built
    from ..xeval import EnumVal

    ALGO = "EasyFEA.Simulations.Solvers.AlgoType"
    amem = repo.enum_members(ALGO)
    # thickness: a 2-D mesh carries it wherever it lies in space (planar: inDim 2; tilted / rotated out of its plane: inDim 3),
    # a 3-D mesh does not -- the convention of the dedicated simulations (`if mesh.dim == 2`) the weak-form one must match
    for (dim_, inDim), want_t, algo in (((2, 2), 1, "elliptic"), ((2, 3), 1, "elliptic"), ((3, 3), 0, "elliptic"), ((2, 2), 1, "parabolic"), ((2, 2), 1, "newmark")):
        if algo != "elliptic" or (dim_, inDim) == (2, 3):
            r3.instance(fn=f.qualname)
        obj = XObj(wf, dict(weakForms=SimpleNamespace(field=fld, thickness=t, computeK=Form("K"), computeC=Form("C"), computeM=Form("M"), computeF=Form("F")), mesh=SimpleNamespace(dim=dim_, inDim=inDim, groupElem="g"), dim=dim_, _verbosity=False, algo=EnumVal(repo.cls(ALGO), algo, amem[algo])))
        I = Interp(repo, extra_builtins={"Tic": lambda *a, **k: Sink()})
        out = I.call_function(f, [Opaque("pt")], self_obj=obj)
        tup = out.get("g") if isinstance(out, dict) else None
        ok = tup is not None and len(tup) == 4 and all(tup[i] is not None and is_zero(Poly.of(tup[i]) - Poly.var("KCMF"[i]) * (t**want_t)) for i in range(4))
        if ok:
            r3.ok(f"mesh dim {dim_} in space of dim {inDim}, {algo}: (K, C, M, F) * thickness^{want_t}")
        else:
            r3.fail(f.qualname, f"slots:dim{dim_}in{inDim}:{algo}", f.file, f.lineno, "WeakForms.Construct_local_matrix_system", f"mesh of dimension {dim_} lying in a space of dimension {inDim}, time scheme {algo}: slots are {tup!r}; expected (K, C, M, F) each times thickness^{want_t} (the assembled matrices are kept across a change of scheme: a form left out here is missing from the transient that follows a static solve)")
    # None forms stay None
    obj = XObj(wf, dict(weakForms=SimpleNamespace(field=fld, thickness=t, computeK=Form("K"), computeC=None, computeM=None, computeF=None), mesh=SimpleNamespace(dim=2, inDim=2, groupElem="g"), dim=2, _verbosity=False, algo=EnumVal(repo.cls(ALGO), "elliptic", amem["elliptic"])))
    I = Interp(repo, extra_builtins={"Tic": lambda *a, **k: Sink()})
    out = I.call_function(f, [Opaque("pt")], self_obj=obj)
    r3.instance(fn=f.qualname)
    tup = out.get("g")
    if tup[1] is None and tup[2] is None and tup[3] is None:
        r3.ok("absent forms leave their slot None")
    else:
        r3.fail(f.qualname, "none-slots", f.file, f.lineno, "WeakForms.Construct_local_matrix_system", "an absent form does not leave its slot None")

    # ---- R13.6 field values carry the active dof
    r6 = ctx.rule("R13.6", "the value and the gradient contributed by a Field depend on the active node and, for vector fields (dof_n > 1), on the active dof", min_instances=2)
    fld_cls = repo.cls(FIELD)
    for mname in ("__call__", "grad"):
        f = fld_cls.methods[mname]
        r6.instance(fn=f.qualname)
        txt = norm_text(f.node)
        uses_node = "_Get_current_active_node()" in txt or "self.__node" in txt
        uses_dof = "_Get_current_active_dof()" in txt or "self.__dof" in txt.replace("self.__dof_n", "")
        if uses_node and uses_dof:
            r6.ok(f"Field.{mname}: depends on the active node and the active dof")
        elif not uses_node:
            r6.fail(f.qualname, "active-node", f.file, f.lineno, f"Field.{mname}", "does not read the active node")
        else:
            r6.fail(f.qualname, "active-dof", f.file, f.lineno, f"Field.{mname}", "the returned array does not depend on the active dof: for a vector field (dof_n > 1) the value is the scalar N_node whatever the component, so a form such as u.dot(v) couples different components (mass matrix with full dof_n x dof_n blocks instead of N_a N_b delta_ij)")
    copy_rule(ctx)
    ctx.attempt(forms_rule, ctx)
    from .c02 import anisotropic_operator_rule as _anisotropic_operator_rule
    from ..elems import ElemLib as _ElemLib

    ctx.attempt(_anisotropic_operator_rule, ctx, _ElemLib(repo), "R13.11")


def copy_rule(ctx):
    """R13.7: the test field of a bilinear form is `field.copy()`: the copy must carry every piece of the field's state
    (element group, dof count, quadrature, values, active node / dof). Either a deep copy, or a constructor call that
    forwards every __init__ parameter."""
    repo = ctx.repo
    r = ctx.rule("R13.7", "Field.copy carries the whole state: deep copy, or every parameter of Field.__init__ is forwarded to the new instance", min_instances=1)
    fc = repo.cls(FIELD)
    f = fc.methods["copy"]
    r.instance(fn=f.qualname)
    from ..flow import Locals

    Lc = Locals(f.node)
    rets = [Lc.resolve(n.value) for n in ast.walk(f.node) if isinstance(n, ast.Return) and n.value is not None]
    deep = rets and all(isinstance(v, ast.Call) and (dotted(v.func) or "") in ("copy.deepcopy", "deepcopy") and v.args and norm_text(v.args[0]) == "self" for v in rets)
    if deep:
        r.ok("Field.copy returns copy.deepcopy(self)")
        return
    init = fc.methods["__init__"]
    params = [p for p in init.params() if p != "self"]
    ctor = [n for n in ast.walk(f.node) if isinstance(n, ast.Call) and (dotted(n.func) or "") in ("Field", "type(self)", "self.__class__")]
    if not ctor:
        r.fail(f.qualname, "copy", f.file, f.lineno, "Field.copy", "the copy is neither a deep copy nor a new Field built from the state of self")
        return
    c = ctor[0]
    given = set(params[: len(c.args)]) | {k.arg for k in c.keywords if k.arg}
    missing = [p for p in params if p not in given]
    if missing:
        r.fail(f.qualname, f"copy-drops:{missing[0]}", f.file, c.lineno, "Field.copy", f"the new Field is built without `{missing[0]}` (falls back to the default): in BiLinearForm.Integrate_e the trial field u and the weights use the field's quadrature while the test field v = field.copy() uses another - element matrices are wrong or mis-shaped")
    else:
        r.ok("Field.copy forwards every __init__ parameter")


# ---------------------------------------------------------------------------
# R13.8  user forms over the grammar, interpreted on the repository's Field / FeArray / Integrate_e source and compared
#        with the per-point meaning of the same expression (sa/formspec.py)
# ---------------------------------------------------------------------------

BIL_SCALAR = [
    "lambda u, v: u.grad.dot(v.grad)",
    "lambda u, v: u.dot(v)",
    "lambda u, v: kappa * u.grad.dot(v.grad) + c0 * u.dot(v)",
    "lambda u, v: u.grad.dot(Am).dot(v.grad)",
    "lambda u, v: (u.grad @ Am) @ v.grad",
    "lambda u, v: (Am @ u.grad).dot(v.grad)",
    "lambda u, v: (bv @ u.grad) * v.dot(u) / c0",
    "lambda u, v: (2 * u).dot(v) - (u / 2).dot(v)",
    "lambda u, v: (1 - u).dot(v)",
    "lambda u, v: (c0 / (u + 2)).dot(v)",
    "lambda u, v: (u - kappa).dot(v + 1)",
    "lambda u, v: (kappa * Am @ u.grad) @ v.grad",
    "lambda u, v: u * v",
    "lambda u, v: c0 * u * v + u.grad.dot(v.grad)",
    "lambda u, v: cz * u.dot(v) + u.grad.dot(v.grad)",
]
LIN_SCALAR = [
    "lambda v: 1 * v",
    "lambda v: kappa * v",
    "lambda v: v * kappa - v / c0",
    "lambda v: v.grad.dot(bv).reshape(Ne, nPg, 1)",
    "lambda v: (bv @ v.grad).reshape(Ne, nPg, 1)",
    "lambda v: bv @ v.grad",
    "lambda v: kappa * v.grad.dot(bv)",
    "lambda v: cz * v",
]
LIN_VECTOR = [
    "lambda v: Sym_Grad(v).ddot(S0)",
    "lambda v: Trace(v.grad) * kappa",
    "lambda v: v.dot(bv)",
    "lambda v: kappa * (bv @ v)",
]
BIL_VECTOR = [
    "lambda u, v: Sym_Grad(u).ddot(Sym_Grad(v))",
    "lambda u, v: lmbda * Trace(Sym_Grad(u)) * Trace(Sym_Grad(v)) + 2 * mu * Sym_Grad(u).ddot(Sym_Grad(v))",
    "lambda u, v: u.grad.T.ddot(v.grad)",
    "lambda u, v: Trace(u.grad @ v.grad.T) * kappa",
    "lambda u, v: Sym_Grad(u).ddot(C4).ddot(Sym_Grad(v))",
    "lambda u, v: (u.grad @ Am).ddot(v.grad - Transpose(v.grad) / c0)",
    "lambda u, v: (Am @ u.grad).ddot(v.grad)",
    "lambda u, v: (Am @ u.grad @ Am).ddot(kappa * v.grad.T)",
    "lambda u, v: (bv @ u.grad).dot(v.grad @ bv)",
    "lambda u, v: u.dot(v)",
    "lambda u, v: kappa * u.dot(v) + c0 * u.grad.T.ddot(v.grad)",
    "lambda u, v: (Am @ u).dot(v)",
    "lambda u, v: (u @ bv) * (v @ bv)",
]


def forms_rule(ctx):
    import itertools

    from ..femodel import Model, FeV
    from .. import formspec as FS
    from ..xeval import Closure

    repo = ctx.repo
    r = ctx.rule(
        "R13.8",
        "forms over the grammar (u, v, grad, Sym_Grad, Trace, transpose, dot / ddot / @, field and constant coefficients on either side): Integrate_e of the repository's "
        "Field / FeArray / form classes, interpreted, equals the integral of the per-point meaning of the same expression, entry by entry, for symbolic shape-function data",
        min_instances=20,
    )
    M = Model(repo, max_steps=200_000_000)
    fmod = repo.module("EasyFEA.FEM._field")
    fcls = repo.cls(FIELD)
    forms_mod = repo.module(FORMS)
    ge = repo.cls("EasyFEA.FEM._group_elem._GroupElem")
    mt = repo.enum_members("EasyFEA.FEM._utils.MatrixType")
    for nm in ("__call__", "grad", "__mul__", "__rmul__", "__add__", "__radd__", "__sub__", "__rsub__", "__truediv__", "__rtruediv__", "__matmul__", "__rmatmul__", "dot", "ddot", "copy"):
        if nm in fcls.methods:
            r.analysed(fcls.methods[nm].qualname)

    def deepcopy_hook(fn, args, kwargs):
        if isinstance(fn, Opaque) and fn.tag.endswith("copy.deepcopy") and args and isinstance(args[0], XObj):
            return XObj(args[0].cls, dict(args[0].attrs))
        return NotImplemented

    M.user_call_hook = deepcopy_hook
    Ne, nPg, dim = 2, 2, 2  # Ne == nPg == dim on purpose

    def setup(nPe, dof_n):
        N = XArray((nPg, 1, nPe), [Poly.var(f"N{p}{a}") for p in range(nPg) for a in range(nPe)])
        dN = FeV((Ne, nPg, dim, nPe), [Poly.var(f"d{e}{p}{k}{a}") for e in range(Ne) for p in range(nPg) for k in range(dim) for a in range(nPe)])
        wJ = FeV((Ne, nPg), [Poly.var(f"w{e}{p}") for e in range(Ne) for p in range(nPg)])
        g = XObj(ge, {"nPe": nPe, "Ne": Ne, "inDim": dim, "dim": dim, "Ncoords": nPe + 1, "Get_N_pg": lambda mt_=None: N, "Get_dN_e_pg": lambda mt_=None: dN, "Get_weightedJacobian_e_pg": lambda mt_=None: wJ})
        fld = XObj(fcls, {})
        M.I.call_function(fcls.methods["__init__"], [g, dof_n], {}, self_obj=fld)
        return N, dN, wJ, fld

    kappa = FeV((Ne, nPg), [Poly.var(f"k{e}{p}") for e in range(Ne) for p in range(nPg)])
    Am = XArray((dim, dim), [Poly.var(f"A{i}{j}") for i in range(dim) for j in range(dim)])
    bv = XArray((dim,), [Poly.var(f"b{i}") for i in range(dim)])
    C4 = XArray((dim,) * 4, [Poly.var("C" + "".join(map(str, idx))) for idx in itertools.product(range(dim), repeat=4)])
    S0 = XArray((dim, dim), [Poly.var("S00"), Poly.var("S01"), Poly.var("S01"), Poly.var("S11")])
    from ..xeval import IMAG

    consts = {"c0": Q(3), "cz": Poly.const(Q(1)) + IMAG * Q(2), "lmbda": Q(5, 2), "mu": Q(7, 3), "Am": Am, "bv": bv, "C4": C4, "S0": S0, "Ne": Ne, "nPg": nPg}
    impl_env = dict(consts, kappa=kappa, Trace=repo.func("EasyFEA.FEM._linalg.Trace"), Transpose=repo.func("EasyFEA.FEM._linalg.Transpose"), Sym_Grad=repo.func("EasyFEA.FEM._field.Sym_Grad"))

    class _Reshaped:
        """spec side of `.reshape(Ne, nPg, 1)`: a per-point scalar stays that scalar"""

    def spec_reshape(self, *a):
        return self

    FS.PT.reshape = spec_reshape

    def run_form(src, bil, nPe, dof_n, label):
        r.instance(fn=forms_mod.classes["BiLinearForm" if bil else "LinearForm"].methods["Integrate_e"].qualname)
        N, dN, wJ, fld = setup(nPe, dof_n)
        cls = forms_mod.classes["BiLinearForm" if bil else "LinearForm"]
        f = cls.methods["Integrate_e"]
        clo = M.I.eval_expr(ast.parse(src, mode="eval").body, dict(impl_env), "<form>", fmod)
        obj = XObj(cls, {"_form": clo})
        key = f"{label}:{src.split(':', 1)[1].strip()}"
        try:
            data = XArray.from_nested(M.I.call_function(f, [fld], self_obj=obj))
        except XRaise as e:
            r.fail(f.qualname, key, f.file, f.lineno, f"{cls.name}.Integrate_e", f"{label} form `{src}`: raises {e}")
            return
        except Uninterpretable as e:
            if "a complex value is stored" in str(e):
                r.fail(f.qualname, key, f.file, f.lineno, f"{cls.name}.Integrate_e", f"{label} form `{src}` (complex coefficient 1 + 2i): {str(e).split(': ', 1)[-1]}: the element array is the real part of the form only")
                return
            if "cannot broadcast" in str(e) or "do not broadcast" in str(e) or "cannot reshape" in str(e):
                # a shape error numpy itself would raise: the form does not produce a per-point scalar
                r.fail(f.qualname, key, f.file, f.lineno, f"{cls.name}.Integrate_e", f"{label} form `{src}`: the integrand is not a scalar field ({e})")
                return
            raise
        n = nPe * dof_n
        bad = None
        for e in range(Ne):
            for i in range(n):
                for j in range(n if bil else 1):
                    tot = Rat.of(Poly())
                    for p in range(nPg):
                        env = dict(consts, kappa=FS.PT(kappa[e, p]), Trace=FS.Trace, Transpose=FS.Transpose, Sym_Grad=FS.Sym_Grad)
                        mk = lambda d: FS.USpec(N[p, 0, d // dof_n], [dN[e, p, k, d // dof_n] for k in range(dim)], dof_n, d % dof_n)
                        fn = eval(src, dict(env, __builtins__={}))
                        val = fn(mk(i), mk(j)) if bil else fn(mk(i))
                        val = val.v if isinstance(val, FS.PT) else val
                        if isinstance(val, XArray):
                            if val.size != 1:
                                raise AnalysisError(f"R13.8: form `{src}` is not scalar-valued in the reference semantics")
                            val = val.data[0]
                        tot = tot + Rat.of(val) * Rat.of(wJ[e, p]) if not isinstance(val, Rat) else tot + val * Rat.of(wJ[e, p])
                    got = data[e, i, j] if bil else data[e, i, 0]
                    if not is_zero(Rat.of(got) - tot if not isinstance(got, Rat) else got - tot):
                        bad = f"entry (e={e}, i={i}, j={j}) is {got!r}, the form means {tot!r}"
                        break
                if bad:
                    break
            if bad:
                break
        want_shape = (Ne, n, n) if bil else (Ne, n, 1)
        if bad is None and data.shape != want_shape:
            bad = f"shape {data.shape}, expected {want_shape}"
        if bad:
            r.fail(f.qualname, key, f.file, f.lineno, f"{cls.name}.Integrate_e", f"{label} form `{src}`: {bad}")
        else:
            r.ok(f"{label} `{src}`")

    for src in BIL_SCALAR:
        run_form(src, True, 2, 1, "scalar bilinear")
    for src in LIN_SCALAR:
        run_form(src, False, 2, 1, "scalar linear")
    for src in BIL_VECTOR:
        run_form(src, True, 2, 2, "vector bilinear")
    for src in LIN_VECTOR:
        run_form(src, False, 2, 2, "vector linear")


def mass_along_normal_rule(ctx, rid="R13.15"):
    """'integrates ... to the same matrix ... as the built-in operator for that form': the built-in surface operator
    `Bilinear.MassAlongNormal` is the form  coef (u . n)(v . n)  integrated over the facet: entry (3 a + i, 3 b + l) of the
    element matrix is  sum_p coef wJ_p N_a(p) n_i(p) n_l(p) N_b(p)  with the unit normal AT each integration point (a
    warped QUAD4 or a curved QUAD8 / TRI6 facet has a normal that varies inside the element).  The operator is interpreted
    on a facet with two nodes-per-element stand-ins, two integration points, symbolic shape values, weights and one
    symbolic normal per point, and compared with that sum entry by entry."""
    from ..femchain import fe_hook_full, XFe

    repo = ctx.repo
    f = repo.func("EasyFEA.FEM.Operators.Bilinear.MassAlongNormal")
    ge = repo.cls("EasyFEA.FEM._group_elem._GroupElem")
    r = ctx.rule(rid, "MassAlongNormal: element matrix == sum_p coef wJ_p N^T (n_p x n_p) N with the normal of each integration point (two points with different normals), interleaved (x, y, z) layout", min_instances=1)
    r.instance(fn=f.qualname)
    nPe, nPg = 2, 2
    N = [[Poly.var(f"N{p}{a}") for a in range(nPe)] for p in range(nPg)]
    nrm = [[Poly.var(f"n{p}{i}") for i in range(3)] for p in range(nPg)]
    wJ = [Poly.var(f"w{p}") for p in range(nPg)]
    coef = Poly.var("k")
    g = XObj(ge, {"dim": 2, "inDim": 3, "nPe": nPe, "Ne": 1,
                  "Get_weightedJacobian_e_pg": lambda mt=None: XFe((1, nPg), list(wJ)),
                  "Get_N_pg": lambda mt=None: XArray((nPg, 1, nPe), [N[p][a] for p in range(nPg) for a in range(nPe)]),
                  "Get_normals_e_pg": lambda mt=None, *a_, **k_: XFe((1, nPg, 3), [nrm[p][i] for p in range(nPg) for i in range(3)])})
    I = Interp(repo, max_steps=4_000_000)
    I.call_hook = fe_hook_full
    try:
        K = XArray.from_nested(I.call_function(f, [g, coef]))
    except XRaise as e:
        r.fail(f.qualname, "mass-along-normal", f.file, f.lineno, "MassAlongNormal", f"raises {e}")
        return
    n = 3 * nPe
    bad = None
    if K.shape != (1, n, n):
        bad = f"shape {K.shape}, expected (Ne, 3 nPe, 3 nPe)"
    else:
        for a in range(nPe):
            for i in range(3):
                for b in range(nPe):
                    for l in range(3):
                        want = sum((coef * wJ[p] * N[p][a] * nrm[p][i] * nrm[p][l] * N[p][b] for p in range(nPg)), Poly())
                        if bad is None and not is_zero(Poly.of(K[0, 3 * a + i, 3 * b + l]) - want):
                            bad = f"entry ({3 * a + i}, {3 * b + l}) is {K[0, 3 * a + i, 3 * b + l]!r}, the form gives {want!r}"
    if bad:
        r.fail(f.qualname, "mass-along-normal", f.file, f.lineno, "MassAlongNormal", f"{bad}: the built-in operator is not the integral of coef (u.n)(v.n) with the normal of each integration point - a user form written with the same normal field integrates to another matrix on facets whose normal varies")
    else:
        r.ok(f"MassAlongNormal == sum_p coef wJ_p N^T (n_p n_p^T) N ({n} x {n} polynomial identities)")


def interpolate_rule(ctx, rid="R13.16"):
    """'a form written by the user in terms of fields ...': a nodal coefficient (a body force, a velocity, a conductivity
    given at the nodes) enters a form through `Field.Interpolate`.  It is interpreted on a two-element group with the
    real `Locates_sol_e` / dof maps, for one and two values per node stored node-interleaved (x0, y0, x1, y1, ...) as every
    dof vector of the library is: the value at integration point p of element e, component c, must be
    sum_a N_a(p) values[connect[e, a] * dof_n + c]."""
    from ..femchain import fe_hook_full

    repo = ctx.repo
    fld = repo.cls("EasyFEA.FEM._field.Field")
    f = fld.methods["Interpolate"]
    ge = repo.cls("EasyFEA.FEM._group_elem._GroupElem")
    r = ctx.rule(rid, "Field.Interpolate: value[e, p, c] == sum_a N_a(p) dofsValues[connect[e, a] * dof_n + c] (node-interleaved storage) for 1 and 2 values per node, on two elements with a scattered numbering", min_instances=2)
    conn = [[3, 0, 2], [1, 2, 0]]
    Nn, nPe, nPg = 4, 3, 2
    N = [[Poly.var(f"N{p}{a}") for a in range(nPe)] for p in range(nPg)]
    for dof_n in (1, 2):
        r.instance(fn=f.qualname)
        c = XArray((2, nPe), [n for row in conn for n in row], "i")
        g = XObj(ge, {"nPe": nPe, "Ne": 2, "Ncoords": Nn, ge.mangle("__Ncoords"): Nn, "dim": 2, "connect": c, ge.mangle("__connect"): c,
                      "Get_N_pg": lambda mt=None: XArray((nPg, 1, nPe), [N[p][a] for p in range(nPg) for a in range(nPe)])})
        vals = XArray((Nn * dof_n,), [Poly.var(f"v{n}_{k}") for n in range(Nn) for k in range(dof_n)])
        obj = XObj(fld, {"groupElem": g, "matrixType": Opaque("mt"), fld.mangle("__dof_n"): dof_n, "dof_n": dof_n})
        I = Interp(repo)
        I.call_hook = fe_hook_full
        try:
            out = XArray.from_nested(I.call_function(f, [vals], self_obj=obj))
        except XRaise as e:
            r.fail(f.qualname, f"interpolate:dof_n={dof_n}", f.file, f.lineno, "Field.Interpolate", f"dof_n={dof_n}: raises {e}")
            continue
        bad = None
        if out.shape != (2, nPg, dof_n):
            bad = f"shape {out.shape}, expected (Ne, nPg, dof_n) = (2, {nPg}, {dof_n})"
        else:
            for e in range(2):
                for p in range(nPg):
                    for k in range(dof_n):
                        want = sum((N[p][a] * Poly.var(f"v{conn[e][a]}_{k}") for a in range(nPe)), Poly())
                        if bad is None and not is_zero(Poly.of(out[e, p, k]) - want):
                            bad = f"value[{e}, {p}, {k}] is {out[e, p, k]!r}, expected {want!r}"
        if bad:
            r.fail(f.qualname, f"interpolate:dof_n={dof_n}", f.file, f.lineno, "Field.Interpolate", f"{dof_n} value(s) per node: {bad}: the nodal coefficient is read with another storage order than the node-interleaved one of the dof vectors (a body force / velocity given at the nodes enters the form scrambled)")
        else:
            r.ok(f"dof_n={dof_n}: node-interleaved nodal values interpolated with the group's shape functions")
