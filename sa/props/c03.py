"""C03 -- assembly is the exact scatter-add: index provenance and slot order."""

from __future__ import annotations

import ast

from ..alg import Poly, Q, is_zero
from ..repo import AnalysisError, dotted, norm_text, walk_no_nested
from ..xeval import Interp, XObj, Opaque
from ..xarray import XArray
from ..elems import ElemLib

GE = "EasyFEA.FEM._group_elem._GroupElem"
SIMU = "EasyFEA.Simulations._simu._Simu"
BC = "EasyFEA.FEM._boundary_conditions.BoundaryCondition"


def layout_rules(ctx):
    repo = ctx.repo
    r1 = ctx.rule("R3.1", "dof numbering is node*dof_n + component at every site that builds dof indices", min_instances=5)
    r2 = ctx.rule("R3.2", "row/column provenance: flat entry (e,i,j) of X_e.ravel() receives rows a[e,i], cols a[e,j]; vectors receive a[e,i]", min_instances=3)
    I = Interp(repo)
    f = repo.method(GE, "_Get_assembly_e")
    Ne, nPe = 2, 3
    conn = XArray((Ne, nPe), [Poly.var(f"c{e}_{i}") for e in range(Ne) for i in range(nPe)])
    for dof_n in (1, 2, 3):
        r1.instance(fn=f.qualname)
        a = XArray.from_nested(I.call_function(f, [conn, dof_n]))
        bad = None
        if a.shape != (Ne, nPe * dof_n):
            bad = f"shape {a.shape}"
        else:
            for e in range(Ne):
                for i in range(nPe):
                    for d in range(dof_n):
                        if not is_zero(a[e, i * dof_n + d] - (conn[e, i] * dof_n + d)):
                            bad = f"entry [e={e}, {i}*{dof_n}+{d}] = {a[e, i*dof_n+d]!r}, expected node*{dof_n}+{d}"
        if bad:
            r1.fail(f.qualname, f"dof_n={dof_n}", f.file, f.lineno, "_Get_assembly_e", f"assembly table is not node*dof_n+component in interleaved order: {bad}")
        else:
            r1.ok(f"_Get_assembly_e dof_n={dof_n}: a[e, i*dof_n+d] == connect[e,i]*dof_n + d")
    # rows / columns
    ge = repo.cls(GE)
    for dof_n in (1, 2):
        obj = XObj(ge, dict(nPe=nPe, Ne=Ne, connect=conn))
        n = nPe * dof_n
        a = XArray.from_nested(I.call_function(f, [conn, dof_n]))
        for meth, pick in (("Get_rows_e", 0), ("Get_columns_e", 1)):
            fm = repo.method(GE, meth)
            r2.instance(fn=fm.qualname)
            res = XArray.from_nested(I.call_function(fm, [dof_n], self_obj=obj))
            bad = None
            if res.shape != (Ne, n * n):
                bad = f"shape {res.shape}"
            else:
                for e in range(Ne):
                    for i in range(n):
                        for j in range(n):
                            want = a[e, i] if pick == 0 else a[e, j]
                            if not is_zero(res[e, i * n + j] - want):
                                bad = f"flat entry (e={e}, i={i}, j={j}) receives {res[e, i*n+j]!r}, expected the dof of local index {'i' if pick == 0 else 'j'} = {want!r}"
            if bad:
                r2.fail(fm.qualname, f"dof_n={dof_n}", fm.file, fm.lineno, meth, f"{meth} does not follow the row-major flattening of (Ne, n, n) element matrices: {bad}")
            else:
                r2.ok(f"{meth} dof_n={dof_n}: entry (e,i,j) -> a[e,{'i' if pick == 0 else 'j'}]")
    # Get_dofs_nodes
    fb = repo.method(BC, "Get_dofs_nodes")
    r1.instance(fn=fb.qualname)
    nodes = XArray((2,), [Poly.var("n0"), Poly.var("n1")])
    res = XArray.from_nested(I.call_function(fb, [["x", "y", "z"], nodes, ["z", "x"]]))
    res = res.ravel() if res.ndim > 1 else res
    want = [nodes[0] * 3 + 2, nodes[0] * 3 + 0, nodes[1] * 3 + 2, nodes[1] * 3 + 0]
    if res.size == 4 and all(is_zero(res.data[k] - want[k]) for k in range(4)):
        r1.ok("BoundaryCondition.Get_dofs_nodes: node*dim + index(unknown), node-major order")
    else:
        r1.fail(fb.qualname, "layout", fb.file, fb.lineno, "Get_dofs_nodes", f"dofs for nodes (n0,n1), unknowns (z,x) among (x,y,z) are {res.tolist() if isinstance(res, XArray) else res!r}, expected {want!r}")
    # Get_N_pg_rep: out[p, r, n*rep + r] = N[p, n]
    fn = repo.method(GE, "Get_N_pg_rep")
    for rep in (2, 3):
        r1.instance(fn=fn.qualname)
        nP = 2
        Npg = XArray((1, 1, nP), [Poly.var(f"N{n}") for n in range(nP)])
        obj = XObj(ge, dict(dim=2))
        obj.attrs["Get_N_pg"] = lambda mt=None: Npg
        out = XArray.from_nested(I.call_function(fn, [Opaque("mt"), rep], self_obj=obj))
        bad = None
        if out.shape != (1, rep, nP * rep):
            bad = f"shape {out.shape}"
        else:
            for rr in range(rep):
                for c in range(nP * rep):
                    nn, d = divmod(c, rep)
                    want = Npg[0, 0, nn] if d == rr else Q(0)
                    if not is_zero(out[0, rr, c] - want):
                        bad = f"entry [row {rr}, col {c}]"
        if bad:
            r1.fail(fn.qualname, f"rep={rep}", fn.file, fn.lineno, "Get_N_pg_rep", f"block layout is not N_n at column n*{rep}+row: {bad}")
        else:
            r1.ok(f"Get_N_pg_rep repeat={rep}: N_n sits at [r, n*rep + r]")


def csr_rules(ctx):
    repo = ctx.repo
    r = ctx.rule("R3.3", "cached CSR map: data and map built from the same filtered group tuple; map body reads only its key; inv from the map's own pattern", min_instances=6)
    simu = repo.cls(SIMU)
    fa = simu.methods["__Assemble_csr"]
    fm = simu.methods["__Get_csr_map"]
    r.instance(fn=fa.qualname)
    # groups comprehension with the `is not None` filter
    groups_def = None
    data_def = None
    map_call = None
    for n in ast.walk(fa.node):
        if isinstance(n, ast.Assign) and len(n.targets) == 1 and isinstance(n.targets[0], ast.Name):
            t = n.targets[0].id
            if t == "groups":
                groups_def = n
            if t == "data" and "concatenate" in norm_text(n.value):
                data_def = n
        if isinstance(n, ast.Call) and (dotted(n.func) or "").endswith("__Get_csr_map"):
            map_call = n
    if groups_def is None or data_def is None or map_call is None:
        raise AnalysisError("R3.3: __Assemble_csr no longer has the groups/data/map structure")
    gtxt = norm_text(groups_def.value)
    comp = [c for c in ast.walk(groups_def.value) if isinstance(c, (ast.GeneratorExp, ast.ListComp))]
    has_filter = bool(comp) and any(isinstance(i, ast.Compare) and isinstance(i.ops[0], ast.IsNot) and isinstance(i.comparators[0], ast.Constant) and i.comparators[0].value is None for c in comp for g in c.generators for i in g.ifs)
    if has_filter:
        r.ok("groups = tuple(g for g, X_e in ... if X_e is not None)")
    else:
        r.fail(fa.qualname, "filter", fa.file, groups_def.lineno, "__Assemble_csr", f"the contributing-group tuple is not filtered on `X_e is not None`: {gtxt}")
    r.instance(fn=fa.qualname)
    comp = [c for c in ast.walk(data_def.value) if isinstance(c, (ast.GeneratorExp, ast.ListComp))]
    ok = bool(comp) and all(isinstance(g.iter, ast.Name) and g.iter.id == "groups" and not g.ifs for c in comp for g in c.generators)
    if ok:
        r.ok("data = concatenate([...ravel() for g in groups]) iterates the same tuple, unfiltered")
    else:
        r.fail(fa.qualname, "data-order", fa.file, data_def.lineno, "__Assemble_csr", f"`data` is not concatenated over the same `groups` tuple as the cached map: {norm_text(data_def.value)}")
    r.instance(fn=fa.qualname)
    params = [a.arg for a in fa.node.args.args]
    args = [norm_text(a) for a in map_call.args]
    if args == ["dof_n", "isMatrix", "Ndof", "groups"]:
        r.ok("map key = (dof_n, isMatrix, Ndof, groups)")
    else:
        r.fail(fa.qualname, "key", fa.file, map_call.lineno, "__Assemble_csr", f"__Get_csr_map is called with {args}, expected (dof_n, isMatrix, Ndof, groups)")
    # bincount uses inv / data / nnz
    r.instance(fn=fa.qualname)
    bcs = [n for n in ast.walk(fa.node) if isinstance(n, ast.Call) and (dotted(n.func) or "") == "np.bincount"]
    okb = bool(bcs)
    for b in bcs:
        w = next((k.value for k in b.keywords if k.arg == "weights"), None)
        ml = next((k.value for k in b.keywords if k.arg == "minlength"), None)
        if not (b.args and norm_text(b.args[0]) == "inv" and w is not None and norm_text(w).split(".")[0] == "data" and ml is not None and norm_text(ml) == "nnz"):
            okb = False
    unpack_ok = any(isinstance(n, ast.Assign) and isinstance(n.targets[0], ast.Tuple) and [norm_text(e) for e in n.targets[0].elts] == ["inv", "indices", "indptr", "nnz"] and n.value is map_call for n in ast.walk(fa.node))
    csr_ok = any(isinstance(n, ast.Call) and (dotted(n.func) or "").endswith("csr_matrix") and n.args and norm_text(n.args[0]) == "(csr_data, indices, indptr)" for n in ast.walk(fa.node))
    if okb and unpack_ok and csr_ok:
        r.ok("csr_data = bincount(inv, weights=data, minlength=nnz); csr_matrix((csr_data, indices, indptr))")
    else:
        r.fail(fa.qualname, "bincount", fa.file, fa.lineno, "__Assemble_csr", "the reduction is not bincount(inv, weights=data[.real/.imag], minlength=nnz) fed into csr_matrix((csr_data, indices, indptr)) with (inv, indices, indptr, nnz) unpacked in the order the map returns them")
    # map function: reads only parameters
    r.instance(fn=fm.qualname)
    selfreads = [norm_text(n) for n in ast.walk(fm.node) if isinstance(n, ast.Attribute) and isinstance(n.value, ast.Name) and n.value.id == "self"]
    if not fm.is_cached():
        r.note("__Get_csr_map is not decorated with cache_computed_values any more (nothing to invalidate)")
    if selfreads:
        r.fail(fm.qualname, "key-coverage", fm.file, fm.lineno, "__Get_csr_map", f"the cached map reads {sorted(set(selfreads))}, which is not part of its cache key (name, args)")
    else:
        r.ok("__Get_csr_map reads nothing but its parameters (dof_n, isMatrix, Ndof, groups)")
    # return order and searchsorted on its own pattern
    r.instance(fn=fm.qualname)
    rets = [n for n in ast.walk(fm.node) if isinstance(n, ast.Return)]
    rtxt = norm_text(rets[-1].value) if rets else ""
    ss = [n for n in ast.walk(fm.node) if isinstance(n, ast.Call) and (dotted(n.func) or "") == "np.searchsorted"]
    ok = rtxt.replace(" ", "") == "(inv,matrix.indices,matrix.indptr,matrix.nnz)" and len(ss) == 1 and norm_text(ss[0].args[0]) == "canon"
    loop_ok = False
    for n in ast.walk(fm.node):
        if isinstance(n, ast.For) and isinstance(n.iter, ast.Name) and n.iter.id == "groups":
            body = norm_text(n)
            loop_ok = body.count("list_rows.append") == 2 and body.count("list_cols.append") == 2 and "Get_rows_e(dof_n)" in body and "Get_columns_e(dof_n)" in body and "Get_assembly_e(dof_n)" in body
    if ok and loop_ok:
        r.ok("map returns (inv, indices, indptr, nnz); inv = searchsorted(canon, rows*ncol+cols); rows/cols appended per group in `groups` order")
    else:
        r.fail(fm.qualname, "map-shape", fm.file, fm.lineno, "__Get_csr_map", "the map no longer has the shape (loop over `groups` appending rows and cols in both branches; inv = searchsorted(canon, ...); return (inv, indices, indptr, nnz))")
    # connectivity immutable outside __init__
    r.instance(fn=GE)
    ge = repo.cls(GE)
    writers = []
    for f in ge.methods.values():
        for n in ast.walk(f.node):
            if isinstance(n, (ast.Assign, ast.AugAssign)):
                tg = n.targets if isinstance(n, ast.Assign) else [n.target]
                for t in tg:
                    base = t
                    while isinstance(base, ast.Subscript):
                        base = base.value
                    if isinstance(base, ast.Attribute) and isinstance(base.value, ast.Name) and base.value.id == "self" and base.attr in ("__connect", "_GroupElem__connect"):
                        writers.append(f.name)
    if set(writers) <= {"__init__"} and writers:
        r.ok("_GroupElem.__connect is assigned only in __init__ (the cached map depends on connectivity only)")
    else:
        f0 = ge.methods["__init__"]
        r.fail(GE, "connect-writers", f0.file, f0.lineno, "_GroupElem", f"connectivity is written by {sorted(set(writers))}: the cached CSR map keyed by the group object would go stale")


def slot_rules(ctx):
    repo = ctx.repo
    r = ctx.rule("R3.4", "slot order (K, C, M, F): Assembly reads tuple positions 0..2 as matrices and 3 as a vector; every producer stores 4-tuples; every unpacking site uses the same order", min_instances=12)
    simu = repo.cls(SIMU)
    fa = simu.methods["Assembly"]
    r.instance(fn=fa.qualname)
    calls = {}
    for n in ast.walk(fa.node):
        if isinstance(n, ast.Assign) and isinstance(n.value, ast.Call) and (dotted(n.value.func) or "").endswith("__Assemble_csr") and isinstance(n.targets[0], ast.Name):
            c = n.value
            idx = [s.slice.value for s in ast.walk(c.args[0]) if isinstance(s, ast.Subscript) and isinstance(s.slice, ast.Constant)]
            ismat = c.args[3].value if len(c.args) > 3 and isinstance(c.args[3], ast.Constant) else None
            calls[n.targets[0].id] = (idx[0] if idx else None, ismat)
    want = {"K": (0, True), "C": (1, True), "M": (2, True), "F": (3, False)}
    ret = [norm_text(n.value) for n in ast.walk(fa.node) if isinstance(n, ast.Return)]
    if calls == want and ret and ret[-1].replace(" ", "") == "(K,C,M,F)":
        r.ok("Assembly: K<-slot0, C<-slot1, M<-slot2 (matrices), F<-slot3 (vector); returns (K, C, M, F)")
    else:
        r.fail(fa.qualname, "slots", fa.file, fa.lineno, "Assembly", f"slot table is {calls}, return {ret}; expected {want} and (K, C, M, F)")
    # producers
    nprod = 0
    for ci in repo.subclasses(simu, strict=False):
      for mname, f in sorted(ci.methods.items()):
        if "Construct" not in mname or f.cls is not ci or mname.startswith("_" + ci.name.lstrip("_") + "__"):
            continue
        for n in ast.walk(f.node):
            tup = None
            if isinstance(n, ast.Assign) and isinstance(n.targets[0], ast.Subscript) and isinstance(n.value, ast.Tuple):
                tup = n.value
            elif isinstance(n, ast.Return) and isinstance(n.value, ast.Dict):
                for v in n.value.values:
                    if isinstance(v, ast.Tuple):
                        tup = v
            if tup is None:
                continue
            nprod += 1
            r.instance(fn=f.qualname)
            if len(tup.elts) == 4:
                r.ok(f"{ci.name}.{f.name} stores a 4-tuple: {norm_text(tup)}")
            else:
                r.fail(f.qualname, f"tuple:{norm_text(tup)}", f.file, n.lineno, f"{ci.name}.{f.name}", f"stores a {len(tup.elts)}-tuple {norm_text(tup)}; Assembly reads positions 0..3")
    if nprod < 7:
        raise AnalysisError(f"R3.4: only {nprod} producer tuples found (expected >= 7)")
    # consumers: unpacking of Get_K_C_M_F() / Assembly()
    for f in repo.all_functions():
        for n in walk_no_nested(f.node):
            if isinstance(n, ast.Assign) and isinstance(n.targets[0], ast.Tuple) and isinstance(n.value, ast.Call):
                d = dotted(n.value.func) or ""
                if d.split(".")[-1] in ("Get_K_C_M_F", "Assembly"):
                    names = [norm_text(e) for e in n.targets[0].elts]
                    r.instance(fn=f.qualname)
                    ok = len(names) == 4 and all(nm == "_" or nm.split(".")[-1].lstrip("_").upper().startswith(L) for nm, L in zip(names, "KCMF"))
                    if ok:
                        r.ok(f"{f.qualname}: {', '.join(names)} = {d}()")
                    else:
                        r.fail(f.qualname, f"unpack:{','.join(names)}", f.file, n.lineno, f.name, f"unpacks {d}() as ({', '.join(names)}); the producer order is (K, C, M, F)")
    # Get_K_C_M_F implementations return in the same order
    for ci in repo.subclasses(simu, strict=False):
        f = ci.methods.get("Get_K_C_M_F")
        if f is None or f.cls is not ci:
            continue
        r.instance(fn=f.qualname)
        rets = [n for n in walk_no_nested(f.node) if isinstance(n, ast.Return) and isinstance(n.value, ast.Tuple)]
        bad = [norm_text(x.value) for x in rets if len(x.value.elts) != 4]
        if rets and not bad:
            r.ok(f"{ci.name}.Get_K_C_M_F returns 4-tuples: {norm_text(rets[-1].value)}")
        else:
            r.fail(f.qualname, "return", f.file, f.lineno, f"{ci.name}.Get_K_C_M_F", f"return values {bad or 'not found'}")


def run(ctx):
    ctx.level = "other"
    ctx.explanation = (
        "Index arithmetic of the assembly (dof = node*dof_n+comp, rows/cols of flattened element matrices, block layout of N) is decided by interpreting "
        "the index-building functions on symbolic node numbers / labelled entries (shape-generic code, no branches). The cached CSR reduction map is checked "
        "structurally: data and map use the same filtered group tuple, the map reads only its cache key, inv is looked up in the map's own pattern, connectivity "
        "is immutable. Slot order (K,C,M,F) is a tuple-order agreement between Assembly, all producers and all unpacking sites. NOT decided: numerical equality "
        "with an independent summation (scipy/numpy semantics of csr_matrix, bincount, searchsorted are assumed)."
    )
    ctx.assume("numpy repeat/reshape/ravel semantics as modelled in sa/xarray.py; scipy's coo->csr constructor sums duplicates and sort_indices() is canonical")
    layout_rules(ctx)
    csr_rules(ctx)
    slot_rules(ctx)
