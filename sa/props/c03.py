"""C03 -- assembly is the exact scatter-add: index provenance and slot order."""

from __future__ import annotations

from fractions import Fraction

import ast

from ..alg import Poly, Q, is_zero
from ..repo import AnalysisError, dotted, norm_text, walk_no_nested
from ..xeval import Interp, XObj, Opaque, XRaise
from ..xarray import XArray
from ..elems import ElemLib

GE = "EasyFEA.FEM._group_elem._GroupElem"
SIMU = "EasyFEA.Simulations._simu._Simu"
BC = "EasyFEA.FEM._boundary_conditions.BoundaryCondition"


def layout_rules(ctx):
    repo = ctx.repo
    r1 = ctx.rule("R3.1", "dof numbering is node*dof_n + component at every site that builds dof indices", min_instances=5)
    r2 = ctx.rule("R3.2", "row/column provenance: flat entry (e,i,j) of X_e.ravel() receives rows a[e,i], cols a[e,j]; vectors receive a[e,i]", min_instances=3)
    I = Interp(repo)
    f = repo.method(GE, "_Get_assembly_e")
    Ne, nPe = 2, 3
    conn = XArray((Ne, nPe), [Poly.var(f"c{e}_{i}") for e in range(Ne) for i in range(nPe)])
    for dof_n in (1, 2, 3):
        r1.instance(fn=f.qualname)
        a = XArray.from_nested(I.call_function(f, [conn, dof_n]))
        bad = None
        if a.shape != (Ne, nPe * dof_n):
            bad = f"shape {a.shape}"
        else:
            for e in range(Ne):
                for i in range(nPe):
                    for d in range(dof_n):
                        if not is_zero(a[e, i * dof_n + d] - (conn[e, i] * dof_n + d)):
                            bad = f"entry [e={e}, {i}*{dof_n}+{d}] = {a[e, i*dof_n+d]!r}, expected node*{dof_n}+{d}"
        if bad:
            r1.fail(f.qualname, f"dof_n={dof_n}", f.file, f.lineno, "_Get_assembly_e", f"assembly table is not node*dof_n+component in interleaved order: {bad}")
        else:
            r1.ok(f"_Get_assembly_e dof_n={dof_n}: a[e, i*dof_n+d] == connect[e,i]*dof_n + d")
    # rows / columns
    ge = repo.cls(GE)
    for dof_n in (1, 2):
        # the stored connectivity under its public and its private name (a fast path may read either)
        obj = XObj(ge, {"nPe": nPe, "Ne": Ne, "connect": conn, ge.mangle("__connect"): conn})
        n = nPe * dof_n
        a = XArray.from_nested(I.call_function(f, [conn, dof_n]))
        for meth, pick in (("Get_rows_e", 0), ("Get_columns_e", 1)):
            fm = repo.method(GE, meth)
            r2.instance(fn=fm.qualname)
            res = XArray.from_nested(I.call_function(fm, [dof_n], self_obj=obj))
            bad = None
            if res.shape != (Ne, n * n):
                bad = f"shape {res.shape}"
            else:
                for e in range(Ne):
                    for i in range(n):
                        for j in range(n):
                            want = a[e, i] if pick == 0 else a[e, j]
                            if not is_zero(res[e, i * n + j] - want):
                                bad = f"flat entry (e={e}, i={i}, j={j}) receives {res[e, i*n+j]!r}, expected the dof of local index {'i' if pick == 0 else 'j'} = {want!r}"
            if bad:
                r2.fail(fm.qualname, f"dof_n={dof_n}", fm.file, fm.lineno, meth, f"{meth} does not follow the row-major flattening of (Ne, n, n) element matrices: {bad}")
            else:
                r2.ok(f"{meth} dof_n={dof_n}: entry (e,i,j) -> a[e,{'i' if pick == 0 else 'j'}]")
    dofs_nodes_rule(ctx, r1)
    # Get_N_pg_rep: out[p, r, n*rep + r] = N[p, n]
    fn = repo.method(GE, "Get_N_pg_rep")
    for rep in (2, 3):
        r1.instance(fn=fn.qualname)
        nP = 2
        Npg = XArray((1, 1, nP), [Poly.var(f"N{n}") for n in range(nP)])
        obj = XObj(ge, dict(dim=2))
        obj.attrs["Get_N_pg"] = lambda mt=None: Npg
        out = XArray.from_nested(I.call_function(fn, [Opaque("mt"), rep], self_obj=obj))
        bad = None
        if out.shape != (1, rep, nP * rep):
            bad = f"shape {out.shape}"
        else:
            for rr in range(rep):
                for c in range(nP * rep):
                    nn, d = divmod(c, rep)
                    want = Npg[0, 0, nn] if d == rr else Q(0)
                    if not is_zero(out[0, rr, c] - want):
                        bad = f"entry [row {rr}, col {c}]"
        if bad:
            r1.fail(fn.qualname, f"rep={rep}", fn.file, fn.lineno, "Get_N_pg_rep", f"block layout is not N_n at column n*{rep}+row: {bad}")
        else:
            r1.ok(f"Get_N_pg_rep repeat={rep}: N_n sits at [r, n*rep + r]")


def csr_rules(ctx):
    """R3.3: the memoised reduction map depends on its cache key only (what the map computes, and that the values stay
    aligned with it, is decided by interpretation in R3.9 -- the structural shape rules of earlier sessions were
    replaced by it: they would have fired on behaviour-preserving rewrites)."""
    repo = ctx.repo
    r = ctx.rule("R3.3", "cached CSR map: the memoised map reads nothing but its parameters (its cache key)", min_instances=1)
    simu = repo.cls(SIMU)
    fm = simu.methods["__Get_csr_map"]
    r.instance(fn=fm.qualname)
    selfreads = [norm_text(n) for n in ast.walk(fm.node) if isinstance(n, ast.Attribute) and isinstance(n.value, ast.Name) and n.value.id == "self"]
    if not fm.is_cached():
        r.note("__Get_csr_map is not decorated with cache_computed_values any more (nothing to invalidate)")
    if selfreads:
        r.fail(fm.qualname, "key-coverage", fm.file, fm.lineno, "__Get_csr_map", f"the cached map reads {sorted(set(selfreads))}, which is not part of its cache key (name, args)")
    else:
        r.ok("__Get_csr_map reads nothing but its parameters")


def slot_rules(ctx):
    repo = ctx.repo
    r = ctx.rule("R3.4", "slot order (K, C, M, F): Assembly reads tuple positions 0..2 as matrices and 3 as a vector; every producer stores 4-tuples; every unpacking site uses the same order", min_instances=12)
    simu = repo.cls(SIMU)
    fa = simu.methods["Assembly"]
    r.instance(fn=fa.qualname)
    from ..flow import Locals

    La = Locals(fa.node)
    rets = [n for n in ast.walk(fa.node) if isinstance(n, ast.Return) and isinstance(n.value, ast.Tuple)]
    got = []
    if rets and len(rets[-1].value.elts) == 4:
        for e in rets[-1].value.elts:
            c = La.resolve(e)
            if isinstance(c, ast.Call) and (dotted(c.func) or "").endswith("__Assemble_csr"):
                idx = [s_.slice.value for s_ in ast.walk(c.args[0]) if isinstance(s_, ast.Subscript) and isinstance(s_.slice, ast.Constant)]
                ismat = c.args[3].value if len(c.args) > 3 and isinstance(c.args[3], ast.Constant) else None
                got.append((idx[0] if idx else None, ismat))
            else:
                got.append(None)
    want = [(0, True), (1, True), (2, True), (3, False)]
    if got == want:
        r.ok("Assembly returns (csr(slot 0), csr(slot 1), csr(slot 2), vector(slot 3))")
    else:
        r.fail(fa.qualname, "slots", fa.file, fa.lineno, "Assembly", f"the returned 4-tuple is built from slots/kinds {got}; expected {want} (K, C, M matrices and the F vector)")
    # producers
    nprod = 0
    for ci in repo.subclasses(simu, strict=False):
      for mname, f in sorted(ci.methods.items()):
        if "Construct" not in mname or f.cls is not ci or mname.startswith("_" + ci.name.lstrip("_") + "__"):
            continue
        for n in ast.walk(f.node):
            tup = None
            if isinstance(n, ast.Assign) and isinstance(n.targets[0], ast.Subscript) and isinstance(n.value, ast.Tuple):
                tup = n.value
            elif isinstance(n, ast.Return) and isinstance(n.value, ast.Dict):
                for v in n.value.values:
                    if isinstance(v, ast.Tuple):
                        tup = v
            if tup is None:
                continue
            nprod += 1
            r.instance(fn=f.qualname)
            if len(tup.elts) == 4:
                r.ok(f"{ci.name}.{f.name} stores a 4-tuple: {norm_text(tup)}")
            else:
                r.fail(f.qualname, f"tuple:{norm_text(tup)}", f.file, n.lineno, f"{ci.name}.{f.name}", f"stores a {len(tup.elts)}-tuple {norm_text(tup)}; Assembly reads positions 0..3")
    if nprod < 7:
        raise AnalysisError(f"R3.4: only {nprod} producer tuples found (expected >= 7)")
    # consumers: unpacking of Get_K_C_M_F() / Assembly()
    for f in repo.all_functions():
        for n in walk_no_nested(f.node):
            if isinstance(n, ast.Assign) and isinstance(n.targets[0], ast.Tuple) and isinstance(n.value, ast.Call):
                d = dotted(n.value.func) or ""
                if d.split(".")[-1] in ("Get_K_C_M_F", "Assembly"):
                    names = [norm_text(e) for e in n.targets[0].elts]
                    r.instance(fn=f.qualname)
                    ok = len(names) == 4 and all(nm == "_" or nm.split(".")[-1].lstrip("_").upper().startswith(L) for nm, L in zip(names, "KCMF"))
                    if ok:
                        r.ok(f"{f.qualname}: {', '.join(names)} = {d}()")
                    else:
                        r.fail(f.qualname, f"unpack:{','.join(names)}", f.file, n.lineno, f.name, f"unpacks {d}() as ({', '.join(names)}); the producer order is (K, C, M, F)")
    # Get_K_C_M_F implementations return in the same order
    for ci in repo.subclasses(simu, strict=False):
        f = ci.methods.get("Get_K_C_M_F")
        if f is None or f.cls is not ci:
            continue
        r.instance(fn=f.qualname)
        rets = [n for n in walk_no_nested(f.node) if isinstance(n, ast.Return) and isinstance(n.value, ast.Tuple)]
        bad = [norm_text(x.value) for x in rets if len(x.value.elts) != 4]
        if rets and not bad:
            r.ok(f"{ci.name}.Get_K_C_M_F returns 4-tuples: {norm_text(rets[-1].value)}")
        else:
            r.fail(f.qualname, "return", f.file, f.lineno, f"{ci.name}.Get_K_C_M_F", f"return values {bad or 'not found'}")


def run(ctx):
    from . import e2e_rules as _e2e

    ctx.attempt(_e2e.assembly_rule, ctx, 'R3.E1')
    ctx.attempt(csr_assembly_rule, ctx)
    ctx.attempt(pattern_structure_rule, ctx)
    from ..shared import memo_result_escape_rule as _memo_result_escape_rule

    # 'a later assembly that reuses the cached sparsity pattern': the pattern is not reachable (writable) through a returned matrix
    ctx.attempt(_memo_result_escape_rule, ctx, "R3.12", lambda f: f.qualname.startswith("EasyFEA."), 20)
    from . import c14 as _c14

    # 'whether it is the first assembly or a later one': a later request returns the matrices of the current state
    ctx.attempt(_c14.per_problem_memo_rule, ctx, "R3.10")
    from ..shared import group_loop_rule as _group_loop_rule

    ctx.attempt(_group_loop_rule, ctx, "R3.8", scope=lambda f, _s=("EasyFEA.Simulations",): f.module.name.startswith(_s), min_instances=5)
    from ..shared import copy_out_rule as _copy_out_rule

    ctx.attempt(_copy_out_rule, ctx, "R3.7", ["Get_K_C_M_F"], "EasyFEA.Simulations._simu._Simu")
    ctx.level = "other"
    ctx.explanation = (
        "Index arithmetic of the assembly (dof = node*dof_n+comp, rows/cols of flattened element matrices, block layout of N) is decided by interpreting "
        "the index-building functions on symbolic node numbers / labelled entries (shape-generic code, no branches). The cached CSR reduction map is checked "
        "structurally: data and map use the same filtered group tuple, the map reads only its cache key, inv is looked up in the map's own pattern, connectivity "
        "is immutable. Slot order (K,C,M,F) is a tuple-order agreement between Assembly, all producers and all unpacking sites. NOT decided: numerical equality "
        "with an independent summation (scipy/numpy semantics of csr_matrix, bincount, searchsorted are assumed)."
    )
    ctx.assume("numpy repeat/reshape/ravel semantics as modelled in sa/xarray.py; scipy's coo->csr constructor sums duplicates and sort_indices() is canonical")
    layout_rules(ctx)
    csr_rules(ctx)
    # R3.4 (slot order read off the SYNTAX of Assembly, of the producers' tuples and of the callers' local names) is retired:
    # it fired on a behaviour-preserving rewrite of Assembly as a loop over a slot table (refactored/C03-R5).  The clause is
    # decided by interpretation: R3.6 (Assembly on recording stubs), R2.10 (every producer) and the end-to-end R3.E1 / R4.E1.
    routing_rule(ctx)
    # the direct sparse assembly of user forms is the same scatter-add (R13.2)
    from . import c13

    c13.assemble_rule(ctx)


def routing_rule(ctx):
    """R3.6: Assembly routes slot k of every group that provides it to the k-th global array: interpreted with one group
    per slot pattern (only K, only C, only M, only F, all four) and a recording stub for the reduction."""
    from types import SimpleNamespace

    from ..repo import FuncInfo
    from ..xarray import Lbl

    repo = ctx.repo
    r = ctx.rule("R3.6", "slot routing: for k in (K, C, M, F) the k-th assembled array receives the k-th element array of every group that provides one (no group is filtered out because its other slots are empty), matrices for k < 3 and a vector for k = 3", min_instances=4)
    simu = repo.cls(SIMU)
    fa = simu.methods["Assembly"]
    class G:
        def __init__(self, tag):
            self.tag = tag

    groups = [G(f"g{i}") for i in range(5)]
    pats = [(0,), (1,), (2,), (3,), (0, 1, 2, 3)]
    table = {g: tuple(Lbl("X", g.tag, k) if k in pat else None for k in range(4)) for g, pat in zip(groups, pats)}
    calls = []

    def hook(fn, args, kwargs):
        if isinstance(fn, FuncInfo) and fn.name.endswith("__Assemble_csr"):
            calls.append((dict(args[0]), args[3] if len(args) > 3 else kwargs.get("isMatrix")))
            return Lbl("assembled", len(calls) - 1)
        if isinstance(fn, FuncInfo) and fn.name in ("Tic", "Tac"):
            return None
        return NotImplemented

    def asm(d, dof_n, Ndof, isMatrix):
        calls.append((dict(d), isMatrix))
        return Lbl("assembled", len(calls) - 1)

    # the mesh of the stand-in: the group that provides only F is a boundary group (lower dimension) - an element-level system
    # may come from any group of the mesh (Robin / exchange terms on the boundary), not only from the main-dimension ones
    mesh_stub = SimpleNamespace(Get_list_groupElem=lambda dim=None: [g for g in groups if g is not groups[3]] if dim is None else list(groups), dict_groupElem={g.tag: g for g in groups}, groupElem=groups[4], dim=2)
    obj = XObj(simu, dict(Get_dof_n=lambda pt=None: 2, _Simu__Get_Ndof=lambda pt=None: 10, Construct_local_matrix_system=lambda pt: dict(table), _verbosity=False, _Simu__Assemble_csr=asm, mesh=mesh_stub, _Simu__mesh=mesh_stub))
    I = Interp(repo, extra_builtins={"Tic": lambda *a, **k: SimpleNamespace(Tac=lambda *a, **k: 0.0)})
    I.call_hook = hook
    out = I.call_function(fa, [Opaque("pt")], self_obj=obj)
    names = "KCMF"
    if not (isinstance(out, tuple) and len(out) == 4 and len(calls) == 4):
        r.instance(fn=fa.qualname)
        r.fail(fa.qualname, "shape", fa.file, fa.lineno, "_Simu.Assembly", f"Assembly makes {len(calls)} reductions and returns {type(out).__name__}; expected 4 and a 4-tuple")
        return
    for k in range(4):
        r.instance(fn=fa.qualname)
        idx = out[k].v[1] if isinstance(out[k], Lbl) and len(out[k].v) == 2 and out[k].v[0] == "assembled" else None
        bad = None
        if idx is None or not (0 <= idx < 4):
            bad = f"position {k} of the result is not one of the assembled arrays"
        else:
            d, is_mat = calls[idx]
            for g, pat in zip(groups, pats):
                v = d.get(g)
                if k in pat and v != Lbl("X", g.tag, k):
                    bad = f"group providing {'only ' if len(pat) == 1 else ''}{''.join(names[q] for q in pat)} does not reach the {names[k]} reduction with its {names[k]}_e (got {v!r}): its contribution is lost"
                if k not in pat and v is not None:
                    bad = f"the {names[k]} reduction receives {v!r} from a group that provides no {names[k]}_e"
            if bool(is_mat) != (k < 3):
                bad = f"the {names[k]} reduction is flagged isMatrix={is_mat}"
        if bad:
            r.fail(fa.qualname, f"slot:{names[k]}", fa.file, fa.lineno, "_Simu.Assembly", bad)
        else:
            r.ok(f"{names[k]} <- slot {k} of every group that provides it")


def dofs_nodes_rule(ctx, r1=None):
    """dof(node, unknown) = node * dim + index(unknown), node-major, in the order of the `unknowns` argument (any
    permutation is a documented input): decided on symbolic node numbers; when the function orders data by value the
    decision falls back to concrete, unsorted node numbers."""
    from ..xeval import Uninterpretable

    repo = ctx.repo
    if r1 is None:
        r1 = ctx.rule("R3.1", "index layout: dof(node, unknown) = node*dim + index(unknown) in the caller's unknown order", min_instances=1)
    fb = repo.method(BC, "Get_dofs_nodes")
    import itertools

    # every ordered selection of the available unknowns, in 2-D and 3-D (the finite domain of the `unknowns` argument)
    for avail in (["x", "y"], ["x", "y", "z"], ["x", "y", "rz"]):
        dim = len(avail)
        for k in range(1, dim + 1):
            for unknowns in itertools.permutations(avail, k):
                I = Interp(repo)
                r1.instance(fn=fb.qualname)
                how = "symbolic node numbers"
                nodes = XArray((2,), [Poly.var("n0"), Poly.var("n1")])
                try:
                    res = XArray.from_nested(I.call_function(fb, [list(avail), nodes, list(unknowns)]))
                except Uninterpretable:
                    how = "concrete node numbers (7, 2): the function orders its data by value"
                    nodes = XArray((2,), [Q(7), Q(2)])
                    res = XArray.from_nested(I.call_function(fb, [list(avail), nodes, list(unknowns)]))
                res = res.ravel() if res.ndim > 1 else res
                want = [nodes[m] * dim + avail.index(u) for m in range(2) for u in unknowns]
                if res.size == len(want) and all(is_zero(res.data[q] - want[q]) for q in range(len(want))):
                    r1.ok(f"BoundaryCondition.Get_dofs_nodes({avail}, unknowns={list(unknowns)}): node*dim + index(unknown), node-major, caller's order ({how})")
                else:
                    r1.fail(fb.qualname, f"layout:{','.join(avail)}:{','.join(unknowns)}", fb.file, fb.lineno, "Get_dofs_nodes", f"dofs for nodes ({nodes[0]!r}, {nodes[1]!r}), unknowns {list(unknowns)} among {avail} are {res.tolist() if isinstance(res, XArray) else res!r}, expected {want!r}: values given per unknown are paired with the wrong dof whenever the unknowns are not listed in canonical order")


# ---------------------------------------------------------------------------
# R3.9  the cached-pattern assembly, interpreted: the CSR it builds is the scatter-add of the element entries
# ---------------------------------------------------------------------------


def exact_(x):
    from ..xeval import exact

    x = exact(x)
    if isinstance(x, Poly) and x.is_const():
        x = x.const_value()
    return x


class XCsr:
    """scipy.sparse.csr_matrix as far as the assembly uses it (trusted scipy semantics: the COO constructor sums
    duplicates and the canonical pattern is sorted by row, then column)."""

    _xeval_open = True

    def __init__(self, arg, shape=None, dtype=None, copy=False):
        from ..xeval import _kind_of, IMAG as _IMAG
        from ..xarray import XTruncation

        self._kind = _kind_of(dtype) if dtype is not None else None
        if isinstance(arg, tuple) and len(arg) == 2 and all(isinstance(x, (int, Fraction)) for x in arg) and shape is None:
            shape, arg = arg, None
        dense = None
        if shape is None and isinstance(arg, XArray) and arg.ndim == 2:  # csr_matrix(dense 2-D array)
            dense, shape, arg = arg, arg.shape, None
        if shape is None:
            raise AnalysisError("csr_matrix constructor form not modelled (no shape)")
        self.shape = tuple(int(x) for x in shape)
        self.has_canonical_format = False
        entries = {}
        if dense is not None:
            for i in range(self.shape[0]):
                for j in range(self.shape[1]):
                    v = dense[i, j]
                    if not (isinstance(v, (int, Fraction)) and v == 0):
                        entries[(i, j)] = v
        elif arg is None:
            pass
        elif len(arg) == 2:  # (values, (rows, cols))
            vals, (rows, cols) = arg
            vals, rows, cols = (list(XArray.from_nested(v).data) for v in (vals, rows, cols))
            for v, i, j in zip(vals, rows, cols):
                key = (int(i), int(j))
                entries[key] = entries.get(key, 0) + v
        elif len(arg) == 3:  # (data, indices, indptr)
            data, indices, indptr = (list(XArray.from_nested(v).data) for v in arg)
            for i in range(self.shape[0]):
                for k in range(int(indptr[i]), int(indptr[i + 1])):
                    key = (i, int(indices[k]))
                    entries[key] = entries.get(key, 0) + data[k]
        else:
            raise AnalysisError("csr_matrix constructor form not modelled")
        for (i, j) in entries:
            if not (0 <= i < self.shape[0] and 0 <= j < self.shape[1]):
                raise XRaise("ValueError", f"index ({i}, {j}) out of the matrix shape {self.shape}")
        if self._kind in ("f", "i"):
            # a real dtype imposed on the constructor: numpy casts the values, discarding an imaginary part (ComplexWarning only)
            for v in entries.values():
                if type(v).__name__ == "Poly" and "__I__" in v.vars():
                    raise XTruncation(f"a complex value is stored into a sparse matrix of {'float' if self._kind == 'f' else 'integer'} type: its imaginary part is discarded (ComplexWarning only)")
        self.entries = entries
        self._rebuild()

    def _rebuild(self):
        keys = sorted(self.entries)
        self.indices = XArray((len(keys),), [j for _, j in keys])
        ptr, k = [0], 0
        for i in range(self.shape[0]):
            k += sum(1 for (a, _) in keys if a == i)
            ptr.append(k)
        self.indptr = XArray((len(ptr),), ptr)
        self.data = XArray((len(keys),), [self.entries[x] for x in keys])
        self.nnz = len(keys)

    def sort_indices(self):
        return None

    # the list-of-lists view used to overwrite single rows / entries
    def tolil(self):
        return self

    def tocsr(self):
        return self

    def __setitem__(self, key, value):
        i, j = key
        i = int(exact_(i))
        v = exact_(value)
        if isinstance(j, slice):
            cols = range(*j.indices(self.shape[1]))
        else:
            cols = [int(exact_(x)) for x in (j.data if isinstance(j, XArray) else [j])]
        for c in cols:
            if isinstance(v, (int, Fraction)) and v == 0:
                self.entries.pop((i, c), None)
            else:
                self.entries[(i, c)] = v
        self._rebuild()

    def __getitem__(self, key):
        """A[rows]: the matrix of the selected rows (one row per entry of the index list, in its order)"""
        if isinstance(key, tuple):
            raise AnalysisError("csr_matrix[row, col] read is not modelled")
        rows = [int(exact_(x)) for x in (XArray.from_nested(key).data if not isinstance(key, (int, Fraction)) else [key])]
        out = XCsr((len(rows), self.shape[1]))
        for k, i in enumerate(rows):
            if not -self.shape[0] <= i < self.shape[0]:
                raise XRaise("IndexError", f"row index {i} out of range")
            i %= self.shape[0]
            for (a, c), v in self.entries.items():
                if a == i:
                    out.entries[(k, c)] = v
        out._rebuild()
        return out

    def nonzero(self):
        keys = sorted(k for k, v in self.entries.items() if not (isinstance(v, (int, Fraction)) and v == 0))
        return XArray((len(keys),), [i for i, _ in keys], "i"), XArray((len(keys),), [j for _, j in keys], "i")

    def row_sum(self, i):
        return sum((v for (a, _), v in self.entries.items() if a == i), 0)

    def dense(self):
        return {k: v for k, v in self.entries.items()}


def csr_assembly_rule(ctx):
    """`__Assemble_csr` + `__Get_csr_map` are interpreted on two element groups with concrete connectivities and symbolic
    element entries (matrix slot and vector slot, a group whose slot is None, first and second assembly through the
    memoised map): the matrix they return must be, entry by entry, the sum of the element entries whose (row, column)
    it is."""
    from types import SimpleNamespace

    from ..xeval import Opaque, _Bound
    from ..repo import FuncInfo

    repo = ctx.repo
    r = ctx.rule("R3.9", "cached-pattern assembly interpreted: the returned CSR equals the scatter-add of the element entries (two and three groups of different sizes, a slot absent for one group, matrix and vector slots, real / complex mixes, repeated assembly through the memoised map, magnitudes written in the source scaled down, element matrices handed over as transposed views)", min_instances=32)
    simu = repo.cls(SIMU)
    fA = repo.lookup_method(simu, simu.mangle("__Assemble_csr"))
    fM = repo.lookup_method(simu, simu.mangle("__Get_csr_map"))
    ge = repo.cls(GE)
    frows, fcols, fasm = (repo.method(GE, n) for n in ("Get_rows_e", "Get_columns_e", "Get_assembly_e"))
    dof_n = 2
    conns = {"A": [[0, 1, 2], [1, 3, 2]], "B": [[2, 3, 4, 5]], "C": [[4, 5], [0, 4], [5, 1]]}
    Nn = 6
    Ndof = Nn * dof_n

    def group(tag):
        conn = conns[tag]
        nPe = len(conn[0])
        c = XArray((len(conn), nPe), [n for row in conn for n in row])
        return XObj(ge, {"nPe": nPe, "Ne": len(conn), "connect": c, ge.mangle("__connect"): c, "tag": tag, "elemType": {"A": "TRI3", "B": "QUAD4", "C": "SEG2"}[tag]})

    G = {t: group(t) for t in conns}
    memo = {}

    def hook(fn, args, kwargs):
        if isinstance(fn, Opaque) and fn.tag.endswith("sparse.csr_matrix"):
            return XCsr(*args, **kwargs)
        fi = fn.finfo if isinstance(fn, _Bound) else None
        if fi is not None and fi is fM:
            # the memo of @cache_computed_values: keyed by the arguments (groups by identity)
            key = (args[0], args[1], args[2], tuple(id(g) for g in args[3]))
            if key not in memo:
                memo[key] = I.call_function(fM, list(args), kwargs, self_obj=fn.selfobj)
            return memo[key]
        return NotImplemented

    I = Interp(repo, max_steps=5_000_000)
    I.call_hook = hook
    obj = XObj(simu, {})

    def entries(tag, isMatrix, rep, cx=False):
        g = G[tag]
        n = g.attrs["nPe"] * dof_n
        if cx:
            # complex element entries: x + I y with the formal imaginary unit
            from ..xeval import IMAG

            sh = (g.attrs["Ne"], n, n) if isMatrix else (g.attrs["Ne"], n)
            cnt = 1
            for d in sh:
                cnt *= d
            return XArray(sh, [Poly.var(f"re{tag}{rep}_{k}") + IMAG * Poly.var(f"im{tag}{rep}_{k}") for k in range(cnt)])
        if isMatrix:
            return XArray((g.attrs["Ne"], n, n), [Poly.var(f"{tag}{rep}_{e}_{i}_{j}") for e in range(g.attrs["Ne"]) for i in range(n) for j in range(n)])
        return XArray((g.attrs["Ne"], n), [Poly.var(f"f{tag}{rep}_{e}_{i}") for e in range(g.attrs["Ne"]) for i in range(n)])

    def dofs(tag, e, i):
        return conns[tag][e][i // dof_n] * dof_n + i % dof_n

    cases = [("matrix, both groups", True, ("A", "B"), False), ("matrix, second group absent (None)", True, ("A",), False), ("matrix, first group absent (None)", True, ("B",), False), ("vector, both groups", False, ("A", "B"), False),
             ("complex matrix, both groups", True, ("A", "B"), True), ("complex vector, both groups", False, ("A", "B"), True),
             # one slot fed by a real group and a complex group (a real bulk operator plus a complex boundary operator)
             ("real group A + complex group B, matrix", True, ("A", "B"), ("B",)), ("complex group A + real group B, matrix", True, ("A", "B"), ("A",)), ("real group A + complex group B, vector", False, ("A", "B"), ("B",)),
             # three groups of three different sizes feed one slot (bulk + two boundary groups)
             ("matrix, three groups", True, ("A", "B", "C"), False), ("vector, three groups", False, ("A", "B", "C"), False), ("matrix, three groups, the middle one absent", True, ("A", "C"), False),
             ("matrix, three groups, the last complex", True, ("A", "B", "C"), ("C",)),
             # the same with every magnitude written in the source (block, buffer, batch sizes) scaled down to 3: what is
             # assembled does not depend on such a constant
             ("matrix, three groups, source magnitudes scaled to 3", True, ("A", "B", "C"), False, True), ("vector, three groups, source magnitudes scaled to 3", False, ("A", "B", "C"), False, True),
             # the element matrices handed over as a VIEW with the last two axes swapped in memory (what an einsum "...ij,...jk->...ik" /
             # a user's K_e.transpose(0, 2, 1) returns): the values - non-symmetric here - are the same, only the layout differs
             ("matrix, both groups, element matrices as transposed views of a contiguous buffer", True, ("A", "B"), False, False, "swapped-layout")]
    for label, isMatrix, present, cx, *scaled in cases:
        for rep in (0, 1):  # the second pass reuses the memoised map
            r.instance(fn=fA.qualname)
            data = {}
            three = "three" in label
            for tag, g in G.items():
                if tag == "C" and not three:
                    continue
                data[g] = entries(tag, isMatrix, rep, (cx is True) or (isinstance(cx, tuple) and tag in cx)) if tag in present else None
                if data[g] is not None and "swapped-layout" in scaled:
                    X0 = data[g]
                    data[g] = X0.transpose(0, 2, 1).copy().transpose(0, 2, 1)  # same values, memory order (e, j, i)
                    assert data[g].data == X0.data and data[g].order == (0, 2, 1)
            scaled = [x for x in scaled if x is True]
            I.size_literal = (lambda v: 3 if abs(v) >= 256 else v) if scaled else None
            if scaled and rep == 0:
                memo.clear()
            try:
                M = I.call_function(fA, [data, dof_n, Ndof, isMatrix], self_obj=obj)
            except XRaise as e:
                r.fail(fA.qualname, f"csr:{label}", fA.file, fA.lineno, "_Simu.__Assemble_csr", f"{label} (pass {rep + 1}): raises {e}")
                continue
            if not isinstance(M, XCsr):
                r.fail(fA.qualname, f"csr:{label}", fA.file, fA.lineno, "_Simu.__Assemble_csr", f"{label}: no CSR matrix is returned")
                continue
            want = {}
            for tag in present:
                g = G[tag]
                X = data[g]
                n = g.attrs["nPe"] * dof_n
                for e in range(g.attrs["Ne"]):
                    for i in range(n):
                        if isMatrix:
                            for j in range(n):
                                k = (dofs(tag, e, i), dofs(tag, e, j))
                                want[k] = want.get(k, Poly()) + X[e, i, j]
                        else:
                            k = (dofs(tag, e, i), 0)
                            want[k] = want.get(k, Poly()) + X[e, i]
            got = M.dense()
            bad = None
            for k in set(want) | set(got):
                if not is_zero(Poly.of(got.get(k, 0)) - want.get(k, Poly())):
                    bad = f"entry {k}: {got.get(k, 0)!r}, expected {want.get(k, Poly())!r}"
                    break
            if M.shape != ((Ndof, Ndof) if isMatrix else (Ndof, 1)):
                bad = f"shape {M.shape}"
            if bad:
                r.fail(fA.qualname, f"csr:{label}", fA.file, fA.lineno, "_Simu.__Assemble_csr", f"{label} (pass {rep + 1}{', memoised map' if rep else ''}): {bad}: the global {'matrix' if isMatrix else 'vector'} is not the scatter-add of the element contributions")
            else:
                r.ok(f"{label}, pass {rep + 1}: CSR == scatter-add")


# (booleans are not in the list: numpy adds booleans as a logical OR, a count of them never wraps to False)
NARROW_INT = {"int8", "uint8", "int16", "uint16", "byte", "ubyte", "short", "ushort"}


def pattern_structure_rule(ctx):
    """R3.11: the sparsity pattern is a matter of positions, never of values.  (a) The values handed to a duplicate-summing
    sparse constructor are counted by it -- one per element entry landing on the slot: they are not of a narrow integer
    type (a node shared by 256 elements wraps an int8 count to 0; the slot then looks empty).  (b) The slot list of the
    pattern is read from the structure arrays (indptr / indices), not from value-dependent queries (`.nonzero()`,
    `eliminate_zeros()`, `count_nonzero`), which drop a stored slot whose value happens to be 0 and shift every later
    element entry by one slot."""
    repo = ctx.repo
    r = ctx.rule("R3.11", "sparsity pattern: structure-only matrices are not built from narrow integer values (duplicate counts wrap) and the slot list is read from indptr / indices, not from value-dependent queries", min_instances=1)
    simu = repo.cls(SIMU)
    from ..flow import Locals

    for mname in ("__Get_csr_map", "__Assemble_csr"):
        f = repo.lookup_method(simu, simu.mangle(mname))
        if f is None:
            continue
        r.instance(fn=f.qualname)
        L = Locals(f.node)
        bad = None
        sparse_vars = set()
        for n in ast.walk(f.node):
            if isinstance(n, ast.Assign) and isinstance(n.value, ast.Call) and (dotted(n.value.func) or "").split(".")[-1] in ("csr_matrix", "coo_matrix", "csc_matrix", "lil_matrix"):
                for t in n.targets:
                    if isinstance(t, ast.Name):
                        sparse_vars.add(t.id)
                # (values, (rows, cols)) form: the values array
                a0 = n.value.args[0] if n.value.args else None
                a0 = L.resolve(a0) if a0 is not None else None
                if isinstance(a0, ast.Tuple) and len(a0.elts) == 2 and isinstance(L.resolve(a0.elts[1]), ast.Tuple):
                    vals = L.resolve(a0.elts[0])
                    for c in ast.walk(vals):
                        if isinstance(c, ast.Call):
                            for k in c.keywords:
                                if k.arg == "dtype" and (dotted(k.value) or "").split(".")[-1] in NARROW_INT:
                                    bad = (c, f"`{norm_text(c)[:60]}`: the values summed per slot by the sparse constructor have the narrow type {(dotted(k.value) or '').split('.')[-1]}: the count of element entries landing on one slot wraps (256 elements around a node give 0) and the slot disappears from value-based queries")
                            if (dotted(c.func) or "").split(".")[-1] == "astype" and c.args and (dotted(c.args[0]) or "").split(".")[-1] in NARROW_INT:
                                bad = (c, f"`{norm_text(c)[:60]}`: values of a narrow integer type are summed per slot by the sparse constructor")
        for n in ast.walk(f.node):
            if isinstance(n, ast.Call) and isinstance(n.func, ast.Attribute) and n.func.attr in ("nonzero", "eliminate_zeros", "count_nonzero") and isinstance(n.func.value, ast.Name) and n.func.value.id in sparse_vars:
                bad = bad or (n, f"`{norm_text(n)[:60]}` reads the slots of the pattern through the VALUES of the structure matrix: a stored slot whose value is 0 is dropped and every later element entry is mapped one slot too early")
        if bad:
            n, msg = bad
            r.fail(f.qualname, f"pattern:{norm_text(n)[:30]}", f.file, n.lineno, f"_Simu.{mname}", msg)
        else:
            r.ok(f"{mname}: pattern built from positions only")
