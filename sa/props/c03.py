"""C03 -- assembly is the exact scatter-add: index provenance and slot order."""

from __future__ import annotations

import ast

from ..alg import Poly, Q, is_zero
from ..repo import AnalysisError, dotted, norm_text, walk_no_nested
from ..xeval import Interp, XObj, Opaque
from ..xarray import XArray
from ..elems import ElemLib

GE = "EasyFEA.FEM._group_elem._GroupElem"
SIMU = "EasyFEA.Simulations._simu._Simu"
BC = "EasyFEA.FEM._boundary_conditions.BoundaryCondition"


def layout_rules(ctx):
    repo = ctx.repo
    r1 = ctx.rule("R3.1", "dof numbering is node*dof_n + component at every site that builds dof indices", min_instances=5)
    r2 = ctx.rule("R3.2", "row/column provenance: flat entry (e,i,j) of X_e.ravel() receives rows a[e,i], cols a[e,j]; vectors receive a[e,i]", min_instances=3)
    I = Interp(repo)
    f = repo.method(GE, "_Get_assembly_e")
    Ne, nPe = 2, 3
    conn = XArray((Ne, nPe), [Poly.var(f"c{e}_{i}") for e in range(Ne) for i in range(nPe)])
    for dof_n in (1, 2, 3):
        r1.instance(fn=f.qualname)
        a = XArray.from_nested(I.call_function(f, [conn, dof_n]))
        bad = None
        if a.shape != (Ne, nPe * dof_n):
            bad = f"shape {a.shape}"
        else:
            for e in range(Ne):
                for i in range(nPe):
                    for d in range(dof_n):
                        if not is_zero(a[e, i * dof_n + d] - (conn[e, i] * dof_n + d)):
                            bad = f"entry [e={e}, {i}*{dof_n}+{d}] = {a[e, i*dof_n+d]!r}, expected node*{dof_n}+{d}"
        if bad:
            r1.fail(f.qualname, f"dof_n={dof_n}", f.file, f.lineno, "_Get_assembly_e", f"assembly table is not node*dof_n+component in interleaved order: {bad}")
        else:
            r1.ok(f"_Get_assembly_e dof_n={dof_n}: a[e, i*dof_n+d] == connect[e,i]*dof_n + d")
    # rows / columns
    ge = repo.cls(GE)
    for dof_n in (1, 2):
        # the stored connectivity under its public and its private name (a fast path may read either)
        obj = XObj(ge, {"nPe": nPe, "Ne": Ne, "connect": conn, ge.mangle("__connect"): conn})
        n = nPe * dof_n
        a = XArray.from_nested(I.call_function(f, [conn, dof_n]))
        for meth, pick in (("Get_rows_e", 0), ("Get_columns_e", 1)):
            fm = repo.method(GE, meth)
            r2.instance(fn=fm.qualname)
            res = XArray.from_nested(I.call_function(fm, [dof_n], self_obj=obj))
            bad = None
            if res.shape != (Ne, n * n):
                bad = f"shape {res.shape}"
            else:
                for e in range(Ne):
                    for i in range(n):
                        for j in range(n):
                            want = a[e, i] if pick == 0 else a[e, j]
                            if not is_zero(res[e, i * n + j] - want):
                                bad = f"flat entry (e={e}, i={i}, j={j}) receives {res[e, i*n+j]!r}, expected the dof of local index {'i' if pick == 0 else 'j'} = {want!r}"
            if bad:
                r2.fail(fm.qualname, f"dof_n={dof_n}", fm.file, fm.lineno, meth, f"{meth} does not follow the row-major flattening of (Ne, n, n) element matrices: {bad}")
            else:
                r2.ok(f"{meth} dof_n={dof_n}: entry (e,i,j) -> a[e,{'i' if pick == 0 else 'j'}]")
    dofs_nodes_rule(ctx, r1)
    # Get_N_pg_rep: out[p, r, n*rep + r] = N[p, n]
    fn = repo.method(GE, "Get_N_pg_rep")
    for rep in (2, 3):
        r1.instance(fn=fn.qualname)
        nP = 2
        Npg = XArray((1, 1, nP), [Poly.var(f"N{n}") for n in range(nP)])
        obj = XObj(ge, dict(dim=2))
        obj.attrs["Get_N_pg"] = lambda mt=None: Npg
        out = XArray.from_nested(I.call_function(fn, [Opaque("mt"), rep], self_obj=obj))
        bad = None
        if out.shape != (1, rep, nP * rep):
            bad = f"shape {out.shape}"
        else:
            for rr in range(rep):
                for c in range(nP * rep):
                    nn, d = divmod(c, rep)
                    want = Npg[0, 0, nn] if d == rr else Q(0)
                    if not is_zero(out[0, rr, c] - want):
                        bad = f"entry [row {rr}, col {c}]"
        if bad:
            r1.fail(fn.qualname, f"rep={rep}", fn.file, fn.lineno, "Get_N_pg_rep", f"block layout is not N_n at column n*{rep}+row: {bad}")
        else:
            r1.ok(f"Get_N_pg_rep repeat={rep}: N_n sits at [r, n*rep + r]")


def csr_rules(ctx):
    repo = ctx.repo
    from ..flow import Locals

    r = ctx.rule("R3.3", "cached CSR map: data and map built from the same filtered group tuple; map body reads only its key; inv from the map's own pattern", min_instances=6)
    simu = repo.cls(SIMU)
    fa = simu.methods["__Assemble_csr"]
    fm = simu.methods["__Get_csr_map"]
    L = Locals(fa.node)
    r.instance(fn=fa.qualname)
    map_calls = [n for n in ast.walk(fa.node) if isinstance(n, ast.Call) and (dotted(n.func) or "").endswith("__Get_csr_map")]
    if len(map_calls) != 1:
        raise AnalysisError("R3.3: __Assemble_csr no longer calls __Get_csr_map exactly once")
    map_call = map_calls[0]
    dict_param = fa.params()[1]
    G = L.resolve(map_call.args[3]) if len(map_call.args) > 3 else None
    Gtxt = L.text(map_call.args[3]) if G is not None else ""
    comp = [c for c in ast.walk(G)] if G is not None else []
    gens = [c for c in comp if isinstance(c, (ast.GeneratorExp, ast.ListComp))]
    has_filter = bool(gens) and any(isinstance(i_, ast.Compare) and isinstance(i_.ops[0], ast.IsNot) and isinstance(i_.comparators[0], ast.Constant) and i_.comparators[0].value is None for c in gens for g in c.generators for i_ in g.ifs) and any(norm_text(g.iter) == f"{dict_param}.items()" for c in gens for g in c.generators)
    if has_filter:
        r.ok(f"contributing groups = {Gtxt}")
    else:
        r.fail(fa.qualname, "filter", fa.file, map_call.lineno, "__Assemble_csr", f"the group tuple handed to the cached map is not `{dict_param}.items()` filtered on `is not None`: {Gtxt}")
    # bincount: weights come from a concatenation over the same tuple
    r.instance(fn=fa.qualname)
    bcs = [n for n in ast.walk(fa.node) if isinstance(n, ast.Call) and (dotted(n.func) or "") == "np.bincount"]
    ok = bool(bcs)
    detail = ""
    map_txt = L.text(map_call)
    for b in bcs:
        w = next((k.value for k in b.keywords if k.arg == "weights"), None)
        ml = next((k.value for k in b.keywords if k.arg == "minlength"), None)
        wd = L.resolve(w.value if isinstance(w, ast.Attribute) and w.attr in ("real", "imag") else w) if w is not None else None
        wtxt = L.text(wd) if wd is not None else ""
        inv_txt = L.text(b.args[0]) if b.args else ""
        ml_txt = L.text(ml) if ml is not None else ""
        comps = [c for c in ast.walk(wd) if isinstance(c, (ast.ListComp, ast.GeneratorExp))] if wd is not None else []
        same_groups = bool(comps) and all(L.text(g.iter) == Gtxt and not g.ifs for c in comps for g in c.generators)
        if not ("np.concatenate" in wtxt and same_groups and inv_txt == f"{map_txt}[0]" and ml_txt == f"{map_txt}[3]"):
            ok = False
            detail = f"bincount({inv_txt}, weights={wtxt}, minlength={ml_txt})"
    if ok:
        r.ok("csr_data = bincount(map[0], weights=concatenate(values of the same tuple, unfiltered), minlength=map[3])")
    else:
        r.fail(fa.qualname, "data-order", fa.file, fa.lineno, "__Assemble_csr", f"the values are not summed with bincount(inv, weights=<concatenation over the same group tuple as the cached map>, minlength=nnz): {detail}")
    r.instance(fn=fa.qualname)
    args = [L.text(a) for a in map_call.args[:3]]
    want = fm.params()[1:4]
    if args == want:
        r.ok(f"map key = ({', '.join(want)}, groups)")
    else:
        r.fail(fa.qualname, "key", fa.file, map_call.lineno, "__Assemble_csr", f"__Get_csr_map is called with {args}, its parameters are {want}")
    r.instance(fn=fa.qualname)
    csr = [n for n in ast.walk(fa.node) if isinstance(n, ast.Call) and (dotted(n.func) or "").endswith("csr_matrix") and n.args and isinstance(L.resolve(n.args[0]), ast.Tuple) and len(L.resolve(n.args[0]).elts) == 3]
    okc = False
    for c in csr:
        d, ind, ptr = L.resolve(c.args[0]).elts
        dtexts = [L.text(d)] if not (isinstance(d, ast.Name) and len(L.all_defs(d.id)) > 1) else [L.text(v) for v in L.all_defs(d.id)]
        if all("np.bincount" in t for t in dtexts) and L.text(ind) == f"{map_txt}[1]" and L.text(ptr) == f"{map_txt}[2]":
            okc = True
    if okc:
        r.ok("csr_matrix((bincount(...), map[1], map[2]))")
    else:
        r.fail(fa.qualname, "bincount", fa.file, fa.lineno, "__Assemble_csr", "the matrix is not built as csr_matrix((summed data, indices, indptr)) with indices / indptr taken from positions 1 / 2 of the cached map")
    # map function: reads only parameters
    r.instance(fn=fm.qualname)
    selfreads = [norm_text(n) for n in ast.walk(fm.node) if isinstance(n, ast.Attribute) and isinstance(n.value, ast.Name) and n.value.id == "self"]
    if not fm.is_cached():
        r.note("__Get_csr_map is not decorated with cache_computed_values any more (nothing to invalidate)")
    if selfreads:
        r.fail(fm.qualname, "key-coverage", fm.file, fm.lineno, "__Get_csr_map", f"the cached map reads {sorted(set(selfreads))}, which is not part of its cache key (name, args)")
    else:
        r.ok("__Get_csr_map reads nothing but its parameters")
    r.instance(fn=fm.qualname)
    Lm = Locals(fm.node)
    gparam = fm.params()[4]
    rets = [n for n in ast.walk(fm.node) if isinstance(n, ast.Return) and isinstance(n.value, ast.Tuple) and len(n.value.elts) == 4]
    ok = False
    detail = ""
    if rets:
        inv, ind, ptr, nnz = rets[-1].value.elts
        inv_t, ind_t, ptr_t, nnz_t = (Lm.text(x) for x in (inv, ind, ptr, nnz))
        ss = [c for c in ast.walk(Lm.expand(inv)) if isinstance(c, ast.Call) and (dotted(c.func) or "") == "np.searchsorted"]
        sorted_called = any(isinstance(c, ast.Call) and isinstance(c.func, ast.Attribute) and c.func.attr == "sort_indices" for c in ast.walk(fm.node))
        hay = norm_text(ss[0].args[0]) if ss else ""
        ok = bool(ss) and ".indices" in hay and ".indptr" in hay and sorted_called and ind_t.endswith(".indices") and ptr_t.endswith(".indptr") and nnz_t.endswith(".nnz") and ind_t[: -len(".indices")] == ptr_t[: -len(".indptr")] == nnz_t[: -len(".nnz")]
        detail = f"return ({inv_t[:60]}..., {ind_t[-30:]}, {ptr_t[-30:]}, {nnz_t[-30:]})"
    loop_ok = False
    for n in ast.walk(fm.node):
        if isinstance(n, ast.For) and isinstance(n.iter, ast.Name) and n.iter.id == gparam:
            apps = [c for c in ast.walk(n) if isinstance(c, ast.Call) and isinstance(c.func, ast.Attribute) and c.func.attr == "append"]
            tgt = {}
            for c in apps:
                tgt.setdefault(norm_text(c.func.value), []).append(Lm.text(c.args[0]))
            if len(tgt) == 2 and all(len(v) == 2 for v in tgt.values()):
                alltxt = " ".join(x for v in tgt.values() for x in v)
                loop_ok = "Get_rows_e(" in alltxt and "Get_columns_e(" in alltxt and "Get_assembly_e(" in alltxt
    if ok and loop_ok:
        r.ok("map returns (searchsorted(pattern of its own sorted csr, rows*ncol+cols), indices, indptr, nnz); rows/cols appended per group in key order")
    else:
        r.fail(fm.qualname, "map-shape", fm.file, fm.lineno, "__Get_csr_map", f"the map no longer has the shape (loop over the group tuple appending rows and cols in both branches; slot = searchsorted(canonical index of its own sorted pattern, ...); return (slots, indices, indptr, nnz)): {detail}")
    # ---- R3.5 the looked-up linear index is row*ncol + col on both sides, rows before cols in the pattern
    r5 = ctx.rule("R3.5", "linear CSR index: both the canonical index of the pattern and the looked-up index are <row>*ncol + <col>; the pattern is built from (rows, cols) in that order", min_instances=3)

    def kind(expr):
        """ROW / COL provenance of an index expression of __Get_csr_map"""
        t = Lm.text(expr)
        e = Lm.resolve(expr)
        # strip .astype(...)
        while isinstance(e, ast.Call) and isinstance(e.func, ast.Attribute) and e.func.attr == "astype":
            e = Lm.resolve(e.func.value)
        if isinstance(e, ast.Attribute) and e.attr == "indices":
            return "COL"
        if isinstance(e, ast.Call) and (dotted(e.func) or "") == "np.repeat" and "np.arange(" in norm_text(e.args[0]) and ".indptr" in norm_text(e):
            return "ROW"
        if isinstance(e, ast.Call) and (dotted(e.func) or "") == "np.concatenate" and e.args and isinstance(e.args[0], ast.Name):
            lst = e.args[0].id
            vals = [Lm.text(c.args[0]) for c in ast.walk(fm.node) if isinstance(c, ast.Call) and isinstance(c.func, ast.Attribute) and c.func.attr == "append" and isinstance(c.func.value, ast.Name) and c.func.value.id == lst]
            if vals and all(("Get_rows_e(" in v or "Get_assembly_e(" in v) for v in vals):
                return "ROW"
            if vals and all(("Get_columns_e(" in v or "np.zeros_like(" in v) for v in vals):
                return "COL"
        return "?"

    def linear_form(expr):
        e = Lm.resolve(expr)
        while isinstance(e, ast.Call) and isinstance(e.func, ast.Attribute) and e.func.attr == "astype":
            e = Lm.resolve(e.func.value)
        if isinstance(e, ast.BinOp) and isinstance(e.op, ast.Add) and isinstance(e.left, ast.BinOp) and isinstance(e.left.op, ast.Mult):
            return kind(e.left.left), Lm.text(e.left.right), kind(e.right)
        return None

    ssl = [c for c in ast.walk(fm.node) if isinstance(c, ast.Call) and (dotted(c.func) or "") == "np.searchsorted"]
    for label, expr in (("pattern index", ssl[0].args[0] if ssl else None), ("looked-up index", ssl[0].args[1] if ssl and len(ssl[0].args) > 1 else None)):
        r5.instance(fn=fm.qualname)
        lf = linear_form(expr) if expr is not None else None
        if lf is not None and lf[0] == "ROW" and lf[2] == "COL":
            r5.ok(f"{label} = <row> * {lf[1]} + <col>")
        else:
            r5.fail(fm.qualname, f"linear-index:{label}", fm.file, fm.lineno, "__Get_csr_map", f"the {label} is not <row>*ncol + <col> (found {lf}): entries would be looked up in the transposed slot (invisible for symmetric element matrices)")
    r5.instance(fn=fm.qualname)
    pat = [c for c in ast.walk(fm.node) if isinstance(c, ast.Call) and (dotted(c.func) or "").endswith("csr_matrix") and c.args and isinstance(c.args[0], ast.Tuple) and len(c.args[0].elts) == 2 and isinstance(c.args[0].elts[1], ast.Tuple)]
    if pat and [kind(x) for x in pat[0].args[0].elts[1].elts] == ["ROW", "COL"]:
        r5.ok("pattern = csr_matrix((ones, (rows, cols)))")
    else:
        r5.fail(fm.qualname, "pattern-order", fm.file, fm.lineno, "__Get_csr_map", "the structure-only matrix is not built from (row indices, column indices) in that order")

    # connectivity immutable outside __init__
    r.instance(fn=GE)
    ge = repo.cls(GE)
    writers = []
    for f in ge.methods.values():
        for n in ast.walk(f.node):
            if isinstance(n, (ast.Assign, ast.AugAssign)):
                tg = n.targets if isinstance(n, ast.Assign) else [n.target]
                for t in tg:
                    base = t
                    while isinstance(base, ast.Subscript):
                        base = base.value
                    if isinstance(base, ast.Attribute) and isinstance(base.value, ast.Name) and base.value.id == "self" and base.attr in ("__connect", "_GroupElem__connect"):
                        writers.append(f.name)
    if set(writers) <= {"__init__"} and writers:
        r.ok("_GroupElem.__connect is assigned only in __init__ (the cached map depends on connectivity only)")
    else:
        f0 = ge.methods["__init__"]
        r.fail(GE, "connect-writers", f0.file, f0.lineno, "_GroupElem", f"connectivity is written by {sorted(set(writers))}: the cached CSR map keyed by the group object would go stale")


def slot_rules(ctx):
    repo = ctx.repo
    r = ctx.rule("R3.4", "slot order (K, C, M, F): Assembly reads tuple positions 0..2 as matrices and 3 as a vector; every producer stores 4-tuples; every unpacking site uses the same order", min_instances=12)
    simu = repo.cls(SIMU)
    fa = simu.methods["Assembly"]
    r.instance(fn=fa.qualname)
    from ..flow import Locals

    La = Locals(fa.node)
    rets = [n for n in ast.walk(fa.node) if isinstance(n, ast.Return) and isinstance(n.value, ast.Tuple)]
    got = []
    if rets and len(rets[-1].value.elts) == 4:
        for e in rets[-1].value.elts:
            c = La.resolve(e)
            if isinstance(c, ast.Call) and (dotted(c.func) or "").endswith("__Assemble_csr"):
                idx = [s_.slice.value for s_ in ast.walk(c.args[0]) if isinstance(s_, ast.Subscript) and isinstance(s_.slice, ast.Constant)]
                ismat = c.args[3].value if len(c.args) > 3 and isinstance(c.args[3], ast.Constant) else None
                got.append((idx[0] if idx else None, ismat))
            else:
                got.append(None)
    want = [(0, True), (1, True), (2, True), (3, False)]
    if got == want:
        r.ok("Assembly returns (csr(slot 0), csr(slot 1), csr(slot 2), vector(slot 3))")
    else:
        r.fail(fa.qualname, "slots", fa.file, fa.lineno, "Assembly", f"the returned 4-tuple is built from slots/kinds {got}; expected {want} (K, C, M matrices and the F vector)")
    # producers
    nprod = 0
    for ci in repo.subclasses(simu, strict=False):
      for mname, f in sorted(ci.methods.items()):
        if "Construct" not in mname or f.cls is not ci or mname.startswith("_" + ci.name.lstrip("_") + "__"):
            continue
        for n in ast.walk(f.node):
            tup = None
            if isinstance(n, ast.Assign) and isinstance(n.targets[0], ast.Subscript) and isinstance(n.value, ast.Tuple):
                tup = n.value
            elif isinstance(n, ast.Return) and isinstance(n.value, ast.Dict):
                for v in n.value.values:
                    if isinstance(v, ast.Tuple):
                        tup = v
            if tup is None:
                continue
            nprod += 1
            r.instance(fn=f.qualname)
            if len(tup.elts) == 4:
                r.ok(f"{ci.name}.{f.name} stores a 4-tuple: {norm_text(tup)}")
            else:
                r.fail(f.qualname, f"tuple:{norm_text(tup)}", f.file, n.lineno, f"{ci.name}.{f.name}", f"stores a {len(tup.elts)}-tuple {norm_text(tup)}; Assembly reads positions 0..3")
    if nprod < 7:
        raise AnalysisError(f"R3.4: only {nprod} producer tuples found (expected >= 7)")
    # consumers: unpacking of Get_K_C_M_F() / Assembly()
    for f in repo.all_functions():
        for n in walk_no_nested(f.node):
            if isinstance(n, ast.Assign) and isinstance(n.targets[0], ast.Tuple) and isinstance(n.value, ast.Call):
                d = dotted(n.value.func) or ""
                if d.split(".")[-1] in ("Get_K_C_M_F", "Assembly"):
                    names = [norm_text(e) for e in n.targets[0].elts]
                    r.instance(fn=f.qualname)
                    ok = len(names) == 4 and all(nm == "_" or nm.split(".")[-1].lstrip("_").upper().startswith(L) for nm, L in zip(names, "KCMF"))
                    if ok:
                        r.ok(f"{f.qualname}: {', '.join(names)} = {d}()")
                    else:
                        r.fail(f.qualname, f"unpack:{','.join(names)}", f.file, n.lineno, f.name, f"unpacks {d}() as ({', '.join(names)}); the producer order is (K, C, M, F)")
    # Get_K_C_M_F implementations return in the same order
    for ci in repo.subclasses(simu, strict=False):
        f = ci.methods.get("Get_K_C_M_F")
        if f is None or f.cls is not ci:
            continue
        r.instance(fn=f.qualname)
        rets = [n for n in walk_no_nested(f.node) if isinstance(n, ast.Return) and isinstance(n.value, ast.Tuple)]
        bad = [norm_text(x.value) for x in rets if len(x.value.elts) != 4]
        if rets and not bad:
            r.ok(f"{ci.name}.Get_K_C_M_F returns 4-tuples: {norm_text(rets[-1].value)}")
        else:
            r.fail(f.qualname, "return", f.file, f.lineno, f"{ci.name}.Get_K_C_M_F", f"return values {bad or 'not found'}")


def run(ctx):
    from ..shared import group_loop_rule as _group_loop_rule

    ctx.attempt(_group_loop_rule, ctx, "R3.8", scope=lambda f, _s=("EasyFEA.Simulations",): f.module.name.startswith(_s), min_instances=5)
    from ..shared import copy_out_rule as _copy_out_rule

    ctx.attempt(_copy_out_rule, ctx, "R3.7", ["Get_K_C_M_F"], "EasyFEA.Simulations._simu._Simu")
    ctx.level = "other"
    ctx.explanation = (
        "Index arithmetic of the assembly (dof = node*dof_n+comp, rows/cols of flattened element matrices, block layout of N) is decided by interpreting "
        "the index-building functions on symbolic node numbers / labelled entries (shape-generic code, no branches). The cached CSR reduction map is checked "
        "structurally: data and map use the same filtered group tuple, the map reads only its cache key, inv is looked up in the map's own pattern, connectivity "
        "is immutable. Slot order (K,C,M,F) is a tuple-order agreement between Assembly, all producers and all unpacking sites. NOT decided: numerical equality "
        "with an independent summation (scipy/numpy semantics of csr_matrix, bincount, searchsorted are assumed)."
    )
    ctx.assume("numpy repeat/reshape/ravel semantics as modelled in sa/xarray.py; scipy's coo->csr constructor sums duplicates and sort_indices() is canonical")
    layout_rules(ctx)
    csr_rules(ctx)
    slot_rules(ctx)
    routing_rule(ctx)
    # the direct sparse assembly of user forms is the same scatter-add (R13.2)
    from . import c13

    c13.assemble_rule(ctx)


def routing_rule(ctx):
    """R3.6: Assembly routes slot k of every group that provides it to the k-th global array: interpreted with one group
    per slot pattern (only K, only C, only M, only F, all four) and a recording stub for the reduction."""
    from types import SimpleNamespace

    from ..repo import FuncInfo
    from ..xarray import Lbl

    repo = ctx.repo
    r = ctx.rule("R3.6", "slot routing: for k in (K, C, M, F) the k-th assembled array receives the k-th element array of every group that provides one (no group is filtered out because its other slots are empty), matrices for k < 3 and a vector for k = 3", min_instances=4)
    simu = repo.cls(SIMU)
    fa = simu.methods["Assembly"]
    class G:
        def __init__(self, tag):
            self.tag = tag

    groups = [G(f"g{i}") for i in range(5)]
    pats = [(0,), (1,), (2,), (3,), (0, 1, 2, 3)]
    table = {g: tuple(Lbl("X", g.tag, k) if k in pat else None for k in range(4)) for g, pat in zip(groups, pats)}
    calls = []

    def hook(fn, args, kwargs):
        if isinstance(fn, FuncInfo) and fn.name.endswith("__Assemble_csr"):
            calls.append((dict(args[0]), args[3] if len(args) > 3 else kwargs.get("isMatrix")))
            return Lbl("assembled", len(calls) - 1)
        if isinstance(fn, FuncInfo) and fn.name in ("Tic", "Tac"):
            return None
        return NotImplemented

    def asm(d, dof_n, Ndof, isMatrix):
        calls.append((dict(d), isMatrix))
        return Lbl("assembled", len(calls) - 1)

    obj = XObj(simu, dict(Get_dof_n=lambda pt=None: 2, _Simu__Get_Ndof=lambda pt=None: 10, Construct_local_matrix_system=lambda pt: dict(table), _verbosity=False, _Simu__Assemble_csr=asm))
    I = Interp(repo, extra_builtins={"Tic": lambda *a, **k: SimpleNamespace(Tac=lambda *a, **k: 0.0)})
    I.call_hook = hook
    out = I.call_function(fa, [Opaque("pt")], self_obj=obj)
    names = "KCMF"
    if not (isinstance(out, tuple) and len(out) == 4 and len(calls) == 4):
        r.instance(fn=fa.qualname)
        r.fail(fa.qualname, "shape", fa.file, fa.lineno, "_Simu.Assembly", f"Assembly makes {len(calls)} reductions and returns {type(out).__name__}; expected 4 and a 4-tuple")
        return
    for k in range(4):
        r.instance(fn=fa.qualname)
        idx = out[k].v[1] if isinstance(out[k], Lbl) and len(out[k].v) == 2 and out[k].v[0] == "assembled" else None
        bad = None
        if idx is None or not (0 <= idx < 4):
            bad = f"position {k} of the result is not one of the assembled arrays"
        else:
            d, is_mat = calls[idx]
            for g, pat in zip(groups, pats):
                v = d.get(g)
                if k in pat and v != Lbl("X", g.tag, k):
                    bad = f"group providing {'only ' if len(pat) == 1 else ''}{''.join(names[q] for q in pat)} does not reach the {names[k]} reduction with its {names[k]}_e (got {v!r}): its contribution is lost"
                if k not in pat and v is not None:
                    bad = f"the {names[k]} reduction receives {v!r} from a group that provides no {names[k]}_e"
            if bool(is_mat) != (k < 3):
                bad = f"the {names[k]} reduction is flagged isMatrix={is_mat}"
        if bad:
            r.fail(fa.qualname, f"slot:{names[k]}", fa.file, fa.lineno, "_Simu.Assembly", bad)
        else:
            r.ok(f"{names[k]} <- slot {k} of every group that provides it")


def dofs_nodes_rule(ctx, r1=None):
    """dof(node, unknown) = node * dim + index(unknown), node-major, in the order of the `unknowns` argument (any
    permutation is a documented input): decided on symbolic node numbers; when the function orders data by value the
    decision falls back to concrete, unsorted node numbers."""
    from ..xeval import Uninterpretable

    repo = ctx.repo
    if r1 is None:
        r1 = ctx.rule("R3.1", "index layout: dof(node, unknown) = node*dim + index(unknown) in the caller's unknown order", min_instances=1)
    fb = repo.method(BC, "Get_dofs_nodes")
    import itertools

    # every ordered selection of the available unknowns, in 2-D and 3-D (the finite domain of the `unknowns` argument)
    for avail in (["x", "y"], ["x", "y", "z"], ["x", "y", "rz"]):
        dim = len(avail)
        for k in range(1, dim + 1):
            for unknowns in itertools.permutations(avail, k):
                I = Interp(repo)
                r1.instance(fn=fb.qualname)
                how = "symbolic node numbers"
                nodes = XArray((2,), [Poly.var("n0"), Poly.var("n1")])
                try:
                    res = XArray.from_nested(I.call_function(fb, [list(avail), nodes, list(unknowns)]))
                except Uninterpretable:
                    how = "concrete node numbers (7, 2): the function orders its data by value"
                    nodes = XArray((2,), [Q(7), Q(2)])
                    res = XArray.from_nested(I.call_function(fb, [list(avail), nodes, list(unknowns)]))
                res = res.ravel() if res.ndim > 1 else res
                want = [nodes[m] * dim + avail.index(u) for m in range(2) for u in unknowns]
                if res.size == len(want) and all(is_zero(res.data[q] - want[q]) for q in range(len(want))):
                    r1.ok(f"BoundaryCondition.Get_dofs_nodes({avail}, unknowns={list(unknowns)}): node*dim + index(unknown), node-major, caller's order ({how})")
                else:
                    r1.fail(fb.qualname, f"layout:{','.join(avail)}:{','.join(unknowns)}", fb.file, fb.lineno, "Get_dofs_nodes", f"dofs for nodes ({nodes[0]!r}, {nodes[1]!r}), unknowns {list(unknowns)} among {avail} are {res.tolist() if isinstance(res, XArray) else res!r}, expected {want!r}: values given per unknown are paired with the wrong dof whenever the unknowns are not listed in canonical order")
