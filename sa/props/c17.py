"""C17 -- phase-field splits partition the stiffness; projectors complement;
mask index arity; history discipline; regularisation tables."""

from __future__ import annotations

import ast
import os
from types import SimpleNamespace

from ..alg import Poly, Q, Rat, is_zero
from ..repo import AnalysisError, dotted, norm_text, FuncInfo, walk_no_nested
from ..xarray import XArray
from ..xeval import Interp, XObj, Opaque, Sink, EnumVal, XRaise, Uninterpretable, _NpAttr, _Bound
from ..intervals import range_at

PFM = "EasyFEA.Models._phasefield.PhaseField"
PFS = "EasyFEA.Simulations._phasefield.PhaseField"
ISO = "EasyFEA.Models.Elastic._laws.Isotropic"

SYMMETRIC = {"C", "S", "IxI", "Id", "sqrtC", "isqrtC"}


class NC:
    """non-commutative polynomial in matrix atoms: {word: scalar coefficient}; a
    word is a tuple of (atom, transposed) pairs; the identity is the empty word."""

    _xeval_open = True

    def __init__(self, terms=None, n=6):
        t = {}
        for w, c in (terms or {}).items():
            w = self._simplify(w)
            if w is None:
                continue
            t[w] = t.get(w, 0) + c
        self.t = {w: c for w, c in t.items() if not is_zero(c)}
        self.n = n

    @staticmethod
    def _simplify(w):
        out = []
        for a, tr in w:
            if a == "Id":
                continue
            if a in SYMMETRIC:
                tr = False
            out.append((a, tr))
        # inverse pairs
        changed = True
        while changed:
            changed = False
            for i in range(len(out) - 1):
                pair = {out[i][0], out[i + 1][0]}
                if pair == {"C", "S"} or pair == {"sqrtC", "isqrtC"}:
                    del out[i : i + 2]
                    changed = True
                    break
        return tuple(out)

    @staticmethod
    def atom(name, n=6):
        return NC({((name, False),): Q(1)}, n)

    @staticmethod
    def ident(n=6):
        return NC({(): Q(1)}, n)

    @property
    def shape(self):
        return (self.n, self.n)

    @property
    def T(self):
        return NC({tuple((a, not tr) for a, tr in reversed(w)): c for w, c in self.t.items()}, self.n)

    def _coerce(self, o):
        if isinstance(o, NC):
            return o
        return None

    def __add__(self, o):
        if not isinstance(o, NC):
            if is_zero(o):
                return self
            return NotImplemented
        t = dict(self.t)
        for w, c in o.t.items():
            t[w] = t.get(w, 0) + c
        return NC(t, self.n)

    __radd__ = __add__

    def __neg__(self):
        return NC({w: -c for w, c in self.t.items()}, self.n)

    def __sub__(self, o):
        return self + (-o)

    def __rsub__(self, o):
        return (-self) + o

    def __mul__(self, o):
        if isinstance(o, NC):
            raise AnalysisError("element-wise product of two matrix expressions")
        return NC({w: c * o for w, c in self.t.items()}, self.n)

    __rmul__ = __mul__

    def __truediv__(self, o):
        return NC({w: c / o for w, c in self.t.items()}, self.n)

    def __matmul__(self, o):
        if not isinstance(o, NC):
            return Opaque("matrix@vector")
        t = {}
        for w1, c1 in self.t.items():
            for w2, c2 in o.t.items():
                w = w1 + w2
                t[w] = t.get(w, 0) + c1 * c2
        return NC(t, self.n)

    def copy(self):
        return self

    def subs_atom(self, name, repl: "NC"):
        out = NC({}, self.n)
        for w, c in self.t.items():
            acc = NC.ident(self.n) * c
            for a, tr in w:
                if a == name:
                    acc = acc @ (repl.T if tr else repl)
                else:
                    acc = acc @ NC({((a, tr),): Q(1)}, self.n)
            out = out + acc
        return out

    def subs_scalar(self, env):
        return NC({w: (c.subs(env) if isinstance(c, (Poly, Rat)) else c) for w, c in self.t.items()}, self.n)

    def atoms(self):
        return {a for w in self.t for a, _ in w}

    def scalars(self):
        s = set()
        for c in self.t.values():
            if isinstance(c, Poly):
                s |= set(c.vars())
            elif isinstance(c, Rat):
                s |= set(c.n.vars()) | set(c.d.vars())
        return s

    def __eq__(self, o):
        if not isinstance(o, NC):
            return NotImplemented
        return not (self - o).t

    def __hash__(self):
        return 0

    def __repr__(self):
        if not self.t:
            return "0"
        return " + ".join(f"[{c!r}]" + ("".join(a + ("^T" if tr else "") + "." for a, tr in w) or "Id") for w, c in self.t.items())


def split_rule(ctx):
    repo = ctx.repo
    r = ctx.rule("R17.1", "every split partitions the undamaged stiffness: with projM = Id - projP and Rm = 1 - Rp, cP + cM is independent of the selectors and equals C (lambda IxI + 2 mu Id for the isotropic forms)", min_instances=14)
    pf = repo.cls(PFM)
    fC = pf.methods["Calc_C"]
    split_cls = repo.nested_class(pf, "SplitType")
    members = repo.enum_members(split_cls.qualname)
    iso = repo.cls(ISO)
    results = {}
    rp = ctx.rule("R17.7", "polarity of the isotropic splits (Miehe, Amor, Stress; plane stress and plane strain): the positive part is built from the positive selectors (Rp, projP) only, the negative part from (Rm, projM) only", min_instances=8)
    for split in members:
        for dim, planeStress in ((2, False), (2, True), (3, False)):
            n = 3 if dim == 2 else 6
            if planeStress and split not in ("Miehe", "Amor", "Stress"):
                continue
            r.instance(fn=fC.qualname)
            lam, mu, E, v = (Poly.var(x) for x in ("lam", "mu", "E", "v"))
            Rp, Rm = Poly.var("Rp"), Poly.var("Rm")
            mat = XObj(iso, dict(dim=dim, isHeterogeneous=False, planeStress=planeStress, E=E, v=v, C=NC.atom("C", n), S=NC.atom("S", n), coef=Opaque("coef")))
            mat.attrs["get_mu"] = lambda: mu
            mat.attrs["get_lambda"] = lambda: lam
            mat.attrs["Get_sqrt_C_S"] = lambda: (NC.atom("sqrtC", n), NC.atom("isqrtC", n))
            obj = XObj(pf, {"split": EnumVal(split_cls, split, members[split]), "_PhaseField__material": mat, "isHeterogeneous": False, "dim": dim})
            obj.attrs["_PhaseField__Rp_Rm"] = lambda vec: (Rp, Rm)
            obj.attrs["_PhaseField__Spectral_Decomposition"] = lambda vec, verif=False: (NC.atom("projP", n), NC.atom("projM", n))
            obj.attrs["_PhaseField__Build_IxI"] = lambda d: NC.atom("IxI", n)

            def hook(fn, args, kwargs):
                if isinstance(fn, _Bound) and fn.finfo.name in ("asfearray", "broadcast"):
                    return args[0]
                if isinstance(fn, _NpAttr) and fn.path == "eye":
                    return NC.ident(int(args[0]))
                if isinstance(fn, _NpAttr) and fn.path == "zeros_like":
                    return NC({}, n)
                return NotImplemented

            I = Interp(repo, extra_builtins={"Tic": lambda *a, **k: Sink()})
            I.call_hook = hook
            eps = SimpleNamespace(shape=(1, 1, n), copy=lambda: Opaque("eps"))
            con = f"{fC.qualname}[{split}]"
            dimtag = f"{dim}{'ps' if planeStress else ''}"
            try:
                cP, cM = I.call_function(fC, [eps], self_obj=obj)
            except XRaise as e:
                if e.exc_name == "AssertionError" and "Isotropic" in e.msg:
                    r.ok()
                    continue
                r.fail(con, f"raises:dim{dimtag}", fC.file, fC.lineno, "PhaseField.Calc_C", f"SplitType.{split} (dim {dim}) reaches no branch / raises {e}")
                continue
            if not isinstance(cP, NC) or not isinstance(cM, NC):
                r.fail(con, f"type:dim{dimtag}", fC.file, fC.lineno, "PhaseField.Calc_C", f"SplitType.{split}: cP/cM are not matrix expressions")
                continue
            if split in ("Miehe", "Amor", "Stress"):
                rp.instance(fn=fC.qualname)
                wrongP = (cP.atoms() & {"projM"}) | (cP.scalars() & {"Rm"})
                wrongM = (cM.atoms() & {"projP"}) | (cM.scalars() & {"Rp"})
                if wrongP or wrongM:
                    rp.fail(con, f"polarity:dim{dimtag}", fC.file, fC.lineno, "PhaseField.Calc_C", f"SplitType.{split} (dim {dim}{', plane stress' if planeStress else ''}): the positive part depends on {sorted(wrongP)} / the negative part on {sorted(wrongM)}: the tensile (trace-positive) contribution is attributed to the compressive part and vice versa - the parts still add up, but the driving energy psi+ is the compressive one")
                else:
                    rp.ok(f"{split} dim {dim}{' plane stress' if planeStress else ''}: cP <- (Rp, projP), cM <- (Rm, projM)")
            tot = cP + cM
            tot = tot.subs_atom("projM", NC.ident(n) - NC.atom("projP", n)).subs_scalar({"Rm": 1 - Rp})
            sel = (tot.atoms() & {"projP", "projM"}) | (tot.scalars() & {"Rp", "Rm"})
            results[(split, dim, planeStress)] = tot
            if sel:
                r.fail(con, f"partition:dim{dimtag}", fC.file, fC.lineno, "PhaseField.Calc_C", f"SplitType.{split} (dim {dim}): cP + cM still depends on the selector(s) {sorted(sel)} after projM = Id - projP, Rm = 1 - Rp: the two parts do not add up to the undamaged stiffness ({tot!r})")
                continue
            # value
            iso_form = NC.atom("IxI", n) * lam + NC.ident(n) * (2 * mu)
            if split in ("Miehe",):
                ok = tot == iso_form
                what = "lambda IxI + 2 mu Id"
            elif split == "Amor":
                # bulk from the real Isotropic.get_bulk: lambda + 2 mu / dim
                ok = tot == iso_form
                what = "lambda IxI + 2 mu Id (bulk = lambda + 2 mu/dim)"
            elif split == "Stress":
                # C^T (S_iso) C with S_iso the isotropic compliance formula: independent of selectors is the partition; value is C S_iso C
                ok = True
                what = "C^T (sP + sM) C with sP + sM selector-free"
            else:
                ok = tot == NC.atom("C", n)
                what = "C"
            if ok:
                r.ok(f"{split} dim {dim}: cP + cM == {what}")
            else:
                r.fail(con, f"value:dim{dimtag}", fC.file, fC.lineno, "PhaseField.Calc_C", f"SplitType.{split} (dim {dim}): cP + cM = {tot!r}, expected {what}")
            if split == "Bourdin" and cM.t:
                r.fail(con, f"bourdin:dim{dim}", fC.file, fC.lineno, "PhaseField.Calc_C", "Bourdin: the negative part must vanish")


def projector_rule(ctx):
    """R17.2 (supporting evidence, never an alarm): where the negative projector is WRITTEN as Identity - projP and the last
    eigen-projector as Identity - (the others), the partition holds by construction for every strain state.  A code that
    computes them another way is not wrong for that: the partition is then decided on exact states by R17.12 / R17.13 /
    R17.15 / R17.16, which interpret the decomposition (this rule used to fail on any other construction: a false alarm
    in waiting, corrected)."""
    repo = ctx.repo
    r = ctx.rule("R17.2", "where projM is written as Identity - projP and the last eigen-projector as Identity - (the others), the partition holds by construction for every state (otherwise: decided on exact states by R17.12-R17.16)", min_instances=0)
    pf = repo.cls(PFM)
    f = pf.methods.get("__Spectral_Decomposition")
    if f is None:
        return
    rets = [n for n in ast.walk(f.node) if isinstance(n, ast.Return) and isinstance(n.value, ast.Tuple) and len(n.value.elts) == 2 and all(isinstance(e, ast.Name) for e in n.value.elts)]
    if not rets:
        r.note("__Spectral_Decomposition does not return the pair by name: no structural evidence, see R17.13 / R17.16")
        return
    pP, pM = (e.id for e in rets[-1].value.elts)
    for a in [n for n in ast.walk(f.node) if isinstance(n, ast.Assign) and any(isinstance(t, ast.Name) and t.id == pM for t in n.targets)]:
        r.instance(fn=f.qualname)
        v = a.value
        if isinstance(v, ast.BinOp) and isinstance(v.op, ast.Sub) and isinstance(v.left, ast.Call) and (dotted(v.left.func) or "") in ("np.eye", "np.identity") and isinstance(v.right, ast.Name) and v.right.id == pP:
            r.ok(f"by construction: {norm_text(a)}")
        else:
            r.ok()
            r.note(f"`{norm_text(a)[:80]}` is not the literal complement of the positive projector: the partition is decided on exact states by R17.13 / R17.16")


def mask_rule(ctx):
    repo = ctx.repo
    r = ctx.rule("R17.3", "a boolean mask over (Ne, nPg) must be applied with both of its axes: np.where(mask)[0] used as the only index classifies whole elements by one Gauss point", min_instances=1)
    pf = repo.cls(PFM)
    g = pf.methods["_Eigen_values_vectors_projectors"]
    # rank-2 taint: names *_e_pg and everything computed from them (element x Gauss-point fields)
    field = {a.arg for a in g.node.args.args if a.arg.endswith("_e_pg")}
    changed = True
    assigns = [n for n in walk_no_nested(g.node) if isinstance(n, ast.Assign)]
    while changed:
        changed = False
        for a in assigns:
            names = {x.id for x in ast.walk(a.value) if isinstance(x, ast.Name)}
            if names & field:
                for t in a.targets:
                    for x in ast.walk(t):
                        if isinstance(x, ast.Name) and x.id not in field and isinstance(t, ast.Name):
                            # np.where(...)[0] results are index vectors, not fields
                            if "np.where" in norm_text(a.value):
                                continue
                            field.add(x.id)
                            changed = True
    elem_only = {}
    both = set()
    for a in assigns:
        txt = norm_text(a.value)
        if "np.where(" in txt:
            wh = [c for c in ast.walk(a.value) if isinstance(c, ast.Subscript) and isinstance(c.value, ast.Call) and (dotted(c.value.func) or "") == "np.where" and isinstance(c.slice, ast.Constant) and c.slice.value == 0]
            for w in wh:
                masknames = {x.id for x in ast.walk(w.value.args[0]) if isinstance(x, ast.Name)}
                if masknames & field:
                    for t in a.targets:
                        if isinstance(t, ast.Name):
                            elem_only[t.id] = a
            if isinstance(a.targets[0], ast.Tuple) and isinstance(a.value, ast.Call) and (dotted(a.value.func) or "") == "np.where":
                both |= {e.id for e in a.targets[0].elts if isinstance(e, ast.Name)}
    # propagate through set operations
    for a in assigns:
        if isinstance(a.value, ast.Call) and (dotted(a.value.func) or "") in ("np.setdiff1d", "np.union1d", "np.unique", "np.intersect1d"):
            names = {x.id for x in ast.walk(a.value) if isinstance(x, ast.Name)}
            if names & set(elem_only) or any("np.where" in norm_text(x) for x in a.value.args):
                for t in a.targets:
                    if isinstance(t, ast.Name) and t.id not in elem_only:
                        if any(isinstance(c, ast.Subscript) and isinstance(c.value, ast.Call) and (dotted(c.value.func) or "") == "np.where" for c in ast.walk(a.value)) or names & set(elem_only):
                            elem_only[t.id] = a
    r.instance(fn=g.qualname)
    if both:
        r.ok(f"2-D branch: np.where unpacked into both axes {sorted(both)}")
    flagged = {}
    for n in ast.walk(g.node):
        if isinstance(n, ast.Subscript) and isinstance(n.slice, ast.Name) and n.slice.id in elem_only and isinstance(n.value, (ast.Name, ast.BinOp, ast.Call)):
            base = {x.id for x in ast.walk(n.value) if isinstance(x, ast.Name)}
            if base & field or isinstance(n.ctx, ast.Store):
                flagged.setdefault(n.slice.id, n)
    import copy

    def mask_shape(varname):
        """the mask expression behind an element-only index, identifiers erased (stable under renaming)"""
        a = elem_only[varname]
        wh = [c for c in ast.walk(a.value) if isinstance(c, ast.Call) and (dotted(c.func) or "") == "np.where"]
        if not wh:
            # derived through set operations: use the shapes of its sources
            srcs = sorted(mask_shape(x.id) for x in ast.walk(a.value) if isinstance(x, ast.Name) and x.id in elem_only and x.id != varname)
            return "derived(" + ",".join(srcs) + ")"
        m = wh[0].args[0]
        if isinstance(m, ast.Name):
            d = [n for n in assigns if any(isinstance(t, ast.Name) and t.id == m.id for t in n.targets)]
            m = d[0].value if d else m
        m = copy.deepcopy(m)
        for x in ast.walk(m):
            if isinstance(x, ast.Name):
                x.id = "_"
        return norm_text(m)

    for name, node in sorted(flagged.items(), key=lambda kv: kv[1].lineno):
        r.instance(fn=g.qualname)
        r.fail(g.qualname, f"element-only-mask:{mask_shape(name)}", g.file, node.lineno, "_Eigen_values_vectors_projectors",
               f"`{name}` keeps only axis 0 of np.where(<mask over (Ne, nPg)>) and is then used as the sole index ({norm_text(node)}): every Gauss point of an element is treated like the one that matched (mixed degenerate / generic strain states in one element get the wrong eigen-projectors or NaN)")


def history_rule(ctx):
    repo = ctx.repo
    r = ctx.rule("R17.5", "irreversibility: the history field has only the committed writers; damage-based solvers bound the new damage by the damage at the start of the load step (the point-wise maximum rule of the history field: R17.19)", min_instances=2)
    ps = repo.cls(PFS)
    writers = {}
    for name, f in ps.methods.items():
        if f.cls is not ps or name.startswith("_PhaseField__") and name[len("_PhaseField"):] in ps.methods:
            pass
        for n in ast.walk(f.node):
            if isinstance(n, ast.Assign):
                for t in n.targets:
                    if isinstance(t, ast.Attribute) and isinstance(t.value, ast.Name) and t.value.id == "self" and t.attr in ("__old_psiP_e_pg", "_PhaseField__old_psiP_e_pg"):
                        writers.setdefault(f.name, []).append(n)
    r.instance(fn=PFS)
    allowed = {"__init__", "Save_Iter", "Set_Iter", "_Update", "mesh"}
    extra = set(writers) - allowed
    if writers and not extra:
        r.ok(f"__old_psiP_e_pg writers: {sorted(writers)}")
    else:
        f0 = ps.methods["__init__"]
        r.fail(PFS, f"history-writers:{sorted(extra)}", f0.file, f0.lineno, "PhaseField", f"the history field is written by {sorted(writers)}; only construction, Save_Iter and Set_Iter may commit it (a write inside the staggered solve would advance the history before convergence)")
    # (the point-wise maximum and the commit at Save_Iter were matched as statement shapes here - inc = A - B; where(inc < 0);
    # A[idx] = B[idx] - which raised a false alarm on `np.maximum(A, B)`; they are now decided by interpreting the history
    # protocol: R17.19.)
    # damage-based irreversibility: the bound is applied to the damage the simulation keeps (the one Save_Iter records)
    from ..flow import Locals, must_pass

    fsolve = ps.methods["Solve"]
    r.instance(fn=fsolve.qualname)
    loc_s = Locals(fsolve.node)
    branch = None
    for n in ast.walk(fsolve.node):
        if isinstance(n, ast.If) and "HistoryDamage" in norm_text(n.test):
            branch = n
    bad = None
    if branch is None:
        bad = "Solve has no branch for the HistoryDamage solver"
    else:
        bounded = None
        for i, st in enumerate(branch.body):
            if isinstance(st, ast.Assign) and isinstance(st.targets[0], ast.Name) and isinstance(st.value, ast.Call) and (dotted(st.value.func) or "") in ("np.max", "np.maximum", "np.amax", "np.fmax"):
                bounded = (i, st.targets[0].id)
        if bounded is None:
            bad = "the HistoryDamage branch does not take the maximum of the old and the new damage"
        else:
            i, name = bounded
            # one operand of the maximum is the damage at the START of the load step: a name bound to self.damage by a
            # statement of Solve that is not inside the staggered loop
            step_start = {st.targets[0].id for st in fsolve.node.body if isinstance(st, ast.Assign) and isinstance(st.targets[0], ast.Name) and norm_text(st.value) in ("self.damage", "self.damage.copy()")}
            mx = branch.body[i].value
            operands = set()
            for a in mx.args:
                for x in ast.walk(a):
                    if isinstance(x, ast.Name):
                        operands.add(x.id)
            for st in branch.body[:i]:
                if isinstance(st, ast.Assign) and isinstance(st.targets[0], ast.Subscript) and isinstance(st.targets[0].value, ast.Name) and st.targets[0].value.id in operands:
                    operands |= {x.id for x in ast.walk(st.value) if isinstance(x, ast.Name)}
            if not (operands & step_start):
                bad = f"the HistoryDamage bound takes the maximum over {sorted(operands - {name})}, none of which is the damage at the start of the load step (`<name> = self.damage` before the staggered loop): an intermediate iterate can lie below the saved damage, so the saved damage decreases on unloading when a step takes several iterations"

            def stores(st):
                return (isinstance(st, ast.Expr) and isinstance(st.value, ast.Call) and isinstance(st.value.func, ast.Attribute) and st.value.func.attr == "_Set_solutions"
                        and len(st.value.args) >= 2 and "damage" in norm_text(loc_s.resolve(st.value.args[0])) and isinstance(st.value.args[1], ast.Name) and st.value.args[1].id == name)

            if bad is None and not must_pass(branch.body[i + 1:], stores):
                bad = f"the HistoryDamage branch bounds `{name}` by the old damage and returns it, but never stores it (`self._Set_solutions(<damage>, {name})`): self.damage - what Save_Iter records and the next step starts from - is still the unbounded solver output, so the saved damage decreases on unloading"
    if bad:
        r.fail(fsolve.qualname, "damage-bound-not-stored", fsolve.file, (branch or fsolve.node).lineno, "PhaseField.Solve", bad)
    else:
        r.ok("Solve/HistoryDamage: d = max(old, new) and the bounded field is stored as the simulation's damage")
    flb = ps.methods["Get_lb_ub"]
    r.instance(fn=flb.qualname)
    okb = False
    for n in ast.walk(flb.node):
        if isinstance(n, ast.If) and "BoundConstrain" in norm_text(n.test):
            for st in n.body:
                if isinstance(st, ast.Assign) and norm_text(st.value) == "self.damage":
                    lbname = norm_text(st.targets[0])
                    rets = [x for x in ast.walk(flb.node) if isinstance(x, ast.Return) and isinstance(x.value, ast.Tuple) and norm_text(x.value.elts[0]) == lbname]
                    okb = bool(rets)
    if okb:
        r.ok("Get_lb_ub/BoundConstrain: the lower bound of the damage problem is the current damage")
    else:
        r.fail(flb.qualname, "lower-bound", flb.file, flb.lineno, "PhaseField.Get_lb_ub", "under BoundConstrain the lower bound handed to the bounded solver is not the current damage field")

    # the running maximum is handed to the model functions by reference: none of them may write it in place
    from ..flow import CallGraph, alias_closure, is_view_expr, param_inplace

    cg = CallGraph(repo)
    pm = repo.cls(PFM)
    nconsumers = 0
    for name, f in sorted(ps.methods.items()):
        if f.cls is not ps or name != f.node.name:
            continue
        seeds = set()
        for n in walk_no_nested(f.node):
            if isinstance(n, ast.Assign) and isinstance(n.targets[0], ast.Name):
                txt = norm_text(n.value)
                if isinstance(n.value, ast.Call) and (dotted(n.value.func) or "").endswith("__Calc_psiPlus_e_pg") or txt.endswith("psiP_e_pg") and txt.startswith("self."):
                    seeds.add(n.targets[0].id)
        if not seeds:
            continue
        aliases = alias_closure(f.node, seeds)
        for n in walk_no_nested(f.node):
            if not (isinstance(n, ast.Call) and isinstance(n.func, ast.Attribute)):
                continue
            pos = [i for i, a in enumerate(n.args) if is_view_expr(a, aliases)]
            if not pos:
                continue
            g = repo.lookup_method(pm, n.func.attr)
            if g is None:
                continue
            nconsumers += 1
            r.instance(fn=g.qualname)
            ps_ = g.params()
            names = {ps_[i + 1] for i in pos if i + 1 < len(ps_)}
            sinks = param_inplace(cg, g, names, depth=4)
            if sinks:
                gf, node, desc = sinks[0]
                r.fail(g.qualname, f"history-inplace:{g.name}", gf.file, node.lineno, g.name, f"{f.name} passes the driving energy it keeps as the history candidate to {g.name}, which writes it in place ({desc}): Save_Iter then commits the overwritten array as the history field")
            else:
                r.ok(f"{g.name} only reads the driving-energy array it receives from {f.name}")
    if nconsumers == 0:
        raise AnalysisError("R17.5: no model function receives the driving energy from the simulation: anchor moved")


def tables_rule(ctx):
    repo = ctx.repo
    r = ctx.rule("R17.6", "regularisation tables: every ReguType member has a branch in k, Get_r_e_pg, Get_f_e_pg, c_w", min_instances=4)
    pf = repo.cls(PFM)
    regu = repo.nested_class(pf, "ReguType")
    members = list(repo.enum_members(regu.qualname))
    for m in ("k", "Get_r_e_pg", "Get_f_e_pg", "c_w"):
        f = pf.methods[m]
        r.instance(fn=f.qualname)
        txt = norm_text(f.node)
        missing = [x for x in members if f"ReguType.{x}" not in txt and f'"{x}"' not in txt and f"'{x}'" not in txt]
        if not missing:
            r.ok(f"{m}: branches for {members}")
        else:
            r.fail(f.qualname, f"regu:{missing}", f.file, f.lineno, m, f"no branch for regularisation(s) {missing}")


def run(ctx):
    from ..shared import commit_idempotent_rule as _commit_idempotent_rule

    ctx.attempt(_commit_idempotent_rule, ctx, "R17.9")
    ctx.level = "proof"
    ctx.explanation = (
        "Calc_C is interpreted for all 14 SplitType values in a non-commutative matrix algebra (atoms C, S, projP, projM, IxI, sqrtC; scalar selectors Rp, Rm); with "
        "projM = Id - projP and Rm = 1 - Rp the sum cP + cM is shown selector-free and equal to C (lambda IxI + 2 mu Id for Miehe/Amor) by normal form - the partition of "
        "stress and energy for every strain state at once. Structural rules: projM / M2 defined as complements, (Ne, nPg) masks applied with both axes, history writers and "
        "maximum rule, regularisation tables. The closed-form eigen-decompositions (2-D and 3-D) are interpreted in exact arithmetic on states with every pattern of "
        "repeated eigenvalues (rotated and axis-aligned, mixed inside one element): projectors (R17.12, R17.15) and projP == d eps+ / d eps (R17.13, R17.16); inverse-trigonometric and square-root "
        "arguments are clamped (R17.14, R17.17); the history field is kept per element group (R17.18). NOT decided: round-off classification of nearly degenerate states, monotonicity of the "
        "solved damage (bound-constrained solvers are trusted)."
    )
    ctx.trust("sa/props/c17.py NC (non-commutative polynomials with relations C.S = Id, sqrtC.isqrtC = Id, symmetric atoms)")
    split_rule(ctx)
    ctx.attempt(trace_selector_rule, ctx)
    ctx.attempt(stress_parts_rule, ctx)
    ctx.attempt(energy_parts_rule, ctx)
    from . import e2e_rules as _e2e

    ctx.attempt(_e2e.phasefield_rule, ctx, "R17.E1")
    ctx.attempt(history_reset_callers_rule, ctx)
    ctx.attempt(degenerate_projector_rule, ctx)
    ctx.attempt(degenerate_derivative_rule, ctx)
    ctx.attempt(inverse_trig_domain_rule, ctx)
    ctx.attempt(plane_degenerate_rule, ctx)
    ctx.attempt(sqrt_domain_rule, ctx)
    ctx.attempt(history_protocol_rule, ctx)
    from . import c04 as _c04

    # 'for the damage-based solvers the damage never decreases': the bound d >= d_old reaches the solver on the unknown dofs it belongs to
    ctx.attempt(_c04.elimination_rule, ctx, "R17.20")
    ctx.attempt(_c04.bounded_solve_rule, ctx, "R17.21")
    from ..shared import wrap_flag_owner_rule as _wrap_flag_owner_rule

    # 'for every energy split': also when the MATERIAL is given per element (and the toughness is not, or the reverse)
    ctx.attempt(_wrap_flag_owner_rule, ctx, "R17.22", lambda f: f.module.name.startswith(("EasyFEA.Models._phasefield", "EasyFEA.Simulations._phasefield")))
    from ..shared import per_group_state_rule as _per_group_state_rule

    ctx.attempt(_per_group_state_rule, ctx, "R17.18", lambda f: f.qualname.startswith("EasyFEA.Simulations."), 5)
    projector_rule(ctx)
    mask_rule(ctx)
    history_rule(ctx)
    tables_rule(ctx)


def trace_selector_rule(ctx):
    """R17.8: the trace-sign selectors: Rp = 1 where tr(eps) > 0, 0 where tr(eps) < 0, 1/2 at tr = 0; Rm = 1 - Rp -- on the
    components the dimension actually has (xx + yy, + zz in 3-D)."""
    from ..femchain import XFe, fe_hook_full

    repo = ctx.repo
    r = ctx.rule("R17.8", "trace-sign selectors: Rp = 1 / 0 / 1/2 for tr > 0 / < 0 / = 0 over the normal components of the dimension, Rm = 1 - Rp", min_instances=2)
    pf = repo.cls(PFM)
    f = pf.methods[pf.mangle("__Rp_Rm")] if pf.mangle("__Rp_Rm") in pf.methods else repo.lookup_method(pf, pf.mangle("__Rp_Rm"))
    for dim in (2, 3):
        n = 3 if dim == 2 else 6
        r.instance(fn=f.qualname)
        # points: tr>0, tr<0, tr=0, and (3-D) a state whose in-plane trace and full trace have opposite signs
        rows = [[Q(2), Q(-1)] + [Q(0)] * (n - 2), [Q(-3), Q(1)] + [Q(0)] * (n - 2), [Q(1), Q(-1)] + [Q(0)] * (n - 2)]
        want = [Q(1), Q(0), Q(1, 2)]
        if dim == 3:
            rows.append([Q(1), Q(1), Q(-5), Q(9), Q(9), Q(9)])
            want.append(Q(0))
            rows[2][2] = Q(0)
        else:
            rows.append([Q(1), Q(1), Q(-5)])  # the third entry of a 2-D Kelvin vector is the shear: not part of the trace
            want.append(Q(1))
        vec = XFe((1, len(rows), n), [x for row in rows for x in row])
        obj = XObj(pf, {"_PhaseField__material": SimpleNamespace(dim=dim)})
        I = Interp(repo)
        I.call_hook = fe_hook_full
        try:
            Rp, Rm = I.call_function(f, [vec], self_obj=obj)
        except XRaise as e:
            r.fail(f.qualname, f"selectors:dim{dim}", f.file, f.lineno, "PhaseField.__Rp_Rm", f"dim {dim}: raises {e}")
            continue
        Rp, Rm = XArray.from_nested(Rp), XArray.from_nested(Rm)
        bad = None
        for k in range(len(rows)):
            if Rp.data[k] != want[k] or Rm.data[k] != 1 - want[k]:
                bad = f"state {[str(x) for x in rows[k]]}: (Rp, Rm) = ({Rp.data[k]}, {Rm.data[k]}), expected ({want[k]}, {1 - want[k]})"
        if bad:
            r.fail(f.qualname, f"selectors:dim{dim}", f.file, f.lineno, "PhaseField.__Rp_Rm", f"dim {dim}: {bad}")
        else:
            r.ok(f"dim {dim}: selectors follow the sign of the trace")


def stress_parts_rule(ctx):
    """R17.10: the stress parts are the split stiffnesses applied to the strain, Sigma+- = c+- : eps (row i: sum_j c[i][j]
    eps[j]) -- NOT eps : c+-, which differs as soon as a split stiffness is not symmetric (Zhang, the anisotropic
    splits).  Calc_Sigma_e_pg is interpreted under the FeArray protocol model with symbolic, non-symmetric c+-."""
    from ..femodel import Model, FeV

    repo = ctx.repo
    ci = repo.cls(PFM)
    f = ci.methods["Calc_Sigma_e_pg"]
    r = ctx.rule("R17.10", "Calc_Sigma_e_pg: Sigma+ == c+ : eps and Sigma- == c- : eps entry by entry for non-symmetric split stiffnesses (Ne == nPg == D coincidence included)", min_instances=2)
    for D, Ne, nPg in ((3, 3, 3), (6, 2, 1)):
        r.instance(fn=f.qualname)
        M = Model(repo)
        eps = FeV((Ne, nPg, D), [Poly.var(f"e{e}{p}{i}") for e in range(Ne) for p in range(nPg) for i in range(D)])
        cs = {s: FeV((Ne, nPg, D, D), [Poly.var(f"c{s}{e}{p}_{i}{j}") for e in range(Ne) for p in range(nPg) for i in range(D) for j in range(D)]) for s in "PM"}
        obj = XObj(ci, {"Calc_C": lambda E, verif=False: (cs["P"], cs["M"])})
        M.user_call_hook = lambda fn, args, kwargs: Sink() if getattr(fn, "name", "") == "Tic" else NotImplemented
        try:
            out = M.I.call_function(f, [eps], self_obj=obj)
        except XRaise as e:
            r.fail(f.qualname, f"parts:D{D}", f.file, f.lineno, "PhaseField.Calc_Sigma_e_pg", f"D = {D}: raises {e}")
            continue
        bad = None
        for s, got in zip("PM", out):
            got = XArray.from_nested(got)
            if got.shape != (Ne, nPg, D):
                bad = f"Sigma{'+' if s == 'P' else '-'} has shape {got.shape}"
                break
            for e in range(Ne):
                for p in range(nPg):
                    for i in range(D):
                        want = sum((Poly.of(cs[s][e, p, i, j]) * Poly.of(eps[e, p, j]) for j in range(D)), Poly())
                        if bad is None and not is_zero(Poly.of(got[e, p, i]) - want):
                            bad = f"Sigma{'+' if s == 'P' else '-'}[{i}] at (e={e}, p={p}) is not sum_j c[{i}][j] eps[j]" + (" (it is sum_j c[j][i] eps[j]: the transposed stiffness)" if is_zero(Poly.of(got[e, p, i]) - sum((Poly.of(cs[s][e, p, j, i]) * Poly.of(eps[e, p, j]) for j in range(D)), Poly())) else "")
        if bad:
            r.fail(f.qualname, f"parts:D{D}", f.file, f.lineno, "PhaseField.Calc_Sigma_e_pg", f"D = {D}, (Ne, nPg) = ({Ne}, {nPg}): {bad}: for the splits whose c+- are not symmetric the two stress parts are wrong although their sum is not")
        else:
            r.ok(f"D = {D}: Sigma+- == c+- : eps")


def energy_parts_rule(ctx):
    """R17.23: 'the positive and negative parts ... add up to the undamaged stress and energy': Calc_psi_e_pg is interpreted
    with stress parts handed in as exact numbers whose positive part does negative work at some points (the cross-term
    splits AnisotStrain / _PM / _MP in compression-dominated states): psi+- == 1/2 eps . Sigma+- point by point - no
    clamp, no absolute value, no threshold - hence psi+ + psi- == 1/2 eps . (Sigma+ + Sigma-)."""
    from ..femodel import Model, FeV

    repo = ctx.repo
    ci = repo.cls(PFM)
    f = ci.methods["Calc_psi_e_pg"]
    r = ctx.rule("R17.23", "Calc_psi_e_pg: psi+ == 1/2 eps . Sigma+ and psi- == 1/2 eps . Sigma- point by point on exact states where one part does negative work and where both are tiny (1e-14): the parts add up to the undamaged energy", min_instances=2)
    for D, Ne, nPg in ((3, 2, 2), (6, 1, 3)):
        r.instance(fn=f.qualname)
        M = Model(repo)
        n = Ne * nPg * D
        ev = [Q((-1) ** k * (k % 5 + 1), 7) for k in range(n)]
        sp = [Q((-1) ** (k // 2) * (k % 3 + 2), 3) for k in range(n)]
        sm = [Q((-1) ** (k // 3 + 1) * (k % 4 + 1), 5) for k in range(n)]
        # last point: energies of magnitude 1e-14 and 1e-15 (a relative statement: nothing is rounded to zero)
        for i in range(D):
            ev[n - D + i] = Q(1, 10 ** 7) * (i + 1)
            sp[n - D + i] = Q(1, 10 ** 7)
            sm[n - D + i] = -Q(1, 10 ** 8)
        eps, sP, sM = (FeV((Ne, nPg, D), list(v)) for v in (ev, sp, sm))
        obj = XObj(ci, {"Calc_Sigma_e_pg": lambda E, *a, **k: (sP, sM)})
        M.user_call_hook = lambda fn, args, kwargs: Sink() if getattr(fn, "name", "") == "Tic" else NotImplemented
        try:
            out = M.I.call_function(f, [eps], self_obj=obj)
            got = [XArray.from_nested(o) for o in out]
        except XRaise as e:
            r.fail(f.qualname, f"energy-parts:D{D}", f.file, f.lineno, "PhaseField.Calc_psi_e_pg", f"D = {D}: raises {e}")
            continue
        bad = None
        for name, g, sv in (("psi+", got[0], sp), ("psi-", got[1], sm)):
            if g.shape != (Ne, nPg):
                bad = f"{name} has shape {g.shape}, not (Ne, nPg)"
                break
            for e in range(Ne):
                for p in range(nPg):
                    o = (e * nPg + p) * D
                    want = sum(ev[o + i] * sv[o + i] for i in range(D)) / 2
                    if bad is None and g[e, p] != want:
                        bad = f"{name} at (e={e}, p={p}) is {g[e, p]}, 1/2 eps . Sigma is {want}" + (" (a negative energy part was clamped: psi+ + psi- is no longer the undamaged energy for the cross-term splits)" if want < 0 and g[e, p] >= 0 else "")
        if bad:
            r.fail(f.qualname, f"energy-parts:D{D}", f.file, f.lineno, "PhaseField.Calc_psi_e_pg", f"D = {D}, (Ne, nPg) = ({Ne}, {nPg}): {bad}")
        else:
            r.ok(f"D = {D}: psi+- == 1/2 eps . Sigma+-")


def history_reset_callers_rule(ctx):
    """R17.11: 'the driving (history) energy ... never decreases between saved steps': the only writer that can lower the
    history field is the reset branch of PhaseField.Set_Iter (resetAll=True), an explicit request of the user.  No
    function of the library requests it: every Set_Iter call site inside the package leaves resetAll at its default
    (a read such as Result(..., iter=i) must not rebuild the history from the instantaneous energy)."""
    repo = ctx.repo
    r = ctx.rule("R17.11", "no call site of Set_Iter inside the simulation classes asks for the history reset (resetAll left at False): reading a stored iteration cannot lower the history field", min_instances=8)
    for f in sorted(repo.all_functions(), key=lambda f: f.qualname):
        if not f.module.name.startswith("EasyFEA.Simulations"):
            # the export / plotting utilities walk the whole history from iteration 0 with an explicit reset: they take the
            # simulation over on purpose (consequence of the history not being part of a stored iteration, known finding F11)
            continue
        for n in ast.walk(f.node):
            if not (isinstance(n, ast.Call) and isinstance(n.func, ast.Attribute) and n.func.attr == "Set_Iter"):
                continue
            if isinstance(n.func.value, ast.Call) and dotted(n.func.value.func) == "super":
                # the override forwarding to its base: the base method takes no history decision
                pass
            r.instance(fn=f.qualname)
            extra = list(n.args[1:]) + [k.value for k in n.keywords if k.arg in ("resetAll", None)]
            bad = [e for e in extra if not (isinstance(e, ast.Constant) and e.value is False)]
            if bad:
                r.fail(f.qualname, f"reset-request:{norm_text(n)[:40]}", f.file, n.lineno, f"{f.cls.name + '.' if f.cls else ''}{f.name}", f"`{norm_text(n)}` asks Set_Iter to reset the internal variables: with the history solver the stored maximum of the driving energy is replaced by the instantaneous one, so a query after an unloading lowers the history and the damage heals")
            else:
                r.ok(f"{f.qualname}: {norm_text(n)}")


def degenerate_projector_rule(ctx):
    """R17.12: 'including zero strain, hydrostatic, uniaxial and other states with repeated principal values ... the
    spectral projectors agree with an independent eigen-decomposition': the 3-D closed-form eigen-decomposition is
    interpreted in exact arithmetic on tensors Q diag(a, b, c) Q^T with a rational rotation Q and every pattern of
    repeated eigenvalues (two equal largest, two equal smallest, three equal, zero), several Gauss points of different
    patterns in ONE element.  The returned eigenvalues are (a, b, c) sorted; the returned matrices are symmetric
    idempotents of trace one, mutually orthogonal, summing to the identity, and sum_i lambda_i M_i is the tensor: the
    projectors on an orthonormal eigenbasis (an independent characterisation, no eigen-solver involved)."""
    from ..femodel import Model, FeV
    from ..alg import MQ

    repo = ctx.repo
    ci = repo.cls(PFM)
    f = ci.methods["_Eigen_values_vectors_projectors"]
    r = ctx.rule("R17.12", "3-D closed-form eigen-decomposition on exact degenerate states (rational rotation of diag(a, b, c), every repetition pattern, mixed patterns inside one element): eigenvalues sorted, M_i symmetric rank-one orthogonal idempotents with sum_i lambda_i M_i == tensor", min_instances=4)
    Qm = [[Q(2, 3), Q(-2, 3), Q(1, 3)], [Q(2, 3), Q(1, 3), Q(-2, 3)], [Q(1, 3), Q(2, 3), Q(2, 3)]]
    Id = [[Q(1) if i == j else Q(0) for j in range(3)] for i in range(3)]
    s2 = MQ.sqrt(2)

    def tensor(d, rot):
        R = Qm if rot else Id
        return [[sum((R[i][k] * d[k] * R[j][k] for k in range(3)), Q(0)) for j in range(3)] for i in range(3)]

    def kelvin(T):
        return [T[0][0], T[1][1], T[2][2], T[1][2] * s2, T[0][2] * s2, T[0][1] * s2]

    batches = [
        ("two equal largest / two equal smallest / three equal", [([-1, 2, 2], True), ([1, 1, 4], True), ([3, 3, 3], False)]),
        ("uniaxial / zero / two equal smallest negative", [([5, 0, 0], True), ([0, 0, 0], False), ([-2, -2, 1], True)]),
        # uniaxial states along each GLOBAL axis (the double eigen-plane is a coordinate plane: one column of its projector is zero)
        ("uniaxial tension along x / y / z", [([5, 0, 0], False), ([0, 5, 0], False), ([0, 0, 5], False)]),
        ("uniaxial compression along x / y / z", [([-5, 0, 0], False), ([0, -5, 0], False), ([0, 0, -5], False)]),
    ]
    for label, pts in batches:
        r.instance(fn=f.qualname)
        M = Model(repo, max_steps=200_000_000)
        nP = len(pts)
        vecs = [kelvin(tensor([Q(x) for x in d], rot)) for d, rot in pts]
        eps = FeV((1, nP, 6), [x for v in vecs for x in v])
        mat = SimpleNamespace(dim=3, coef=s2)
        obj = XObj(ci, {ci.mangle("__material"): mat, "dim": 3})
        M.user_call_hook = lambda fn, args, kwargs: Sink() if getattr(fn, "name", "") == "Tic" else NotImplemented
        try:
            vals, list_m, list_M = M.I.call_function(f, [eps], self_obj=obj)
        except XRaise as e:
            r.fail(f.qualname, f"degenerate:{label}", f.file, f.lineno, "_Eigen_values_vectors_projectors", f"{label}: raises {e}")
            continue
        except Uninterpretable as e:
            if "division by zero" in str(e):
                # an exact 0 / 0 (or x / 0) between arrays: numpy does not raise, it returns NaN / inf
                r.fail(f.qualname, f"degenerate:{label}", f.file, f.lineno, "_Eigen_values_vectors_projectors", f"one element, Gauss points {label}: {str(e).split(': ', 1)[0]}: an exact division by zero (NaN in floating point): the eigenprojectors, hence the split stiffness, stress and energy, are not finite at that state")
                continue
            raise
        vals = XArray.from_nested(vals)
        Ms = [XArray.from_nested(m) for m in list_M]
        bad = None

        def num(x):
            x = exact_num(x)
            return x

        for p, (d, rot) in enumerate(pts):
            T = tensor([Q(x) for x in d], rot)
            want = sorted(Q(x) for x in d)
            got = [num(vals[0, p, k]) for k in range(3)]
            if any(not is_zero(MQ.of(g) - MQ.of(w)) for g, w in zip(got, want)):
                bad = f"point {p} (eigenvalues {want}): returned eigenvalues {got}"
                break
            Mp = [[[num(Mi[0, p, i, j]) for j in range(3)] for i in range(3)] for Mi in Ms]
            zero = lambda x: is_zero(MQ.of(x)) if not isinstance(x, MQ) else x.is_zero()
            mm = lambda A, B: [[sum((MQ.of(A[i][k]) * MQ.of(B[k][j]) for k in range(3)), MQ.of(0)) for j in range(3)] for i in range(3)]
            for a in range(3):
                tr = sum((MQ.of(Mp[a][i][i]) for i in range(3)), MQ.of(0))
                AA = mm(Mp[a], Mp[a])
                if not zero(tr - MQ.of(1)):
                    bad = f"point {p} (eigenvalues {want}): trace(M{a + 1}) = {tr}, a projector on one eigenvector has trace 1"
                elif any(not zero(MQ.of(Mp[a][i][j]) - MQ.of(Mp[a][j][i])) for i in range(3) for j in range(3)):
                    bad = f"point {p}: M{a + 1} is not symmetric"
                elif any(not zero(AA[i][j] - MQ.of(Mp[a][i][j])) for i in range(3) for j in range(3)):
                    bad = f"point {p} (eigenvalues {want}): M{a + 1} is not idempotent (M{a + 1}^2 != M{a + 1}): it is not a projector on an eigenvector"
                for b in range(a + 1, 3):
                    AB = mm(Mp[a], Mp[b])
                    if bad is None and any(not zero(AB[i][j]) for i in range(3) for j in range(3)):
                        bad = f"point {p} (eigenvalues {want}): M{a + 1} M{b + 1} != 0"
                if bad:
                    break
            if bad:
                break
            for i in range(3):
                for j in range(3):
                    tot = sum((MQ.of(got[a]) * MQ.of(Mp[a][i][j]) for a in range(3)), MQ.of(0))
                    one = sum((MQ.of(Mp[a][i][j]) for a in range(3)), MQ.of(0))
                    if bad is None and not zero(tot - MQ.of(T[i][j])):
                        bad = f"point {p} (eigenvalues {want}): sum_i lambda_i M_i differs from the tensor at ({i},{j})"
                    if bad is None and not zero(one - MQ.of(Id[i][j])):
                        bad = f"point {p}: the projectors do not sum to the identity"
        if bad:
            r.fail(f.qualname, f"degenerate:{label}", f.file, f.lineno, "_Eigen_values_vectors_projectors", f"one element, Gauss points {label}: {bad}: the positive / negative parts built from these projectors are wrong at that state")
        else:
            r.ok(f"{label}: eigenvalues and rank-one orthogonal projectors exact at every point")


def exact_num(x):
    from ..xeval import exact
    from ..alg import MQ

    x = exact(x)
    if isinstance(x, Poly) and x.is_const():
        x = x.const_value()
    return x


def degenerate_derivative_rule(ctx):
    """R17.13: the spectral projector tensor projP returned for a 3-D tensor is the derivative of the positive part
    eps -> eps^+ (Kelvin-Mandel 6x6): D[X] = sum_ab gamma_ab (n_a . X n_b) n_a (x) n_b with gamma_aa = H(lambda_a),
    gamma_ab = (lambda_a^+ - lambda_b^+) / (lambda_a - lambda_b) and its limit H(lambda_a) for a repeated eigenvalue --
    computed here from the known eigenvectors of Q diag(a, b, c) Q^T, and compared entry by entry with the interpreted
    __Spectral_Decomposition on states with every repetition pattern (positive, negative and zero repeated values)."""
    from ..femodel import Model, FeV
    from ..alg import MQ

    repo = ctx.repo
    ci = repo.cls(PFM)
    f = repo.lookup_method(ci, ci.mangle("__Spectral_Decomposition"))
    r = ctx.rule("R17.13", "3-D projP == d(eps^+)/d(eps) in Kelvin-Mandel form on exact degenerate and generic-integer states (repeated positive / negative / zero eigenvalues), projP + projM == identity", min_instances=2)
    Qm = [[Q(2, 3), Q(-2, 3), Q(1, 3)], [Q(2, 3), Q(1, 3), Q(-2, 3)], [Q(1, 3), Q(2, 3), Q(2, 3)]]
    Id = [[Q(1) if i == j else Q(0) for j in range(3)] for i in range(3)]
    s2 = MQ.sqrt(2)
    pos = lambda x: x if x > 0 else Q(0)
    H = lambda x: Q(1) if x > 0 else Q(0) if x < 0 else Q(1, 2)

    def kelvin(T):
        return [MQ.of(T[0][0]), MQ.of(T[1][1]), MQ.of(T[2][2]), MQ.of(T[1][2]) * s2, MQ.of(T[0][2]) * s2, MQ.of(T[0][1]) * s2]

    def basis(J):
        T = [[MQ.of(0)] * 3 for _ in range(3)]
        if J < 3:
            T[J][J] = MQ.of(1)
        else:
            i, j = [(1, 2), (0, 2), (0, 1)][J - 3]
            T[i][j] = T[j][i] = MQ.of(1) / s2
        return T

    def reference(d, R):
        n = [[R[i][a] for i in range(3)] for a in range(3)]  # eigenvectors: columns of R
        cols = []
        for J in range(6):
            X = basis(J)
            Y = [[MQ.of(0)] * 3 for _ in range(3)]
            for a in range(3):
                for b in range(3):
                    gam = H(d[a]) if d[a] == d[b] else (pos(d[a]) - pos(d[b])) / (d[a] - d[b])
                    if gam == 0:
                        continue
                    c = sum((MQ.of(n[a][i]) * X[i][j] * MQ.of(n[b][j]) for i in range(3) for j in range(3)), MQ.of(0)) * gam
                    for i in range(3):
                        for j in range(3):
                            Y[i][j] = Y[i][j] + c * (n[a][i] * n[b][j])
            cols.append(kelvin(Y))
        return [[cols[J][I] for J in range(6)] for I in range(6)]

    batches = [
        ("repeated positive largest / repeated positive smallest / three equal positive", [([-1, 2, 2], True), ([1, 1, 4], True), ([3, 3, 3], False)]),
        ("uniaxial tension / uniaxial compression with equal positive laterals / repeated negative", [([5, 0, 0], True), ([-10, 3, 3], True), ([-2, -2, 1], True)]),
    ]
    for label, pts in batches:
        r.instance(fn=f.qualname)
        M = Model(repo, max_steps=400_000_000)
        nP = len(pts)
        vecs = []
        for d, rot in pts:
            R = Qm if rot else Id
            T = [[sum((R[i][k] * Q(d[k]) * R[j][k] for k in range(3)), Q(0)) for j in range(3)] for i in range(3)]
            vecs.append(kelvin(T))
        eps = FeV((1, nP, 6), [x.rational() if x.is_rational() else x for v in vecs for x in v])
        mat = SimpleNamespace(dim=3, coef=s2)
        obj = XObj(ci, {ci.mangle("__material"): mat, "dim": 3})
        M.user_call_hook = lambda fn, args, kwargs: Sink() if getattr(fn, "name", "") == "Tic" else NotImplemented
        try:
            projP, projM = M.I.call_function(f, [eps], self_obj=obj)
        except XRaise as e:
            r.fail(f.qualname, f"derivative:{label}", f.file, f.lineno, "__Spectral_Decomposition", f"{label}: raises {e}")
            continue
        projP, projM = XArray.from_nested(projP), XArray.from_nested(projM)
        bad = None
        for p, (d, rot) in enumerate(pts):
            ref = reference([Q(x) for x in d], Qm if rot else Id)
            for I in range(6):
                for J in range(6):
                    g = MQ.of(exact_num(projP[0, p, I, J]))
                    if bad is None and not (g - ref[I][J]).is_zero():
                        bad = f"point {p} (eigenvalues {sorted(d)}): projP[{I}][{J}] = {g}, the derivative of the positive part is {ref[I][J]}"
                    s = g + MQ.of(exact_num(projM[0, p, I, J]))
                    if bad is None and not (s - MQ.of(1 if I == J else 0)).is_zero():
                        bad = f"point {p}: projP + projM is not the identity at ({I},{J})"
        if bad:
            r.fail(f.qualname, f"derivative:{label}", f.file, f.lineno, "__Spectral_Decomposition", f"one element, Gauss points {label}: {bad}")
        else:
            r.ok(f"{label}: projP == d eps^+ / d eps at every point")


def inverse_trig_domain_rule(ctx):
    """R17.14: 'the positive and negative parts are finite': an inverse cosine / sine of a COMPUTED ratio (mathematically in
    [-1, 1], pushed outside by round-off exactly at the degenerate states the property names) returns NaN; in the
    phase-field model every argument of np.arccos / np.arcsin is clipped to [-1, 1] on every path to the call (the
    argument is an np.clip(...) expression, or a variable whose last write before the call is np.clip(..., out=var) /
    var = np.clip(var, ...))."""
    repo = ctx.repo
    r = ctx.rule("R17.14", "phase-field model: the argument of every np.arccos / np.arcsin is clipped to [-1, 1] immediately before the call (round-off at repeated eigenvalues cannot produce NaN)", min_instances=1)
    mod = repo.module("EasyFEA.Models._phasefield")
    for f in sorted(repo.all_functions(), key=lambda f: f.qualname):
        if f.module is not mod:
            continue
        body_stmts = list(ast.walk(f.node))
        for n in body_stmts:
            if not (isinstance(n, ast.Call) and (dotted(n.func) or "").split(".")[-1] in ("arccos", "arcsin") and n.args):
                continue
            r.instance(fn=f.qualname)
            a = n.args[0]

            # interval of the argument when control reaches the call (sa/intervals.py: clip / minimum-maximum / where /
            # masked stores / out= are all seen as what they do, whatever the idiom)
            lo, hi = range_at(f.node, a, n)
            ok = lo >= -1.0 and hi <= 1.0
            if ok:
                r.ok(f"{f.qualname}: {norm_text(n)[:50]} argument clipped")
            else:
                r.fail(f.qualname, f"unclipped:{norm_text(n)[:40]}", f.file, n.lineno, f"{(f.cls.name + '.') if f.cls else ''}{f.name}", f"`{norm_text(n)[:60]}`: the argument is a computed ratio that equals +-1 at repeated eigenvalues and is not clipped to [-1, 1] before the call: round-off gives NaN for uniaxial and other degenerate states")


def _plane_setup(repo):
    from ..alg import MQ

    R2 = [[Q(3, 5), Q(-4, 5)], [Q(4, 5), Q(3, 5)]]
    I2 = [[Q(1), Q(0)], [Q(0), Q(1)]]
    s2 = MQ.sqrt(2)

    def tensor(d, rot):
        R = R2 if rot else I2
        return [[sum((R[i][k] * d[k] * R[j][k] for k in range(2)), Q(0)) for j in range(2)] for i in range(2)]

    def kelvin(T):
        return [MQ.of(T[0][0]), MQ.of(T[1][1]), MQ.of(T[0][1]) * s2]

    return R2, I2, s2, tensor, kelvin


def plane_degenerate_rule(ctx):
    """R17.15 / R17.16: the 2-D closed-form decomposition (eigenvalues from trace and determinant, M1 = (T - v2 I) / (v1 - v2))
    on exact states with a repeated eigenvalue (equibiaxial tension / compression, zero) next to generic states in ONE
    element: (R17.15) eigenvalues sorted, M1, M2 symmetric orthogonal idempotents of trace one with sum lambda_i M_i == T;
    (R17.16) projP == d(eps^+)/d(eps) as a 3x3 Kelvin-Mandel matrix -- for a repeated eigenvalue v the derivative is
    H(v) * Identity INCLUDING its shear entry -- and projP + projM == Identity."""
    from ..femodel import Model, FeV
    from ..alg import MQ

    repo = ctx.repo
    ci = repo.cls(PFM)
    f1 = ci.methods["_Eigen_values_vectors_projectors"]
    f2 = repo.lookup_method(ci, ci.mangle("__Spectral_Decomposition"))
    r1 = ctx.rule("R17.15", "2-D closed-form eigen-decomposition on exact degenerate states (equibiaxial, zero) mixed with generic ones in one element: eigenvalues sorted, M_i symmetric rank-one orthogonal idempotents, sum_i lambda_i M_i == tensor", min_instances=2)
    r2 = ctx.rule("R17.16", "2-D projP == d(eps^+)/d(eps) in Kelvin-Mandel form (a repeated eigenvalue v: H(v) * Identity, shear entry included), projP + projM == identity", min_instances=2)
    R2, I2, s2, tensor, kelvin = _plane_setup(repo)
    pos = lambda x: x if x > 0 else Q(0)
    H = lambda x: Q(1) if x > 0 else Q(0) if x < 0 else Q(1, 2)
    zero = lambda x: (x if isinstance(x, MQ) else MQ.of(x)).is_zero()

    def basis(J):
        T = [[MQ.of(0)] * 2 for _ in range(2)]
        if J < 2:
            T[J][J] = MQ.of(1)
        else:
            T[0][1] = T[1][0] = MQ.of(1) / s2
        return T

    def reference(d, R):
        n = [[R[i][a] for i in range(2)] for a in range(2)]
        cols = []
        for J in range(3):
            X = basis(J)
            Y = [[MQ.of(0)] * 2 for _ in range(2)]
            for a in range(2):
                for b in range(2):
                    gam = H(d[a]) if d[a] == d[b] else (pos(d[a]) - pos(d[b])) / (d[a] - d[b])
                    if gam == 0:
                        continue
                    c = sum((MQ.of(n[a][i]) * X[i][j] * MQ.of(n[b][j]) for i in range(2) for j in range(2)), MQ.of(0)) * gam
                    for i in range(2):
                        for j in range(2):
                            Y[i][j] = Y[i][j] + c * (n[a][i] * n[b][j])
            cols.append(kelvin(Y))
        return [[cols[J][I] for J in range(3)] for I in range(3)]

    batches = [
        ("equibiaxial tension / generic / equibiaxial compression", [([2, 2], False), ([-1, 3], True), ([-3, -3], False)]),
        ("zero / generic positive / equibiaxial tension", [([0, 0], False), ([1, 6], True), ([5, 5], False)]),
    ]
    for label, pts in batches:
        nP = len(pts)
        vecs = [kelvin(tensor([Q(x) for x in d], rot)) for d, rot in pts]
        data = [x.rational() if x.is_rational() else x for v in vecs for x in v]
        mat = SimpleNamespace(dim=2, coef=s2)
        for which, f, r in (("eig", f1, r1), ("proj", f2, r2)):
            r.instance(fn=f.qualname)
            M = Model(repo, max_steps=200_000_000)
            M.user_call_hook = lambda fn, args, kwargs: Sink() if getattr(fn, "name", "") == "Tic" else NotImplemented
            obj = XObj(ci, {ci.mangle("__material"): mat, "dim": 2})
            eps = FeV((1, nP, 3), list(data))
            try:
                out = M.I.call_function(f, [eps], self_obj=obj)
            except XRaise as e:
                r.fail(f.qualname, f"plane:{label}", f.file, f.lineno, f.name, f"{label}: raises {e}")
                continue
            bad = None
            if which == "eig":
                vals, list_m, list_M = out
                vals = XArray.from_nested(vals)
                Ms = [XArray.from_nested(m) for m in list_M]
                for p, (d, rot) in enumerate(pts):
                    T = tensor([Q(x) for x in d], rot)
                    want = sorted(Q(x) for x in d)
                    got = [exact_num(vals[0, p, k]) for k in range(2)]
                    if any(not zero(MQ.of(g) - MQ.of(w)) for g, w in zip(got, want)):
                        bad = f"point {p} (eigenvalues {want}): returned eigenvalues {got}"
                        break
                    Mp = [[[MQ.of(exact_num(Mi[0, p, i, j])) for j in range(2)] for i in range(2)] for Mi in Ms]
                    mm = lambda A, B: [[sum((A[i][k] * B[k][j] for k in range(2)), MQ.of(0)) for j in range(2)] for i in range(2)]
                    for a in range(2):
                        AA = mm(Mp[a], Mp[a])
                        if not zero(Mp[a][0][0] + Mp[a][1][1] - MQ.of(1)):
                            bad = f"point {p} (eigenvalues {want}): trace(M{a + 1}) != 1"
                        elif not zero(Mp[a][0][1] - Mp[a][1][0]):
                            bad = f"point {p}: M{a + 1} is not symmetric"
                        elif any(not zero(AA[i][j] - Mp[a][i][j]) for i in range(2) for j in range(2)):
                            bad = f"point {p} (eigenvalues {want}): M{a + 1} is not idempotent"
                    AB = mm(Mp[0], Mp[1])
                    if bad is None and any(not zero(AB[i][j]) for i in range(2) for j in range(2)):
                        bad = f"point {p} (eigenvalues {want}): M1 M2 != 0"
                    for i in range(2):
                        for j in range(2):
                            tot = sum((MQ.of(got[a]) * Mp[a][i][j] for a in range(2)), MQ.of(0))
                            if bad is None and not zero(tot - MQ.of(T[i][j])):
                                bad = f"point {p} (eigenvalues {want}): sum_i lambda_i M_i differs from the tensor at ({i},{j})"
                    if bad:
                        break
            else:
                projP, projM = XArray.from_nested(out[0]), XArray.from_nested(out[1])
                for p, (d, rot) in enumerate(pts):
                    ref = reference([Q(x) for x in d], R2 if rot else I2)
                    for I_ in range(3):
                        for J in range(3):
                            g = MQ.of(exact_num(projP[0, p, I_, J]))
                            if bad is None and not (g - ref[I_][J]).is_zero():
                                bad = f"point {p} (eigenvalues {sorted(d)}): projP[{I_}][{J}] = {g}, the derivative of the positive part is {ref[I_][J]}"
                            s = g + MQ.of(exact_num(projM[0, p, I_, J]))
                            if bad is None and not (s - MQ.of(1 if I_ == J else 0)).is_zero():
                                bad = f"point {p}: projP + projM is not the identity at ({I_},{J})"
            if bad:
                r.fail(f.qualname, f"plane:{label}", f.file, f.lineno, f.name, f"one 2-D element, Gauss points {label}: {bad}: the split stiffness / positive stress built from it is wrong at that state")
            else:
                r.ok(f"2-D {label}: exact at every point")


def sqrt_domain_rule(ctx):
    """R17.17: 'the positive and negative parts are finite': a square root of a COMPUTED difference that is mathematically
    non-negative (a discriminant: tr^2 - 4 det = (v1 - v2)^2, I1^2 - 3 I2) is slightly negative by round-off exactly at the
    repeated-eigenvalue states the property names, and np.sqrt returns NaN.  In the phase-field model the argument of
    every np.sqrt whose defining expression (through the local definitions) has a subtraction at its top is clamped
    (np.maximum(., 0) / np.clip(., 0, .) / np.abs) on the way to the call."""
    from ..flow import Locals

    repo = ctx.repo
    r = ctx.rule("R17.17", "phase-field model: a square root of a computed difference (discriminant) is clamped at zero before np.sqrt (round-off at equal eigenvalues cannot produce NaN)", min_instances=2)
    mod = repo.module("EasyFEA.Models._phasefield")

    def tail(e):
        return (dotted(e.func) or "").split(".")[-1] if isinstance(e, ast.Call) else ""

    for f in sorted(repo.all_functions(), key=lambda f: f.qualname):
        if f.module is not mod:
            continue
        stmts = [s for s in ast.walk(f.node) if isinstance(s, ast.Assign) and len(s.targets) == 1 and isinstance(s.targets[0], ast.Name)]
        for n in ast.walk(f.node):
            if not (isinstance(n, ast.Call) and tail(n) == "sqrt" and n.args):
                continue
            a = n.args[0]
            if isinstance(a, ast.Constant):
                continue
            r.instance(fn=f.qualname)
            # walk back through the assignments to the variable that precede the call (source order, same function)
            verdict = None
            cur = a
            seen = 0
            while verdict is None and seen < 8:
                seen += 1
                if isinstance(cur, ast.Call) and tail(cur) in ("maximum", "clip", "abs", "fabs", "absolute"):
                    verdict = "clamped"
                elif isinstance(cur, ast.Call) and tail(cur) in ("asarray", "array", "asfearray") and cur.args:
                    cur = cur.args[0]
                elif isinstance(cur, ast.BinOp) and isinstance(cur.op, ast.Sub):
                    verdict = "difference"
                elif isinstance(cur, ast.Name):
                    prev = [s for s in stmts if s.targets[0].id == cur.id and s.lineno < n.lineno]
                    if not prev:
                        verdict = "opaque"
                    else:
                        cur = sorted(prev, key=lambda s: s.lineno)[-1].value
                else:
                    verdict = "opaque"
            if verdict == "difference" and range_at(f.node, a, n)[0] >= 0.0:
                verdict = "non-negative by the local definitions"  # a clamp written another way (masked store, where, ...)
            if verdict == "difference":
                r.fail(f.qualname, f"unclamped-sqrt:{norm_text(a)[:30]}", f.file, n.lineno, f"{(f.cls.name + '.') if f.cls else ''}{f.name}", f"`{norm_text(n)[:50]}`: the argument is the computed difference `{norm_text(cur)[:60]}`, non-negative only in exact arithmetic: at (nearly) equal eigenvalues round-off makes it negative and the square root is NaN (equibiaxial / hydrostatic states)")
            else:
                r.ok(f"{f.qualname}: {norm_text(n)[:40]} ({verdict})")


def history_protocol_rule(ctx, rid="R17.19"):
    """'Along any loading history the driving (history) energy at each integration point never decreases' / 'restoring
    iteration i brings back the internal variables': the history protocol of the phase-field simulation is INTERPRETED.
    `__Calc_psiPlus_e_pg`, `Save_Iter`, `Set_Iter(resetAll=True)` and `_Update(mesh event)` are run on a simulation object
    with one element group and two integration points, the energy split replaced by a table of exact values; a reference
    history (committed field H_c; a trial evaluation returns max(psi, H_c) and commits nothing; Save_Iter commits the last
    evaluation) is advanced beside it.  Scenarios: trial evaluations between commits, a commit after a mesh event, a
    restore of an earlier iteration followed by a further evaluation."""
    from ..femchain import fe_hook_full, XFe

    repo = ctx.repo
    ps = repo.cls(PFS)
    simu = repo.cls("EasyFEA.Simulations._simu._Simu")
    mesh_ci = repo.cls("EasyFEA.FEM._mesh.Mesh")
    r = ctx.rule(rid, "history protocol interpreted: a trial evaluation returns max(psi, committed history) and commits nothing, Save_Iter commits the last evaluation, the committed field never decreases (also when the mesh is moved between the solve and the commit), Set_Iter(i, resetAll=True) rebuilds the history of iteration i, Set_Iter without resetAll leaves it alone", min_instances=4)
    fCalc = repo.lookup_method(ps, ps.mangle("__Calc_psiPlus_e_pg"))
    fSave, fSet, fUpd = ps.methods["Save_Iter"], ps.methods["Set_Iter"], repo.lookup_method(ps, "_Update")
    V = lambda a, b: XArray((1, 2), [Q(a), Q(b)])

    def scenario(label, ops):
        r.instance(fn=fCalc.qualname)
        g = XObj(repo.cls("EasyFEA.FEM._group_elem._GroupElem"), {"Ne": 1})
        cur = {"psi": None}
        solver_types = SimpleNamespace(History="History", HistoryDamage="HistoryDamage", BoundConstrain="BoundConstrain")
        pfm = SimpleNamespace(solver="History", SolverType=solver_types, Calc_psi_e_pg=lambda eps: (XFe(cur["psi"].shape, list(cur["psi"].data)), None))
        mesh = XObj(mesh_ci, {"Nn": 2, "Get_list_groupElem": lambda d=None: [g]})
        obj = XObj(ps, {
            "phaseFieldModel": pfm, "model": pfm, "mesh": mesh, "dim": 1,
            "displacement": XArray((2,), [Q(0), Q(0)]), "damage": XArray((2,), [Q(0), Q(0)]),
            "_Calc_Epsilon_e_pg": lambda *a, **k: Opaque("eps"), "_Check_dim_mesh_material": lambda *a, **k: None,
            "_Set_solutions": lambda *a, **k: None, "Need_Update": lambda *a, **k: None,
            "ProblemTypes": SimpleNamespace(damage="damage", elastic="elastic"),
            ps.mangle("__psiP_e_pg"): {}, ps.mangle("__old_psiP_e_pg"): {},
            ps.mangle("__Niter"): 0, ps.mangle("__timeIter"): 0, ps.mangle("__convIter"): 0,
            ps.mangle("__updatedDamage"): True, ps.mangle("__updatedDisplacement"): True,
        })

        def hook(fn, args, kwargs):
            fi = fn.finfo if isinstance(fn, _Bound) else (fn if isinstance(fn, FuncInfo) else None)
            if fi is not None and fi.cls is simu and fi.name == "Save_Iter":
                return None
            if fi is not None and fi.cls is simu and fi.name == "Set_Iter":
                return {"damage": XArray((2,), [Q(0), Q(0)]), "displacement": XArray((2,), [Q(0), Q(0)])}
            if fi is not None and fi.name in ("clear_cached_computed_values",):
                return None
            return fe_hook_full(fn, args, kwargs)

        I = Interp(repo, extra_builtins={"Terminal": Sink()})
        I.call_hook = hook
        Hc = None  # committed reference history
        last = None
        floor = None  # every committed value so far (the field may never fall below it)
        for k, (op, val) in enumerate(ops):
            where = f"{label}: step {k + 1} ({op}{'' if val is None else ' ' + str([int(x) for x in val.data])})"
            try:
                if op == "eval":
                    cur["psi"] = val
                    got = XArray.from_nested(I.call_function(fCalc, [g], self_obj=obj))
                    want = [max(a, b) for a, b in zip(val.data, Hc.data)] if Hc is not None else list(val.data)
                    last = XArray(val.shape, want)
                    if list(got.data) != want:
                        low = floor is not None and any(a < b for a, b in zip(got.data, floor.data))
                        r.fail(fCalc.qualname, f"history:{label}", fCalc.file, fCalc.lineno, "PhaseField.__Calc_psiPlus_e_pg", f"{where}: the driving energy is {[str(x) for x in got.data]}, the reference history gives max(psi, committed) = {[str(x) for x in want]}" + (": it DECREASES below a committed value (the damage heals)" if low else ": an evaluation that was never committed, or a later iteration, has entered the history"))
                        return
                elif op == "save":
                    I.call_function(fSave, [], self_obj=obj)
                    if last is not None:
                        Hc = last
                        floor = Hc if floor is None else XArray(Hc.shape, [max(a, b) for a, b in zip(Hc.data, floor.data)])
                elif op == "mesh-event":
                    I.call_function(fUpd, [mesh, "The mesh has been modified"], self_obj=obj)
                elif op == "reactivate":
                    # Set_Iter(-1) with the default resetAll=False (what Result(..., iter=k) and a roll-back before a retried
                    # step do): the committed history stays what it is
                    I.call_function(fSet, [-1], {}, self_obj=obj)
                elif op == "restore":
                    cur["psi"] = val
                    I.call_function(fSet, [0], {"resetAll": True}, self_obj=obj)
                    Hc = XArray(val.shape, list(val.data))  # the history that was current when that iteration was saved (monotone loading up to it)
                    last = Hc
                    floor = None
            except XRaise as e:
                r.fail(fCalc.qualname, f"history:{label}", fCalc.file, fCalc.lineno, "PhaseField", f"{where}: raises {e}")
                return
        r.ok(f"{label}: {len(ops)} steps agree with the reference history")

    scenario("trial evaluations between commits", [("eval", V(4, 1)), ("save", None), ("eval", V(2, 5)), ("eval", V(1, 1)), ("eval", V(6, 0)), ("save", None), ("eval", V(0, 0)), ("save", None), ("eval", V(5, 2))])
    scenario("first step, nothing committed yet", [("eval", V(3, 3)), ("eval", V(1, 2)), ("save", None), ("eval", V(0, 5))])
    scenario("mesh moved between the solve and the commit", [("eval", V(4, 1)), ("save", None), ("eval", V(2, 5)), ("mesh-event", None), ("save", None), ("eval", V(1, 1))])
    scenario("current iteration re-activated (Set_Iter(-1), resetAll left False) during an unloading", [("eval", V(4, 1)), ("save", None), ("eval", V(6, 7)), ("save", None), ("reactivate", None), ("eval", V(1, 1)), ("save", None), ("reactivate", None), ("eval", V(0, 9)), ("save", None), ("eval", V(2, 2))])
    scenario("restore of an earlier iteration, then a further step", [("eval", V(4, 1)), ("save", None), ("eval", V(6, 7)), ("save", None), ("restore", V(4, 1)), ("eval", V(1, 1)), ("save", None), ("eval", V(5, 0))])
