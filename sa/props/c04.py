"""C04 -- constraints hold and the returned solution solves the stated system:
the elimination solver interpreted on a block-labelled system; partition of
dofs; duplicate convention; orphan diagonal; solver dispatch."""

from __future__ import annotations

import ast

from ..alg import is_zero, Lin, Q
from ..repo import AnalysisError, dotted, norm_text, walk_no_nested, FuncInfo
from ..xeval import Interp, XObj, Opaque, Sink, Uninterpretable, XRaise
from types import SimpleNamespace

SOLV = "EasyFEA.Simulations.Solvers"
SIMU = "EasyFEA.Simulations._simu._Simu"


class Sel:
    _xeval_open = True

    def __init__(self, name):
        self.name = name

    def __eq__(self, o):
        return isinstance(o, Sel) and o.name == self.name

    def __hash__(self):
        return hash(self.name)

    def __repr__(self):
        return self.name


def _selname(k):
    if isinstance(k, Sel):
        return k.name
    if isinstance(k, slice) and k == slice(None):
        return ":"
    if isinstance(k, slice) and (isinstance(k.start, SizeOf) or isinstance(k.stop, SizeOf)) and k.step is None:
        # a leading / trailing block cut by the SIZE of another index set: positions, not the dofs of that set
        return "positions[" + ("" if k.start is None else repr(k.start)) + ":" + ("" if k.stop is None else repr(k.stop)) + "]"
    if isinstance(k, SizeOf):
        raise AnalysisError(f"unsupported selector {k!r}")
    if k == 0:
        return "0"
    raise AnalysisError(f"unsupported selector {k!r}")


class SizeOf:
    """the number of entries of a restricted vector: a symbolic size"""

    _xeval_open = True

    def __init__(self, rows):
        self.rows = rows

    def __repr__(self):
        return f"len({self.rows})"

    def __eq__(self, o):
        return isinstance(o, SizeOf) and o.rows == self.rows

    def __hash__(self):
        return hash(("SizeOf", self.rows))


class SMat:
    _xeval_open = True

    def __init__(self, name, rows=":", cols=":"):
        self.name, self.rows, self.cols = name, rows, cols

    def __getitem__(self, key):
        if not isinstance(key, tuple):
            key = (key, slice(None))
        r, c = _selname(key[0]), _selname(key[1])
        rows, cols = self.rows, self.cols
        if r != ":":
            if rows != ":":
                raise AnalysisError("row selection applied twice")
            rows = r
        if c != ":":
            if cols != ":":
                raise AnalysisError("column selection applied twice")
            cols = c
        return SMat(self.name, rows, cols)

    def tocsc(self):
        return self

    tocsr = tolil = tocsc

    @property
    def has_canonical_format(self):
        return True

    def __matmul__(self, v):
        if not isinstance(v, SVec):
            raise AnalysisError("matrix @ non-vector")
        out = {}
        for a, c in v.lin.t.items():
            name, rows = a
            if rows != self.cols:
                raise AnalysisError(f"{self!r} @ vector restricted to {rows}: index sets do not match")
            out[(f"{self.name}[{self.rows},{self.cols}]@{name}[{rows}]", self.rows)] = c
        return SVec(Lin(out), self.rows)

    def __repr__(self):
        return f"{self.name}[{self.rows},{self.cols}]"


class SVec:
    _xeval_open = True

    def __init__(self, lin, rows=":", parts=None):
        self.lin, self.rows = lin, rows
        self.parts = parts  # for the assembled global vector: {sel: SVec}

    @staticmethod
    def atom(name, rows=":"):
        return SVec(Lin({(name, rows): Q(1)}), rows)

    def __getitem__(self, key):
        if isinstance(key, tuple):
            key = key[0] if _selname(key[1]) in ("0", ":") else key
        r = _selname(key)
        if self.parts is not None and r in self.parts:
            return self.parts[r]
        if self.rows != ":":
            raise AnalysisError("vector restricted twice")
        out = {}
        for (name, rows), c in self.lin.t.items():
            out[(name, r)] = c
        return SVec(Lin(out), r)

    def __setitem__(self, key, value):
        r = _selname(key)
        if self.parts is None:
            self.parts = {}
        self.parts[r] = value

    def __sub__(self, o):
        if self.rows != o.rows:
            raise AnalysisError(f"vectors on different index sets: {self.rows} - {o.rows}")
        return SVec(self.lin - o.lin, self.rows)

    def __add__(self, o):
        if self.rows != o.rows:
            raise AnalysisError("vectors on different index sets")
        return SVec(self.lin + o.lin, self.rows)

    def toarray(self):
        return self

    def reshape(self, *a):
        return self

    def ravel(self):
        return self

    @property
    def size(self):
        return SizeOf(self.rows)

    @property
    def shape(self):
        return (Opaque("n"), 1)

    def __repr__(self):
        return " + ".join(f"{c}*{n}[{r}]" for (n, r), c in self.lin.t.items()) or "0"


class BVec(SVec):
    """a non-empty dof-sized vector (bounds)"""

    @staticmethod
    def atom(name, rows=":"):
        return BVec(Lin({(name, rows): Q(1)}), rows)

    def __len__(self):
        return 7

    @property
    def size(self):
        return 7

    def __getitem__(self, key):
        v = SVec.__getitem__(self, key)
        return BVec(v.lin, v.rows)


class Solved(SVec):
    def __init__(self, A, b):
        super().__init__(Lin({(f"solve({A!r}; {b!r})", A.rows): Q(1)}), A.rows)
        self.A, self.b = A, b


def elimination_rule(ctx, rid="R4.1"):
    repo = ctx.repo
    r = ctx.rule(rid, "elimination solver: x[U] = solve(A[U,U], b[U] - A[U,K] x[K]), x[K] kept, with (K,U) in the order Bc_dofs_known_unknown returns them", min_instances=1)
    mod = repo.module(SOLV)
    f = mod.functions.get("__Solver_1")
    if f is None:
        raise AnalysisError("Solvers.__Solver_1 not found")
    repo.consulted.add(f.file)
    r.instance(fn=f.qualname)
    K, U = Sel("K"), Sel("U")
    A, b, x = SMat("A"), SVec.atom("b"), SVec.atom("xd")
    simu = SimpleNamespace(
        _Solver_Apply_Neumann=lambda pt: b,
        _Solver_Apply_Dirichlet=lambda pt, bb, res: (A, x),
        Bc_dofs_known_unknown=lambda pt: (K, U),
        # the raw Dirichlet list (one entry per prescription, duplicates kept) is a different index set
        Bc_dofs_Dirichlet=lambda pt=None: Sel("Kraw"),
        Get_x0=lambda pt: SVec.atom("x0"),
        Get_lb_ub=lambda pt: ([], []),
        isNonLinear=False,
        _verbosity=False,
    )
    I = Interp(repo, extra_builtins={"MPI_SIZE": 1, "Tic": lambda *a, **k: Sink()})
    solved = []

    extra_ops = []

    def hook(fn, args, kwargs):
        if isinstance(fn, FuncInfo) and fn.name == "_Solve_Axb":
            # arguments by NAME (a call with keywords is the same call, refactored/C01-R5)
            names = [a.arg for a in fn.node.args.args]
            bound = dict(zip(names, args))
            bound.update(kwargs)
            s = Solved(bound.get(names[2]), bound.get(names[3]))
            solved.append(s)
            extra_ops.append(tuple(bound.get(nm) for nm in names[4:7]))
            return s
        return NotImplemented

    I.call_hook = hook
    try:
        res = I.call_function(f, [simu, Opaque("problemType")])
    except (AnalysisError,) as e:
        r.fail(f.qualname, "shape", f.file, f.lineno, "__Solver_1", f"the reduced solve cannot be read as a block elimination: {e}")
        return
    # every dof-sized operand of the reduced solve lives on the unknown dofs: initial guess and, when the backend is
    # the bounded least-squares one, the bounds (given by Get_lb_ub on every dof)
    r.instance(fn=f.qualname)
    solved_main = list(solved)
    simu_b = SimpleNamespace(**vars(simu))
    simu_b.Get_lb_ub = lambda pt: (BVec.atom("lb"), BVec.atom("ub"))
    simu_b._Solver_Apply_Dirichlet = lambda pt, bb, res: (A, SVec.atom("xd"))
    simu_b._Solver_Apply_Neumann = lambda pt: SVec.atom("b")
    n0 = len(extra_ops)
    try:
        I.call_function(f, [simu_b, Opaque("problemType")])
        ops = extra_ops[n0] if len(extra_ops) > n0 else None
    except (AnalysisError,) as e:
        ops = None
        r.fail(f.qualname, "bounds-shape", f.file, f.lineno, "__Solver_1", f"with bounds on every dof the reduced solve cannot be read: {e}")
    if ops is not None:
        badops = [nm for nm, v in zip(("x0", "lb", "ub"), ops) if not (isinstance(v, SVec) and v.rows == "U")]
        if badops:
            r.fail(f.qualname, "operand-not-reduced:" + ",".join(badops), f.file, f.lineno, "__Solver_1", "the reduced system A[U,U] is solved with " + ", ".join(nm + " taken on `" + str(getattr(v, "rows", None)) + "`" for nm, v in zip(("x0", "lb", "ub"), ops) if nm in badops) + " instead of the unknown dofs U: the bounded backend receives the bounds of other dofs (or of the wrong size) as soon as a dof is constrained - the irreversibility bound d >= d_old is applied to the wrong nodes")
        else:
            r.ok("x0, lb, ub are restricted to the unknown dofs before the reduced solve")
    xs = res[0] if isinstance(res, tuple) else res
    problems = []
    if len(solved_main) != 1:
        problems.append(f"{len(solved_main)} linear solves")
    else:
        s = solved_main[0]
        if not (isinstance(s.A, SMat) and (s.A.name, s.A.rows, s.A.cols) == ("A", "U", "U")):
            problems.append(f"system matrix is {s.A!r}, expected A[U,U]")
        want = SVec.atom("b")[U] - (A[U, K] @ SVec.atom("xd")[K])
        if not (isinstance(s.b, SVec) and s.b.rows == "U" and (s.b.lin - want.lin).is_zero()):
            problems.append(f"right-hand side is {s.b!r}, expected b[U] - A[U,K]@xd[K]")
        if not (isinstance(xs, SVec) and xs.parts is not None and xs.parts.get("U") is s):
            problems.append("the solved values are not stored at the unknown dofs of the returned vector")
        elif "K" in (xs.parts or {}):
            problems.append("the known dofs of the returned vector are overwritten")
        elif not (xs.lin - SVec.atom("xd").lin).is_zero():
            problems.append("the returned vector is not the Dirichlet vector completed with the solved values")
    if problems:
        r.fail(f.qualname, "elimination", f.file, f.lineno, "__Solver_1", "; ".join(problems))
    else:
        r.ok("__Solver_1: solve(A[U,U], b[U] - A[U,K]@xd[K]) stored at x[U], x[K] = prescribed values")


class AMask:
    _xeval_open = True

    def __init__(self, inside="ALL", neg=False):
        self.inside, self.neg = inside, neg  # True where in `inside` (xor neg)

    def __setitem__(self, key, value):
        if isinstance(key, ASet) and value is False and self.inside == "ALL" and not self.neg:
            self.inside, self.neg = key.name, True  # True everywhere except key
        elif isinstance(key, ASet) and value is True and self.inside == "NONE":
            self.inside, self.neg = key.name, False
        else:
            raise AnalysisError("mask update outside the modelled forms")

    def __invert__(self):
        return AMask(self.inside, not self.neg)


class Num:
    """an opaque non-negative integer"""

    _xeval_open = True

    def __mul__(self, o):
        return self

    __rmul__ = __add__ = __radd__ = __sub__ = __rsub__ = __mul__

    def __eq__(self, o):
        return True

    def __hash__(self):
        return 0


class ASet:
    _xeval_open = True

    def __init__(self, name, comp=False):
        self.name, self.comp = name, comp

    @property
    def size(self):
        return Num()


def complement_rule(ctx):
    """R4.2: the (known, unknown) pair is a partition of range(Ndof): known = the set of the Dirichlet dofs (each once, however
    often and in whatever order they were entered), unknown = every other dof.  Bc_dofs_known_unknown is interpreted on
    concrete dof lists (the abstract mask domain used before recognised one spelling only - np.where(mask)[0] - and fired on
    np.flatnonzero, refactored/C04-R3)."""
    from ..xarray import XArray

    repo = ctx.repo
    r = ctx.rule("R4.2", "known/unknown dofs are a boolean mask and its complement (a partition by construction; duplicates collapse)", min_instances=1)
    f = repo.method(SIMU, "Bc_dofs_known_unknown")
    cases = [("unsorted with a repetition", 4, 2, [5, 1, 5, 6]), ("first and last dof", 3, 1, [2, 0]), ("every dof", 2, 2, [3, 2, 1, 0, 1]), ("a single dof entered three times", 3, 2, [4, 4, 4])]
    for label, Nn, dof_n, dofs in cases:
        r.instance(fn=f.qualname)
        I = Interp(repo, extra_builtins={"Tic": lambda *a, **k: Sink(), "MPI_SIZE": 1})
        simu = XObj(repo.cls(SIMU), dict(mesh=SimpleNamespace(Nn=Nn), _verbosity=False))
        simu.attrs["Get_dof_n"] = lambda pt=None, _d=dof_n: _d
        simu.attrs["Bc_dofs_Dirichlet"] = lambda pt=None, _l=dofs: list(_l)
        simu.attrs["_Simu__Get_Ndof"] = lambda pt=None, _n=Nn * dof_n: _n
        try:
            known, unknown = I.call_function(f, [Opaque("pt")], self_obj=simu)
        except XRaise as e:
            r.fail(f.qualname, f"raises:{label}", f.file, f.lineno, "Bc_dofs_known_unknown", f"Dirichlet dofs {dofs} ({label}): raises {e}")
            continue
        k = [int(x) for x in XArray.from_nested(known).data]
        u = [int(x) for x in XArray.from_nested(unknown).data]
        n = Nn * dof_n
        if sorted(k) != sorted(set(dofs)):
            r.fail(f.qualname, "known", f.file, f.lineno, "Bc_dofs_known_unknown", f"{n} dofs, Dirichlet dofs entered as {dofs} ({label}): the known dofs are {k}, expected each constrained dof once: {sorted(set(dofs))}")
        elif sorted(u) != [d for d in range(n) if d not in dofs]:
            r.fail(f.qualname, "partition", f.file, f.lineno, "Bc_dofs_known_unknown", f"{n} dofs, Dirichlet dofs {dofs} ({label}): the unknown dofs are {u}, expected the complement {[d for d in range(n) if d not in dofs]}: known and unknown dofs are not a partition")
        else:
            r.ok(f"{label}: known {sorted(k)}, unknown the complement")


def duplicates_rule(ctx):
    repo = ctx.repo
    r = ctx.rule("R4.3", "duplicate Dirichlet entries: every consumer of the raw Dirichlet dof list sums duplicates (COO constructor) or is idempotent (mask); the Lagrange path is R4.7", min_instances=2)
    simu = repo.cls(SIMU)
    # (a) COO constructor in __Solver_Get_Dirichlet_A_x (r1/r2) and Bc_vector_Dirichlet
    from ..flow import Locals

    for mname in ("__Solver_Get_Dirichlet_A_x", "Bc_vector_Dirichlet"):
        f = simu.methods[mname]
        L = Locals(f.node)
        r.instance(fn=f.qualname)
        ok = False
        for n in ast.walk(f.node):
            if isinstance(n, ast.Call) and (dotted(n.func) or "").endswith("csr_matrix") and n.args:
                a0 = L.resolve(n.args[0])
                if isinstance(a0, ast.Tuple) and len(a0.elts) == 2 and isinstance(L.resolve(a0.elts[1]), ast.Tuple):
                    vals, idx = a0.elts[0], L.resolve(a0.elts[1])
                    vt, rt = L.text(vals), L.text(idx.elts[0])
                    vals_ok = "Bc_values_Dirichlet(" in vt or (isinstance(vals, ast.Name) and vals.id in L.params)
                    if vals_ok and "Bc_dofs_Dirichlet(" in rt:
                        ok = True
        if ok:
            r.ok(f"{mname}: csr_matrix((Dirichlet values, (Dirichlet dofs, 0)), ...) sums repeated dofs")
        else:
            r.fail(f.qualname, "coo", f.file, f.lineno, mname, "the Dirichlet vector is no longer built by the duplicate-summing COO constructor from (values, Bc_dofs_Dirichlet)")
    # (b) the Lagrange path is decided by interpretation in R4.7 (one multiplier row per dof, summed value)


class RecMat:
    """records A[rows, cols] = value stores of the bordered Lagrange system"""

    _xeval_open = True

    def __init__(self, alpha):
        self.store = {}
        self.data = SimpleNamespace(max=lambda: alpha)

    def tolil(self):
        return self

    tocsr = tolil

    @staticmethod
    def _lst(k):
        from ..xarray import XArray

        if isinstance(k, XArray):
            return [int(x) for x in k.data]
        if isinstance(k, (list, tuple)):
            return [int(x) for x in k]
        return [int(k)]

    def __setitem__(self, key, value):
        from ..xarray import XArray

        if not isinstance(key, tuple):
            key = (key, 0)
        rows, cols = self._lst(key[0]), self._lst(key[1])
        vals = list(value.data) if isinstance(value, XArray) else None
        if len(rows) == len(cols) and len(rows) > 1:
            pairs = list(zip(rows, cols))
        elif len(rows) == 1:
            pairs = [(rows[0], c) for c in cols]
        elif len(cols) == 1:
            pairs = [(r_, cols[0]) for r_ in rows]
        else:
            raise AnalysisError("bordered-system store with incompatible index lists")
        for k, pq in enumerate(pairs):
            self.store[pq] = vals[k] if vals is not None and len(vals) == len(pairs) else (vals[0] if vals else value)


def _lagrange_system(repo, dd, vv, size=8):
    """interpret __Solver_2 on a stub simulation whose Dirichlet list is (dd, vv) and which holds one connection
    condition on dofs (1, 2); returns the recorded bordered matrix, right-hand side and the function"""
    from ..alg import Poly
    from ..xarray import XArray
    from .c03 import XCsr

    mod = repo.module(SOLV)
    f = mod.functions["__Solver_2"]
    alpha = Poly.var("alpha")
    A, b = RecMat(alpha), RecMat(alpha)
    n = len(dd)
    # what _Solver_Apply_Dirichlet returns with the matrix: the (size, 1) sparse vector of the prescribed values (canonical
    # CSR: its .data is ordered by dof number, not by entry; repeated dofs are summed by the constructor)
    xvec = XCsr((XArray((n,), list(vv)), (XArray((n,), list(dd)), XArray((n,), [0] * n))), shape=(size, 1))
    lag = SimpleNamespace(dofs=XArray((2,), [1, 2]), dofsValues=XArray((1,), [Poly.var("c0")]), lagrangeCoefs=XArray((2,), [Poly.var("l0"), Poly.var("l1")]), problemType="pt")
    simu = SimpleNamespace(
        mesh=SimpleNamespace(Nn=4), Get_dof_n=lambda pt=None: 2,
        _Solver_Apply_Neumann=lambda pt: b, _Solver_Apply_Dirichlet=lambda pt, bb, res: (A, xvec),
        Bc_dofs_Dirichlet=lambda pt=None: XArray((n,), list(dd)), Bc_values_Dirichlet=lambda pt=None: XArray((n,), list(vv)),
        Bc_Lagrange=[lag], Get_x0=lambda pt=None: XArray((size,), [0] * size), _verbosity=False, problemType="pt",
    )
    I = Interp(repo, extra_builtins={"MPI_SIZE": 1, "Tic": lambda *a, **k: Sink()})
    seen = {}

    def hook(fn, args, kwargs):
        from .. import xeval

        if isinstance(fn, FuncInfo) and fn.name == "_Solve_Axb":
            x0 = args[4] if len(args) > 4 else kwargs.get("x0")
            seen["n"] = XArray.from_nested(x0).shape[0]
            return XArray((seen["n"],), [Poly.var(f"x{i}") for i in range(seen["n"])])
        if isinstance(fn, xeval._NpAttr) and fn.path == "append":
            return XArray.from_nested(list(XArray.from_nested(args[0]).data) + list(XArray.from_nested(args[1]).data))
        return NotImplemented

    I.call_hook = hook
    I.call_function(f, [simu, "pt"])
    # the size the simulation announces for the bordered system (what K, x0 and the saved vectors are resized to)
    dim = None
    simu_cls = repo.cls(SIMU)
    g = simu_cls.methods.get("_Bc_Lagrange_dim")
    if g is not None:
        I2 = Interp(repo, extra_builtins={"MPI_SIZE": 1})
        dim = I2.call_function(g, [simu, "pt"])
    return f, A, b, seen.get("n"), dim


def lagrange_rule(ctx):
    """R4.7: the bordered Lagrange system holds, for every constrained dof d, exactly ONE multiplier row; that row, its
    symmetric column and its right-hand side carry the same scale, so the row states  x_d = (sum of the values entered
    for d); the connection row states  sum c_j x_j = value;  no multiplier row is left empty (singular system) and the
    number of multipliers is the one the simulation sizes its system with.  Which row serves which dof is free."""
    from ..alg import Poly, is_zero

    repo = ctx.repo
    r = ctx.rule("R4.7", "Lagrange-multiplier system: one multiplier row per constrained dof (a dof entered several times: one row, summed value), each row, its symmetric column and its right-hand side carry the same scale factor (rows state x_d = value, sum_j c_j x_j = value); no empty multiplier row; size agrees with _Bc_Lagrange_dim", min_instances=4)
    size = 8
    v = [Poly.var(f"v{i}") for i in range(4)]
    cases = {
        "distinct": ([5, 3], v[:2]),  # entered out of increasing order: the far end of a member constrained before the near end
        "repeated": ([5, 3, 5, 5], v[:4]),  # one dof entered three times (documented convention: the values add up)
    }
    for cname, (dd, vv) in cases.items():
        f, A, b, nsys, dim = _lagrange_system(repo, dd, vv, size)
        r.instance(fn=f.qualname)
        want = {}
        for d, val in zip(dd, vv):
            want[d] = want.get(d, 0) + val
        rows = sorted({p for (p, q) in A.store if p >= size} | {q for (p, q) in A.store if q >= size})
        bad = None
        served = {}
        conn_rows = []
        for row in rows:
            cols = sorted(q for (p, q) in A.store if p == row and q < size and not is_zero(A.store[(p, q)]))
            if cols == [1, 2] and row not in served.values() and not conn_rows:
                conn_rows.append(row)
                continue
            if len(cols) != 1:
                bad = f"multiplier row {row - size} couples dofs {cols}: not a Dirichlet row"
                break
            d = cols[0]
            if d in served:
                bad = f"dof {d} has two multiplier rows ({served[d] - size} and {row - size}): two identical rows make the bordered matrix singular"
                break
            served[d] = row
            arc, acr, rhs = A.store.get((row, d)), A.store.get((d, row)), b.store.get((row, 0))
            if acr is None or rhs is None:
                bad = f"multiplier row of dof {d}: missing column entry or right-hand side"
            elif not is_zero(arc - acr):
                bad = f"multiplier row of dof {d}: A[row, dof] = {arc!r} but A[dof, row] = {acr!r} (not symmetric)"
            elif d not in want:
                bad = f"multiplier row for dof {d}, which is not constrained"
            elif not is_zero(rhs - arc * want[d]):
                bad = f"multiplier row of dof {d}: right-hand side {rhs!r} is not (row coefficient {arc!r}) x (sum of the entered values {want[d]!r})"
            if bad:
                break
        if bad is None and set(served) != set(want):
            bad = f"constrained dofs {sorted(set(want) - set(served))} have no multiplier row"
        if bad is None and nsys is not None:
            expect = size + len(want) + 1
            if nsys != expect:
                bad = f"the bordered system has {nsys} unknowns for {len(want)} constrained dofs and 1 connection (expected {expect}): {nsys - expect:+d} empty multiplier rows make it singular"
        if bad is None and dim is not None:
            try:
                dim_i = int(dim)
            except Exception:
                dim_i = None
            if dim_i is not None and dim_i != len(want) + 1:
                bad = f"_Bc_Lagrange_dim announces {dim_i} multipliers, __Solver_2 writes {len(want) + 1}: the assembled matrix and the bordered rows disagree in size"
        if bad:
            r.fail(f.qualname, f"dirichlet-rows:{cname}", f.file, f.lineno, "__Solver_2", bad)
        else:
            r.ok(f"{cname}: one row per constrained dof, A[row,d] = A[d,row] = s, b[row] = s * (sum of values); sizes agree")
        r.instance(fn=f.qualname)
        bad = None
        coefs = [Poly.var("l0"), Poly.var("l1")]
        if len(conn_rows) != 1:
            bad = "no connection row couples dofs (1, 2)"
        else:
            row = conn_rows[0]
            rhs = b.store.get((row, 0))
            for j, dj in enumerate([1, 2]):
                a1, a2 = A.store.get((row, dj)), A.store.get((dj, row))
                if a1 is None or a2 is None or not is_zero(a1 - a2):
                    bad = f"connection row: entries for dof {dj} missing or not symmetric"
                    break
                # a1 = s * l_j : the scale must be the same for every j and for the right-hand side
                if not is_zero(a1 * coefs[0] - (A.store.get((row, 1)) or 0) * coefs[j]):
                    bad = f"connection row: coefficient of dof {dj} is not (common scale) x l_{j}"
            if bad is None and (rhs is None or not is_zero(rhs * coefs[0] - A.store[(row, 1)] * Poly.var("c0"))):
                bad = f"connection row: right-hand side {rhs!r} is not (the row's scale) x (condition value c0)"
        if bad:
            r.fail(f.qualname, f"lagrange-rows:{cname}", f.file, f.lineno, "__Solver_2", bad)
        else:
            r.ok("connection rows: A[i, dofs] = A[dofs, i] = s * coefs, b[i] = s * value")


def orphan_rule(ctx):
    repo = ctx.repo
    r = ctx.rule("R4.4", "orphan-node diagonal: every return of __Solver_Get_Dirichlet_A_x is preceded by the orphan block on all paths", min_instances=1)
    f = repo.cls(SIMU).methods["__Solver_Get_Dirichlet_A_x"]
    r.instance(fn=f.qualname)
    idx_orphan = None
    first_ret = None
    for i, st in enumerate(f.node.body):
        if isinstance(st, ast.If) and "orphanNodes" in norm_text(st.test) and idx_orphan is None:
            body = norm_text(st)
            names = {n.id for n in ast.walk(st.test) if isinstance(n, ast.Name)} - {"self", "len"}
            guarded_only_by_orphans = not names and not isinstance(st.test, ast.BoolOp)
            if ("diags" in body or "diag" in body) and guarded_only_by_orphans:
                idx_orphan = i
        if first_ret is None and any(isinstance(n, ast.Return) for n in ast.walk(st)):
            first_ret = i
    if idx_orphan is not None and first_ret is not None and idx_orphan < first_ret:
        r.ok("orphan diagonal block dominates every return")
    else:
        r.fail(f.qualname, "orphan", f.file, f.lineno, "__Solver_Get_Dirichlet_A_x", "a return is reachable without passing the orphan-node diagonal block: nodes attached to no element leave zero rows (singular system)")


def dispatch_rule(ctx):
    repo = ctx.repo
    r = ctx.rule("R4.5", "solver dispatch: every SolverType member has a branch in _Solve_Axb; every backend's convergence indicator is consumed", min_instances=8)
    mod = repo.module(SOLV)
    f = mod.functions["_Solve_Axb"]
    members = repo.enum_members(SOLV + ".SolverType")
    # (the member -> branch table used to be read off the `solver == SolverType.x` comparisons: that fired on a dict dispatch,
    #  refactored/C04-R1; it is now decided by the interpretation below: a member without a branch raises NotImplementedError)
    # convergence indicators: _Solve_Axb interpreted for every Krylov backend with a stand-in that reports non-convergence
    # (info = 1) and convergence (info = 0): the non-converged iterate must not be returned as the solution
    from ..xeval import EnumVal
    from ..xarray import XArray

    st_cls = repo.cls(SOLV + ".SolverType")
    KRYLOV = ("cg", "bicg", "gmres", "lgmres", "bicgstab", "minres", "qmr")

    class _Stop(Exception):
        pass

    for nm in sorted(members):
        sel = EnumVal(st_cls, nm, members[nm])
        outcome = {}
        used = None
        for info in (1, 0):
            A = SimpleNamespace(has_canonical_format=True, shape=(3, 3))
            simu = SimpleNamespace(Bc_Lagrange=[], solver=sel, _verbosity=False, _Solver_Get_PETSc4Py_Options=lambda pt=None: ("cg", "none", "petsc"))
            seen = []

            def hook(fn, args, kwargs, info=info, seen=seen):
                if isinstance(fn, Opaque):
                    tail = fn.tag.split(".")[-1]
                    if tail == "csr_matrix":
                        return args[0]
                    if tail in KRYLOV:
                        seen.append(fn.tag)
                        return (XArray((3,), [Lin.var("x0") if False else 1, 2, 3]), info)
                    if tail in ("spsolve", "lsq_linear"):
                        raise _Stop()
                fi = fn if isinstance(fn, FuncInfo) else getattr(fn, "finfo", None)
                if isinstance(fi, FuncInfo) and fi.name in ("_PETSc", "_PETSc_MPI"):
                    raise _Stop()
                return NotImplemented

            I = Interp(repo, extra_builtins={"MPI_SIZE": 1, "Tic": lambda *a, **k: Sink(), "CAN_USE_PYPARDISO": True, "CAN_USE_PETSC": True, "isinstance": lambda o, t: True})
            I.call_hook = hook
            try:
                I.call_function(f, [simu, Opaque("pt"), A, SimpleNamespace(toarray=lambda: SimpleNamespace(ravel=lambda: Opaque("b"))), Opaque("x0"), [1], [1]])
                outcome[info] = "returns"
            except _Stop:
                outcome[info] = "direct"
            except XRaise as e:
                outcome[info] = f"raises {e.exc_name}"
            used = seen[0] if seen else used
        r.instance(fn=f.qualname)
        if outcome.get(0) == "raises NotImplementedError":
            r.fail(f.qualname, f"member:{nm}", f.file, f.lineno, "_Solve_Axb", f"SolverType.{nm} falls through to NotImplementedError")
        else:
            r.ok(f"SolverType.{nm} is served ({outcome.get(0)})")
        if used is None:
            continue  # a direct backend: no convergence indicator
        r.instance(fn=f.qualname)
        callee = "sla." + used.split(".")[-1]
        if outcome.get(1) == "returns":
            r.fail(f.qualname, f"unchecked:{callee}", f.file, f.lineno, "_Solve_Axb", f"solver = {nm}: {callee} reports non-convergence (info = 1) and _Solve_Axb returns its iterate as the solution (the PETSc sibling raises on `not converged`)")
        elif outcome.get(0) != "returns":
            r.fail(f.qualname, f"converged-rejected:{callee}", f.file, f.lineno, "_Solve_Axb", f"solver = {nm}: {callee} reports convergence (info = 0) and _Solve_Axb {outcome.get(0)}")
        else:
            r.ok(f"{callee}: a non-converged iterate ({outcome[1]}) is not returned, a converged one is")


def incremental_rule(ctx):
    """R4.6: on the Newton path the values handed to the elimination are increments.  A dof entered several times
    holds the SUM of its entered values (the duplicate-summing constructor downstream), so the increment of dof d is
    (sum of the values entered for d) - current[d]: the current solution is removed once per dof, not once per entry.
    _Solver_Apply_Dirichlet is interpreted on the raw list [3, 5, 3] with symbolic values and a symbolic current
    solution; the captured values are summed per dof as the COO constructor does."""
    repo = ctx.repo
    r = ctx.rule("R4.6", "Newton-incremental Dirichlet values: per dof, (sum of the entered values) - current solution, also when a dof is entered several times; the linear path passes the values through", min_instances=2)
    ci = repo.cls(SIMU)
    f = ci.methods["_Solver_Apply_Dirichlet"]
    from ..alg import Poly
    from ..xarray import XArray
    from ..xeval import XObj

    elliptic = None
    for nonlinear in (True, False):
        r.instance(fn=f.qualname)
        dofs = XArray((3,), [3, 5, 3])
        vals = XArray((3,), [Poly.var("a"), Poly.var("b"), Poly.var("c")])
        cur = XArray((7,), [Poly.var(f"u{i}") for i in range(7)])
        cap = {}
        I = Interp(repo, extra_builtins={"Tic": lambda *a, **k: Sink()})
        algo_cls = repo.cls(f"{SOLV}.AlgoType")
        from ..xeval import EnumVal

        mem = repo.enum_members(algo_cls.qualname)
        obj = XObj(ci, {
            "algo": EnumVal(algo_cls, "elliptic", mem["elliptic"]),
            "Bc_dofs_Dirichlet": lambda pt=None: dofs,
            "Bc_values_Dirichlet": lambda pt=None: XArray(vals.shape, list(vals.data)),
            "Get_K_C_M_F": lambda pt=None: (Opaque("K"), Opaque("C"), Opaque("M"), Opaque("F")),
            "isNonLinear": nonlinear,
            "_Solver_Get_Newton_Raphson_current_solution": lambda: cur,
            "_verbosity": False,
        })

        def hook(fn, args, kwargs):
            if isinstance(getattr(fn, "finfo", None), FuncInfo) and fn.finfo.name.endswith("__Solver_Get_Dirichlet_A_x"):
                cap["values"] = args[-1] if not kwargs.get("dofsValues") else kwargs["dofsValues"]
                return (Opaque("A"), Opaque("x"))
            return NotImplemented

        I.call_hook = hook
        I.call_function(f, [Opaque("problemType"), Opaque("b"), Opaque("resolution")], self_obj=obj)
        got = cap.get("values")
        key = "incremental" if nonlinear else "linear-values"
        if not isinstance(got, XArray) or got.shape != (3,):
            r.fail(f.qualname, key, f.file, f.lineno, "_Solver_Apply_Dirichlet", f"the values handed to the elimination are {got!r}")
            continue
        per = {}
        for d, v in zip(dofs.data, got.data):
            per[int(d)] = per.get(int(d), 0) + v
        want = {3: Poly.var("a") + Poly.var("c"), 5: Poly.var("b")}
        if nonlinear:
            want = {d: w - Poly.var(f"u{d}") for d, w in want.items()}
        bad = [d for d in want if not is_zero(per[d] - want[d])]
        if bad:
            d = bad[0]
            r.fail(f.qualname, key, f.file, f.lineno, "_Solver_Apply_Dirichlet", f"dof entered {'twice' if d == 3 else 'once'}: after the duplicate-summing constructor it receives {per[d]!r}, expected {want[d]!r}" + (" (the current Newton solution is removed once per ENTRY: the iterate oscillates and Newton does not converge)" if nonlinear and d == 3 else ""))
        else:
            r.ok(f"{'Newton' if nonlinear else 'linear'} path: per-dof value == {'sum(entered) - current' if nonlinear else 'sum(entered)'}")


def run(ctx):
    from . import e2e_rules as _e2e

    ctx.attempt(_e2e.beam_rule, ctx, 'R4.E2')
    ctx.attempt(_e2e.solve_rule, ctx, 'R4.E1')
    from . import c05 as _c05

    ctx.attempt(bounded_solve_rule, ctx)
    ctx.attempt(_c05.newton_loop_rule, ctx)
    ctx.level = "other"
    ctx.explanation = (
        "The elimination solver __Solver_1 is interpreted on a block-labelled system (index sets K/U as opaque selectors): the solve receives A[U,U] and "
        "b[U]-A[U,K]x[K] and its result lands in x[U] (R4.1); Bc_dofs_known_unknown is interpreted in a mask/complement domain (R4.2); the bordered "
        "Lagrange-multiplier system is interpreted with recording sparse stubs (one row per constrained dof with the summed value, scales, size; R4.7); _Solve_Axb is interpreted for every "
        "SolverType with backends that report convergence / non-convergence (R4.5) and with a Lagrange condition present (direct factorisation only; R4.12); orphan detection (R4.10), "
        "Newton-incremental values (R4.6), prescription order (R4.8), LagrangeCondition scale (R4.11). NOT decided: residual size on a real system, accuracy of the external solvers."
    )
    ctx.assume("scipy's csr_matrix((v,(r,c))) sums duplicates; external solvers return the solution of the system they are given when they report convergence")
    elimination_rule(ctx)
    complement_rule(ctx)
    duplicates_rule(ctx)
    lagrange_rule(ctx)
    ctx.attempt(lagrange_condition_rule, ctx)
    ctx.attempt(orphan_detection_rule, ctx)
    ctx.attempt(saddle_point_dispatch_rule, ctx)
    ctx.attempt(hinge_rule, ctx)
    ctx.attempt(connection_dofs_rule, ctx)
    prescription_order_rule(ctx)
    from . import c03

    c03.dofs_nodes_rule(ctx)
    orphan_rule(ctx)
    dispatch_rule(ctx)
    incremental_rule(ctx)


def prescription_order_rule(ctx):
    """R4.8: add_dirichlet pairs the k-th prescribed value with the dof of the k-th node of the list AS GIVEN (unsorted
    lists, repeated nodes): interpreted on a labelled node list with array-valued and constant prescriptions."""
    from ..alg import Poly, is_zero
    from ..xarray import Lbl, XArray

    repo = ctx.repo
    r = ctx.rule("R4.8", "add_dirichlet keeps the caller's node order and multiplicity: entry (k, d) of the prescription is (value d at the k-th listed node, dof(k-th listed node, unknown d))", min_instances=2)
    simu = repo.cls(SIMU)
    f = simu.methods["add_dirichlet"]
    for tag, nodes in (("unsorted", [5, 2, 7]), ("repeated", [4, 1, 4])):
        r.instance(fn=f.qualname)
        cap = {}
        g = [Poly.var(f"g{k}") for k in range(len(nodes))]
        c = Poly.var("c")
        obj = XObj(simu, dict(
            problemType=Opaque("pt"), mesh=SimpleNamespace(coord=XArray((8, 3), [Poly.var(f"X{n}_{k}") for n in range(8) for k in range(3)])),
            _Simu__Check_problemTypes=lambda pt: None, _Simu__Bc_check_inputs=lambda n, v, u: True,
            Bc_dofs_nodes=lambda nn, unknowns, pt=None: XArray((len(list(nn)) * len(unknowns),), [Lbl("dof", int(n), u) for n in XArray.from_nested(nn).data for u in unknowns]),
            _Bc_Add_Dirichlet=lambda pt, nn, vals, dofs, unknowns, desc="": cap.update(nodes=nn, vals=vals, dofs=dofs),
        ))
        I = Interp(repo, extra_builtins={"callable": callable})
        if tag == "repeated":
            g = [Poly.var("cx")] * len(nodes)  # constants only: an array on a repeated node is covered by the unsorted case
            vals = [g[0], c]
        else:
            vals = [XArray((len(nodes),), list(g)), c]
        try:
            I.call_function(f, [XArray((len(nodes),), nodes), vals, ["x", "y"]], self_obj=obj)
        except XRaise as e:
            r.fail(f.qualname, tag, f.file, f.lineno, "_Simu.add_dirichlet", f"{tag} node list {nodes}: {e}")
            continue
        bad = None
        if "vals" not in cap:
            bad = "no Dirichlet condition recorded"
        else:
            v, d = XArray.from_nested(cap["vals"]), XArray.from_nested(cap["dofs"])
            if v.size != 2 * len(nodes) or d.size != 2 * len(nodes):
                bad = f"{v.size} values / {d.size} dofs recorded for {len(nodes)} listed nodes x 2 unknowns (a node listed twice must stay two prescriptions: their values add up)"
            else:
                for k, n in enumerate(nodes):
                    for di, (u, want) in enumerate((("x", g[k]), ("y", c))):
                        if d.data[2 * k + di] != Lbl("dof", n, u) or not is_zero(v.data[2 * k + di] - want):
                            bad = f"entry ({k},{u}) is ({v.data[2 * k + di]!r}, {d.data[2 * k + di]!r}); expected ({want!r}, dof(node {n}, {u})): the value prescribed for one node lands on another"
        if bad:
            r.fail(f.qualname, tag, f.file, f.lineno, "_Simu.add_dirichlet", f"{tag} node list {nodes}: {bad}")
        else:
            r.ok(f"{tag} node list {nodes}: values and dofs paired in the caller's order")


def lagrange_condition_rule(ctx):
    """R4.11: a LagrangeCondition states  sum_j c_j u_j = value  for the coefficients and the value it was given: what
    its accessors hand to the solver is (s c, s value) with one common factor s.  The constructor and the accessors are
    interpreted with coefficients (3, -4) (length 5, not 1) and a symbolic value."""
    from ..alg import Poly, Q, is_zero
    from ..xarray import XArray

    repo = ctx.repo
    r = ctx.rule("R4.11", "LagrangeCondition: the stored coefficients and the stored value are the given ones up to one common factor (the condition enforced is the condition entered)", min_instances=1)
    ci = repo.cls("EasyFEA.FEM._boundary_conditions.LagrangeCondition")
    init = ci.methods["__init__"]
    r.instance(fn=init.qualname)
    I = Interp(repo)
    obj = XObj(ci, {})
    given_c = [Q(3), Q(-4)]
    c0 = Poly.var("c0")
    I.call_function(init, [Opaque("pt"), XArray((2,), [0, 1]), XArray((2,), [2, 5]), ["x"], XArray((1,), [c0]), XArray((2,), given_c), "connection"], self_obj=obj)
    coefs = XArray.from_nested(I.call_function(repo.lookup_method(ci, "lagrangeCoefs"), [], self_obj=obj))
    vals = XArray.from_nested(I.call_function(repo.lookup_method(ci, "dofsValues"), [], self_obj=obj))
    bad = None
    if coefs.size != 2 or vals.size != 1:
        bad = f"sizes {coefs.size}, {vals.size}"
    elif not is_zero(Poly.of(coefs.data[0]) * given_c[1] - Poly.of(coefs.data[1]) * given_c[0]):
        bad = f"stored coefficients {coefs.tolist()} are not proportional to the given (3, -4)"
    elif not is_zero(Poly.of(vals.data[0]) * given_c[0] - Poly.of(coefs.data[0]) * c0):
        bad = f"given 3 u_a - 4 u_b = c0, the condition holds coefficients {[str(x) for x in coefs.data]} and value {vals.data[0]!r}: coefficients and value are scaled by different factors, another condition is enforced whenever the value is not zero"
    if bad:
        r.fail(init.qualname, "stated-condition", init.file, init.lineno, "LagrangeCondition.__init__", bad)
    else:
        r.ok("LagrangeCondition keeps (coefficients, value) up to a common factor")


def orphan_detection_rule(ctx):
    """R4.10: 'nodes not attached to any element do not make the system singular': the orphan list Mesh.__init__
    builds is exactly the set of node numbers below Nn that no group references -- orphans numbered before, between
    and AFTER the connected nodes.  The constructor is interpreted on two groups sharing six nodes."""
    from types import SimpleNamespace

    from ..xarray import XArray

    repo = ctx.repo
    r = ctx.rule("R4.10", "Mesh.orphanNodes == {n < Nn : no element group references n}, orphans at the front, in the middle and at the back of the numbering", min_instances=2)
    ci = repo.cls("EasyFEA.FEM._mesh.Mesh")
    init = ci.methods["__init__"]
    for Nn, conns, want in ((7, ([[1, 2, 4]], [[1, 2]]), [0, 3, 5, 6]), (4, ([[0, 1, 2]], [[2, 0]]), [3])):
        r.instance(fn=init.qualname)
        groups = {}
        for tag, c in zip(("TRI3", "SEG2"), conns):
            groups[tag] = SimpleNamespace(Ncoords=Nn, dim=2 if tag == "TRI3" else 1, inDim=2, connect=XArray((len(c), len(c[0])), [n for row in c for n in row]), elemType=tag)
        obj = XObj(ci, {})
        I = Interp(repo, extra_builtins={"print": lambda *a, **k: None})
        I.call_hook = lambda fn, args, kwargs: None if isinstance(fn, FuncInfo) and fn.module.name.startswith("EasyFEA.Utilities") else NotImplemented
        I.call_function(init, [groups], self_obj=obj)
        got = I.call_function(repo.lookup_method(ci, "orphanNodes"), [], self_obj=obj)
        got = sorted(int(x) for x in (got.data if isinstance(got, XArray) else got))
        if got == want:
            r.ok(f"Nn = {Nn}: orphans {want}")
        else:
            r.fail(init.qualname, f"orphans:Nn={Nn}", init.file, init.lineno, "Mesh.__init__", f"{Nn} nodes, connectivities {conns}: orphan nodes are {want} but the mesh records {got}: an unrecorded orphan keeps a zero row and column, the system is singular")


def saddle_point_dispatch_rule(ctx):
    """R4.12: 'solving the same problem by elimination, by Lagrange multipliers or with any available linear solver backend
    gives the same solution': with Lagrange conditions the bordered matrix is indefinite (zero diagonal block), on which
    the Krylov backends stagnate -- and _Solve_Axb returns their last iterate without reading the convergence flag
    (known finding F14b).  _Solve_Axb is interpreted up to the backend call, with a Lagrange condition present, for every
    SolverType the user can select: the backend that runs must be a direct factorisation (spsolve / pypardiso / PETSc
    configured as a direct solver), never cg / bicg / gmres / lgmres / lsq_linear."""
    from ..xeval import EnumVal
    from ..xarray import XArray

    repo = ctx.repo
    mod = repo.module(SOLV)
    f = mod.functions["_Solve_Axb"]
    st_cls = repo.cls(SOLV + ".SolverType")
    members = repo.enum_members(SOLV + ".SolverType")
    r = ctx.rule("R4.12", "with Lagrange conditions every selectable SolverType is served by a direct factorisation (no Krylov iterate of an indefinite bordered system is returned)", min_instances=6)
    ITER = ("cg", "bicg", "gmres", "lgmres", "bicgstab", "minres", "lsq_linear", "qmr")

    class Called(Exception):
        def __init__(self, what):
            self.what = what

    for nm in sorted(members):
        for pypardiso in (False, True):
            r.instance(fn=f.qualname)
            sel = EnumVal(st_cls, nm, members[nm])
            A = SimpleNamespace(has_canonical_format=True, shape=(3, 3))
            simu = SimpleNamespace(Bc_Lagrange=[Opaque("lagrange")], solver=sel, _verbosity=False,
                                   _Solver_Get_PETSc4Py_Options=lambda pt=None: ("cg", "none", "petsc"))

            def hook(fn, args, kwargs):
                if isinstance(fn, Opaque):
                    tail = fn.tag.split(".")[-1]
                    if tail in ("csr_matrix",):
                        return args[0]
                    if tail in ("spsolve",) or tail in ITER or tail in ("norm",):
                        if tail == "norm":
                            return 0
                        raise Called(fn.tag)
                fi = fn if isinstance(fn, FuncInfo) else getattr(fn, "finfo", None)
                if isinstance(fi, FuncInfo) and fi.name in ("_PETSc", "_PETSc_MPI"):
                    raise Called("petsc:" + str(args[4:7] if len(args) > 6 else kwargs))
                return NotImplemented

            I = Interp(repo, extra_builtins={"MPI_SIZE": 1, "Tic": lambda *a, **k: Sink(), "CAN_USE_PYPARDISO": pypardiso, "CAN_USE_PETSC": True, "isinstance": lambda o, t: True})
            I.call_hook = hook
            what = None
            try:
                I.call_function(f, [simu, Opaque("pt"), A, SimpleNamespace(toarray=lambda: Opaque("b")), Opaque("x0"), [], []])
            except Called as c:
                what = c.what
            except XRaise as e:
                what = f"raise:{e.exc_name}"
            tail = (what or "").split(".")[-1]
            label = f"{nm}{'+pypardiso' if pypardiso else ''}"
            if what is None:
                r.fail(f.qualname, f"saddle:{label}", f.file, f.lineno, "_Solve_Axb", f"solver = {nm}, Lagrange conditions present: no backend call is reached")
            elif tail in ITER or (what.startswith("petsc:") and "preonly" not in what):
                r.fail(f.qualname, f"saddle:{label}", f.file, f.lineno, "_Solve_Axb", f"solver = {nm}, Lagrange conditions present: the bordered (indefinite) system is handed to {what}: an iterative backend stagnates on it and its convergence flag is not read -- the returned vector is not the solution the direct path gives")
            else:
                r.ok(f"{label}: Lagrange conditions -> {what}")


def hinge_rule(ctx):
    """R4.13: 'multi-point (connection) constraints are satisfied exactly' -- and only those that were asked for: a hinged
    connection ties the translations and blocks the rotations that are NOT listed as free.  Beam.add_connection_hinged is
    interpreted for the beam dimensions 2 and 3 and several lists of free rotations, with a recording add_connection."""
    repo = ctx.repo
    ci = repo.cls("EasyFEA.Simulations._beam.Beam")
    f = ci.methods["add_connection_hinged"]
    r = ctx.rule("R4.13", "add_connection_hinged ties the translations and exactly the rotations that are not listed as free (3-D: [''] -> ball joint, ['rz'] -> rx, ry tied)", min_instances=4)
    cases = [(2, [""], ["x", "y"]), (3, [""], ["x", "y", "z"]), (3, ["rz"], ["x", "y", "z", "rx", "ry"]), (3, ["rx", "ry"], ["x", "y", "z", "rz"]), (3, ["rx", "ry", "rz"], ["x", "y", "z"])]
    for dim, free, want in cases:
        r.instance(fn=f.qualname)
        got = []
        obj = XObj(ci, {"structure": SimpleNamespace(dim=dim), "add_connection": lambda nodes, unknowns, description="", got=got: got.append(list(unknowns))})
        try:
            Interp(repo).call_function(f, [Opaque("nodes"), list(free)], self_obj=obj)
        except XRaise as e:
            r.fail(f.qualname, f"hinge:dim{dim}:{'+'.join(free) or 'none'}", f.file, f.lineno, "Beam.add_connection_hinged", f"dim {dim}, free rotations {free}: raises {e}")
            continue
        tied = got[0] if got else None
        if tied is not None and sorted(tied) == sorted(want):
            r.ok(f"dim {dim}, free {free}: ties {want}")
        else:
            r.fail(f.qualname, f"hinge:dim{dim}:{'+'.join(free) or 'none'}", f.file, f.lineno, "Beam.add_connection_hinged", f"dim {dim}, free rotations {free}: the connection ties {tied}, expected {want}: rotations that should stay free are constrained (the hinge behaves as a fixed joint) or the reverse")


def _num(c):
    """an exact number out of a modelled value (constant polynomial, fraction, integer)"""
    from ..alg import Poly

    if isinstance(c, Poly):
        return c.const_value() if c.is_const() else c
    return Q(c) if isinstance(c, int) and not isinstance(c, bool) else c


def connection_dofs_rule(ctx):
    """R4.14: 'multi-point (connection) constraints are satisfied exactly': Beam.add_connection(nodes, unknowns) ties, for every
    listed unknown, the dofs of THAT unknown at the two nodes: dof(node, unknown) = node * dof_n + index of the unknown in the
    simulation's own list -- whatever the position of the unknown in the caller's list.  Interpreted with the real
    Bc_dofs_nodes and a recording LagrangeCondition for the unknown lists ['y', 'rz'], ['rz'], ['y', 'x'] (dof_n = 3)."""
    from ..xarray import XArray

    repo = ctx.repo
    ci = repo.cls("EasyFEA.Simulations._beam.Beam")
    f = ci.methods["add_connection"]
    r = ctx.rule("R4.14", "Beam.add_connection ties, for each listed unknown, the dofs dof(node, unknown) = node * dof_n + index(unknown) of ALL the given nodes (two, three or four members meeting at a joint) by n - 1 well-formed difference conditions, for unknown lists in any order / any subset", min_instances=5)
    allu = ["x", "y", "rz"]
    for node_list, unknowns in (([4, 7], ["y", "rz"]), ([4, 7], ["rz"]), ([4, 7], ["y", "x"]), ([4, 7, 9], ["x", "y", "rz"]), ([9, 2, 7, 4], ["y"])):
        nodes = XArray((len(node_list),), list(node_list), "i")
        r.instance(fn=f.qualname)
        got = []

        def hook(fn, args, kwargs, got=got):
            if getattr(fn, "name", "") == "LagrangeCondition" or (hasattr(fn, "qualname") and str(getattr(fn, "qualname", "")).endswith("LagrangeCondition")):
                coefs = kwargs.get("lagrangeCoefs", args[5] if len(args) > 5 else None)
                got.append((list(XArray.from_nested(args[2]).data), list(args[3]), None if coefs is None else [_num(c) for c in XArray.from_nested(coefs).data]))
                return SimpleNamespace(kind="lagrange")
            fi = fn if isinstance(fn, FuncInfo) else getattr(fn, "finfo", None)
            if isinstance(fi, FuncInfo) and fi.module.name.startswith("EasyFEA.Utilities"):
                return Sink()
            return NotImplemented

        obj = XObj(ci, {"problemType": "beam", "Get_unknowns": lambda pt=None: list(allu), "Get_dof_n": lambda pt=None: 3, "_Check_dofs": lambda *a, **k: None,
                        "_Bc_Add_Lagrange": lambda bc: None, "_Bc_Add_Display": lambda *a, **k: None, "_verbosity": False, "mesh": SimpleNamespace(Nn=10),
                        "_Simu__Check_problemTypes": lambda *a, **k: None})
        I = Interp(repo, extra_builtins={"Tic": lambda *a, **k: Sink()})
        I.call_hook = hook
        tag = f"nodes {node_list}, unknowns {unknowns}"
        try:
            I.call_function(f, [nodes, list(unknowns), "test"], self_obj=obj)
        except XRaise as e:
            r.fail(f.qualname, f"connection:{len(node_list)}:{'+'.join(unknowns)}", f.file, f.lineno, "Beam.add_connection", f"{tag}: raises {e}")
            continue
        bad = None
        for u in unknowns:
            conds = [(d, c) for d, names, c in got if list(names) == [u]]
            want = {int(n) * 3 + allu.index(u) for n in node_list}
            parent = {d: d for d in want}

            def find(x):
                while parent[x] != x:
                    x = parent[x]
                return x

            for dofs, coefs in conds:
                dofs = [int(x) for x in dofs]
                if bad is None and not set(dofs) <= want:
                    bad = f"a condition on '{u}' ties the dofs {dofs}; dof(node, '{u}') of the nodes are {sorted(want)}"
                if bad is None and coefs is not None and len(coefs) != len(dofs):
                    bad = f"a condition on '{u}' lists {len(dofs)} dofs {dofs} with {len(coefs)} coefficients {[str(c) for c in coefs]}: the multiplier row cannot be written (the solve raises)"
                if bad is None and coefs is not None and (sum(coefs) != 0 or any(c == 0 for c in coefs)):
                    bad = f"a condition on '{u}' has coefficients {[str(c) for c in coefs]}: not a difference of the tied dofs"
                if bad is None:
                    for d in dofs[1:]:
                        parent[find(d)] = find(dofs[0])
            if bad is None and len({find(d) for d in want}) != 1:
                bad = f"the conditions on '{u}' leave the nodes {sorted(n for n in node_list if find(int(n) * 3 + allu.index(u)) != find(min(want)))} untied"
            if bad is None and len(conds) != len(node_list) - 1:
                bad = f"{len(conds)} conditions on '{u}' for {len(node_list)} nodes: {len(node_list) - 1} independent ones tie them (more make the bordered system singular)"
        if bad is None and any(list(names) not in [[u] for u in unknowns] for _d, names, _c in got):
            bad = "a condition on an unknown that was not requested"
        if bad:
            r.fail(f.qualname, f"connection:{len(node_list)}:{'+'.join(unknowns)}", f.file, f.lineno, "Beam.add_connection", f"add_connection({tag}) with simulation unknowns {allu}: {bad}: the requested multi-point constraint is not the one applied")
        else:
            r.ok(f"{tag}: every node tied by name, {len(node_list) - 1} condition(s) per unknown")


def bounded_solve_rule(ctx, rid="R4.15"):
    """'for the damage-based solvers the damage never decreases' / 'the free degrees of freedom satisfy the assembled
    equations ... to solver accuracy' under bounds: with the bounded backend (SolverType.lsq_linear) the vector `_Solve_Axb`
    returns satisfies lb <= x <= ub COMPONENT BY COMPONENT.  The function is interpreted with two stand-in backends: the
    unconstrained direct solve returns a vector that violates the lower bound of one dof while its extrema lie inside the
    extrema of the bounds (the situation after energy moves from one zone to another), the bounded solver a vector inside
    the bounds; the result must be the bounded solver's, called with the full per-dof bounds."""
    from ..xeval import EnumVal
    from ..xarray import XArray

    repo = ctx.repo
    mod = repo.module(SOLV)
    f = mod.functions["_Solve_Axb"]
    st_cls = repo.cls(SOLV + ".SolverType")
    members = repo.enum_members(SOLV + ".SolverType")
    r = ctx.rule(rid, "bounded backend: the vector returned for SolverType.lsq_linear is the bounded solver's (called with the per-dof bounds) - lb <= x <= ub holds component by component, also when the unconstrained solution lies between the extrema of the bounds", min_instances=1)
    r.instance(fn=f.qualname)
    lb = XArray((3,), [Q(1, 5), Q(0), Q(1, 10)])
    ub = XArray((3,), [Q(1), Q(1), Q(1)])
    x_free = XArray((3,), [Q(1, 10), Q(3, 10), Q(1, 2)])  # violates lb[0] = 1/5; min = 1/10 >= min(lb) = 0, max = 1/2 <= max(ub)
    x_bounded = XArray((3,), [Q(1, 5), Q(3, 10), Q(1, 2)])
    seen = {}

    def hook(fn, args, kwargs):
        if isinstance(fn, Opaque):
            tail = fn.tag.split(".")[-1]
            if tail == "csr_matrix":
                return args[0]
            if tail == "spsolve":
                return XArray(x_free.shape, list(x_free.data))
            if tail == "lsq_linear":
                seen["bounds"] = kwargs.get("bounds", args[2] if len(args) > 2 else None)
                return {"x": XArray(x_bounded.shape, list(x_bounded.data))}
            if tail == "norm":
                return 0
        return NotImplemented

    sel = EnumVal(st_cls, "lsq_linear", members["lsq_linear"])
    A = SimpleNamespace(has_canonical_format=True, shape=(3, 3))
    simu = SimpleNamespace(Bc_Lagrange=[], solver=sel, _verbosity=False, _Solver_Get_PETSc4Py_Options=lambda pt=None: ("cg", "none", "petsc"))
    I = Interp(repo, extra_builtins={"MPI_SIZE": 1, "Tic": lambda *a, **k: Sink(), "CAN_USE_PYPARDISO": False, "CAN_USE_PETSC": False, "isinstance": lambda o, t: True})
    I.call_hook = hook
    try:
        out = XArray.from_nested(I.call_function(f, [simu, Opaque("pt"), A, SimpleNamespace(toarray=lambda: XArray((3,), [Q(0)] * 3)), Opaque("x0"), lb, ub]))
    except XRaise as e:
        r.fail(f.qualname, "bounded", f.file, f.lineno, "_Solve_Axb", f"SolverType.lsq_linear: raises {e}")
        return
    got = list(out.data)
    viol = [k for k in range(3) if not (lb.data[k] <= got[k] <= ub.data[k])]
    b = seen.get("bounds")
    bounds_ok = isinstance(b, (tuple, list)) and len(b) == 2 and list(XArray.from_nested(b[0]).data) == list(lb.data) and list(XArray.from_nested(b[1]).data) == list(ub.data)
    if not viol and got == list(x_bounded.data) and bounds_ok:
        r.ok("lsq_linear: the bounded solution is returned, solver called with the per-dof bounds")
    else:
        r.fail(f.qualname, "bounded", f.file, f.lineno, "_Solve_Axb", f"SolverType.lsq_linear with lb = {[str(v) for v in lb.data]}: the vector returned is {[str(v) for v in got]}" + (f", below its lower bound at dof(s) {viol}" if viol else "") + ("" if bounds_ok else "; the bounded solver did not receive the per-dof bounds") + ": an unconstrained solution is accepted on a test of global extrema - the irreversibility bound d >= d_previous is dropped where the damage is low and the damage heals there")
