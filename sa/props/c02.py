"""C02 -- K symmetric PSD with the physical kernel, M SPD: the structural clauses.

R2.1 element operators are congruences wJ * X^T S X (interpreted on one element
     with opaque geometric factors);
R2.2 the factory's quadrature has enough points for the required rank
     (counting bound on a two-element patch, sound necessary condition);
R2.3 (thorough) exact rank of the two-element reference patch in Q(sqrt d);
R2.4 every rule reachable from the factory has positive weights;
R2.6 the selective-reduced-integration split of the Timoshenko operator is a
     partition of the (diagonal) constitutive matrix.
"""

from __future__ import annotations

import ast

from ..alg import Poly, Q, MQ, is_zero, rank as exact_rank
from ..elems import ElemLib, topology
from ..gausslib import GaussLib, SHAPE_DIM
from .. import beamops
from ..femchain import OpaqueGroup, XFe, fe_hook_full
from ..repo import AnalysisError, dotted, norm_text
from ..flow import Locals
from ..xeval import Interp, XObj, Opaque, XRaise
from ..xarray import XArray
from types import SimpleNamespace

BIL = "EasyFEA.FEM.Operators.Bilinear"
GAUSS = "EasyFEA.FEM._gauss.Gauss"


def sym_matrix(n, prefix):
    return XArray((n, n), [Poly.var(f"{prefix}{min(i,j)}{max(i,j)}") for i in range(n) for j in range(n)])


def congruence_rules(ctx, lib):
    repo = ctx.repo
    r = ctx.rule("R2.1", "element operators are congruences wJ * X^T S X (symmetric for symmetric S), with the node*dof_n+component layout", min_instances=6)
    s2 = MQ.sqrt(2)
    for name in ("TRI3", "TETRA4"):
        g = OpaqueGroup(lib, name, nPe=2)
        dim, nPe = g.dim, g.nPe
        ns = 3 if dim == 2 else 6
        # reference strain operator in the Kelvin-Mandel convention (xx,yy,zz,yz,xz,xy)
        pairs = [(0, 0), (1, 1), (0, 1)] if dim == 2 else [(0, 0), (1, 1), (2, 2), (1, 2), (0, 2), (0, 1)]
        Bref = [[Poly() for _ in range(nPe * dim)] for _ in range(ns)]
        for row, (i, j) in enumerate(pairs):
            for n in range(nPe):
                if i == j:
                    Bref[row][n * dim + i] = g.d[i][n]
                else:
                    Bref[row][n * dim + i] = g.d[j][n] * (1 / s2)
                    Bref[row][n * dim + j] = g.d[i][n] * (1 / s2)
        f = repo.func(BIL + ".LinearizedElasticity")
        r.instance(fn=f.qualname)
        C = sym_matrix(ns, "C")
        K = XArray.from_nested(g.call_func(f.qualname, g.obj, C, g.mt))
        nd = nPe * dim
        bad = None
        if K.shape != (1, nd, nd):
            bad = f"shape {K.shape}"
        else:
            for a in range(nd):
                for b in range(nd):
                    want = Poly()
                    for i in range(ns):
                        for j in range(ns):
                            want = want + Bref[i][a] * C[i, j] * Bref[j][b]
                    want = want * g.wJ
                    if not is_zero(K[0, a, b] - want):
                        bad = f"entry ({a},{b}) = {K[0,a,b]!r}, expected wJ * sum_ij B_ia C_ij B_jb = {want!r}"
        if bad:
            r.fail(f.qualname, f"dim{dim}", f.file, f.lineno, "LinearizedElasticity", f"dim {dim}: element stiffness is not wJ * B^T C B: {bad}")
        else:
            r.ok(f"LinearizedElasticity dim {dim}: K_e == wJ * B^T C B on a 2-node opaque element ({nd}x{nd} polynomial identities)")
        # mass
        f = repo.func(BIL + ".UV")
        for dof_n in (1, dim):
            r.instance(fn=f.qualname)
            rho = Poly.var("rho")
            M = XArray.from_nested(g.call_func(f.qualname, g.obj, rho, dof_n, g.mt))
            nd2 = nPe * dof_n
            bad = None
            if M.shape != (1, nd2, nd2):
                bad = f"shape {M.shape}"
            else:
                for a in range(nd2):
                    for b in range(nd2):
                        na, ia = divmod(a, dof_n)
                        nb, ib = divmod(b, dof_n)
                        want = rho * g.wJ * g.n[na] * g.n[nb] if ia == ib else Poly()
                        if not is_zero(M[0, a, b] - want):
                            bad = f"entry ({a},{b}) = {M[0,a,b]!r}, expected {want!r}"
            if bad:
                r.fail(f.qualname, f"dim{dim}.dof{dof_n}", f.file, f.lineno, "UV", f"mass operator with dof_n={dof_n} is not rho*wJ*N^T N in the interleaved layout: {bad}")
            else:
                r.ok(f"UV dof_n={dof_n}: M_e[(a,i),(b,j)] == rho*wJ*N_a*N_b*delta_ij")
        # conduction
        f = repo.func(BIL + ".GradUGradV")
        r.instance(fn=f.qualname)
        k = Poly.var("k")
        Kt = XArray.from_nested(g.call_func(f.qualname, g.obj, k, g.mt))
        bad = None
        for a in range(nPe):
            for b in range(nPe):
                want = sum((g.d[i][a] * g.d[i][b] for i in range(dim)), Poly()) * k * g.wJ
                if not is_zero(Kt[0, a, b] - want):
                    bad = f"entry ({a},{b})"
        if bad:
            r.fail(f.qualname, f"dim{dim}", f.file, f.lineno, "GradUGradV", f"conductivity operator is not k*wJ*dN^T dN: {bad}")
        else:
            r.ok(f"GradUGradV dim {dim}: K_e == k*wJ*dN^T dN")
        f = repo.func(BIL + ".GradU_A_GradV")
        r.instance(fn=f.qualname)
        # a general (non-symmetric) tensor: the operator is documented as grad(u) . A . grad(v), rows following u
        A = XArray((dim, dim), [Poly.var(f"A{i}{j}") for i in range(dim) for j in range(dim)])
        Ka = XArray.from_nested(g.call_func(f.qualname, g.obj, A, k, g.mt))
        bad = None
        for a in range(nPe):
            for b in range(nPe):
                want = Poly()
                for i in range(dim):
                    for j in range(dim):
                        want = want + g.d[i][a] * A[i, j] * g.d[j][b]
                want = want * k * g.wJ
                if not is_zero(Ka[0, a, b] - want):
                    bad = f"entry ({a},{b})"
        if bad:
            r.fail(f.qualname, f"dim{dim}", f.file, f.lineno, "GradU_A_GradV", f"anisotropic conductivity operator is not k*wJ*dN^T A dN for a non-symmetric A (rows follow grad u, columns grad v, as the user form (u.grad @ A).dot(v.grad)): {bad}")
        else:
            r.ok(f"GradU_A_GradV dim {dim}: K_e == k*wJ*dN^T A dN")
    # beam operators, interpreted on a stand-in element (one element, two integration points, a generic 3 x 4 operator X and a
    # generic symmetric-free middle factor S): the result must be sum_p w_p X_p^T S_p X_p entry by entry.  (The einsum
    # subscripts used to be parsed from the call syntax: "no einsum found" on a rewrite that moved the contraction into a
    # helper, refactored/C01-R3.)  The Timoshenko split is decided by R2.6; here the Euler-Bernoulli / generic path.
    from ..femchain import XFe

    ns, nd, npg = 3, 4, 2
    wv = [Poly.var(f"w{p}") for p in range(npg)]
    Xv = [[[Poly.var(f"X{p}{a}{b}") for b in range(nd)] for a in range(ns)] for p in range(npg)]
    Sv = [[[Poly.var(f"S{p}{a}{b}") for b in range(ns)] for a in range(ns)] for p in range(npg)]
    want = [[sum((wv[p] * Xv[p][a][i_] * Sv[p][a][b] * Xv[p][b][j_] for p in range(npg) for a in range(ns) for b in range(ns)), Poly.const(0)) for j_ in range(nd)] for i_ in range(nd)]
    for fname, getter, mid in (("BeamStiffness", "Get_beam_B_e_pg", "Calc_D_e_pg"), ("BeamBending", "Get_beam_B_e_pg", "Calc_D_e_pg"), ("BeamMass", "Get_beam_N_e_pg", "Calc_M_e_pg")):
        f = repo.func(f"{BIL}.{fname}")
        r.instance(fn=f.qualname)
        g = XObj(repo.cls("EasyFEA.FEM._group_elem._GroupElem"), dict(Ne=1, nPe=2))
        g.attrs["Get_weightedJacobian_e_pg"] = lambda mt=None: XFe((1, npg), list(wv))
        g.attrs[getter] = lambda bs=None, mt=None: XFe((1, npg, ns, nd), [Xv[p][a][b] for p in range(npg) for a in range(ns) for b in range(nd)])
        bs = SimpleNamespace(dim=1, dof_n=2)
        setattr(bs, mid, lambda ge=None, mt=None: XFe((1, npg, ns, ns), [Sv[p][a][b] for p in range(npg) for a in range(ns) for b in range(ns)]))
        I_b = Interp(repo)
        I_b.call_hook = fe_hook_full
        try:
            out = XArray.from_nested(I_b.call_function(f, [g, bs]))
        except XRaise as e:
            r.fail(f.qualname, "einsum", f.file, f.lineno, fname, f"raises {e}")
            continue
        bad = None
        if out.shape != (1, nd, nd):
            bad = f"shape {out.shape}, expected (1, {nd}, {nd})"
        else:
            for i_ in range(nd):
                for j_ in range(nd):
                    if bad is None and not is_zero(Poly.of(out[0, i_, j_]) - want[i_][j_]):
                        bad = f"entry [{i_},{j_}] is not sum_p w_p (X_p^T S_p X_p)[{i_},{j_}]"
        if bad:
            r.fail(f.qualname, "einsum", f.file, f.lineno, fname, f"on a generic operator X (3 x 4), middle factor S and weights w at two integration points the result is not the congruence sum_p w X^T S X: {bad}")
        else:
            r.ok(f"{fname} == sum_p w X^T S X on generic X, S, w")


def rank_rules(ctx, lib, gl, only_stiffness=False):
    """R2.2 counting bound on a two-element patch."""
    repo = ctx.repo
    r = ctx.rule("R2.2", "quadrature rich enough: 2*nPg*s >= Ndof(two-element patch) - kernel (necessary for the physical kernel)", min_instances=(19 * 2 - 4) if only_stiffness else (19 * 3 - 4))
    fac = repo.method(GAUSS, "Gauss_factory")
    out = {}
    for name in lib.names((1, 2, 3)):
        ed = lib.get(name)
        dim = ed.dim
        # number of nodes on one face (shared by the two elements)
        nface = face_node_count(lib, name)
        Nn = 2 * ed.nPe - nface
        problems = ([] if dim == 1 else [
            ("elastic-K", "rigi", dim, {1: 1, 2: 3, 3: 6}[dim], {1: 1, 2: 3, 3: 6}[dim]),
        ]) + [
            ("thermal-K", "rigi", 1, dim, 1),
            ("mass", "mass", 1, 1, 0),
        ]
        for label, mt, dof_n, s, kernel in problems:
            if only_stiffness and label == "mass":
                continue
            r.instance(fn=fac.qualname)
            res = gl.factory(name, mt)
            if res[0] == "raise":
                r.fail(f"{fac.qualname}[{name},{mt}]", "no-rule", fac.file, fac.lineno, "Gauss.Gauss_factory", f"({name},{mt}) raises")
                continue
            npg = res[1] if res[0] == "gl" else res[2]
            need = Nn * dof_n - kernel
            bound = 2 * npg * s
            out[f"{name}/{label}"] = dict(nPg=npg, bound=bound, need=need)
            con = f"{fac.qualname}[{name},{mt}]"
            if bound >= need:
                r.ok(f"{name} {label}: 2*{npg}*{s} = {bound} >= {need}")
            else:
                r.fail(con, f"rank-count:{label}", fac.file, fac.lineno, "Gauss.Gauss_factory",
                       f"{name}, MatrixType.{mt} -> {npg} Gauss point(s): the {label} matrix of a two-element patch ({Nn} nodes) has rank <= 2*{npg}*{s} = {bound} < {need} = dofs - physical kernel: spurious zero-energy modes")
    ctx.extra["rank_count"] = out


def face_node_count(lib, name):
    ed = lib.get(name)
    if ed.dim == 1:
        return 1
    f = lib.repo.lookup_method(ed.cls, "faces")
    faces = XArray.from_nested(lib.I.call_function(f, [], self_obj=ed.obj))
    if ed.dim == 2:
        # 2D: `faces` lists the boundary contour; one edge has order+1 nodes
        return ed.order + 1
    if faces.ndim == 2:
        return faces.shape[1]
    if faces.ndim == 1 and all(isinstance(x, (list, tuple)) for x in faces.data):
        # prisms (ragged table): the larger face shares more nodes -> weaker, sound requirement
        return max(len(x) for x in faces.data)
    # prisms: ragged handled by the class as a flat list -> use the smallest face (triangle) conservatively? use the largest: more shared nodes = fewer dofs = weaker requirement
    return max(ed.order + 1, 3)


def weights_rule(ctx, gl, lib):
    repo = ctx.repo
    r = ctx.rule("R2.4", "every rule the factory can return has strictly positive weights", min_instances=40)
    fac = repo.method(GAUSS, "Gauss_factory")
    seen = {}
    for e in gl.et_members:
        if e == "POINT":
            continue
        for m in gl.mt_members:
            res = gl.factory(e, m)
            if res[0] != "rule":
                if res[0] == "gl":
                    r.instance(fn=fac.qualname)
                    r.ok()
                continue
            r.instance(fn=fac.qualname)
            rule = gl.rule(res[1], res[2])
            neg = [i for i, w in enumerate(rule.w) if not (w > 0)]
            if neg:
                r.fail(f"{fac.qualname}[{e},{m}]", "negative-weight", fac.file, fac.lineno, "Gauss.Gauss_factory",
                       f"({e},{m}) selects the {res[2]}-point {res[1]} rule whose weight(s) {neg} are not positive: the mass / stiffness matrix loses definiteness")
            else:
                r.ok(f"({e},{m}) -> {res[1]}{res[2]}: all weights > 0" if (res[1], res[2]) not in seen else None)
            seen[(res[1], res[2])] = True
    # the tabulated rules with a negative weight must stay unreachable
    unreachable = []
    from ..gausslib import SHAPE_FUNCS

    for shape in SHAPE_FUNCS:
        for n in gl.available(shape)[0]:
            rule = gl.rule(shape, n)
            if rule and any(not (w > 0) for w in rule.w):
                unreachable.append(f"{shape}{n}")
                if (shape, n) in seen:
                    pass
    r.note(f"tabulated rules with a non-positive weight (not selected by the factory): {unreachable}")


def sri_rule(ctx, lib):
    repo = ctx.repo
    r = ctx.rule("R2.6", "Timoshenko selective integration: bending rows + shear rows partition the diagonal of D; row tables of BeamBending, BeamShear, Isotropic.Get_D and _Timoshenko.Get_beam_B_e_pg agree", min_instances=4)
    # BeamBending and BeamShear are interpreted on a Timoshenko stand-in whose strain operator is the identity and whose D is
    # diag(d0, d1, ...): each returns the diagonal entries it integrates.  (The rows used to be read off the SYNTAX - a dict
    # literal and the shape of the zeroing loops - which failed on a vectorised rewrite, refactored/C02-R5.)
    tim_ci = repo.cls("EasyFEA.FEM.Elems._beam._Timoshenko")
    shear = {}
    for dim in (2, 3):
        n = 3 if dim == 2 else 6
        kept = {}
        for fname in ("BeamBending", "BeamShear"):
            f = repo.func(f"{BIL}.{fname}")
            r.instance(fn=f.qualname)
            g = XObj(tim_ci, dict(Ne=1, nPe=1))
            eye = XArray((1, 1, n, n), [Q(1) if a == b else Q(0) for a in range(n) for b in range(n)])
            g.attrs["Get_weightedJacobian_e_pg"] = lambda mt=None: XArray((1, 1), [Q(1)])
            g.attrs["Get_beam_B_e_pg"] = lambda bs=None, mt=None, _e=eye: XArray(_e.shape, list(_e.data))
            bs = SimpleNamespace(dim=dim, dof_n=n, Calc_D_e_pg=lambda ge=None, mt=None, _n=n: XArray((1, 1, _n, _n), [Poly.var(f"d{a}") if a == b else Q(0) for a in range(_n) for b in range(_n)]))
            out = XArray.from_nested(Interp(repo).call_function(f, [g, bs]))
            off = [(a, b) for a in range(n) for b in range(n) if a != b and not is_zero(out[0, a, b])]
            if off:
                r.fail(f.qualname, f"offdiag{dim}", f.file, f.lineno, fname, f"dim {dim}: with a diagonal D and B = identity the operator has off-diagonal entries {off}")
                kept[fname] = None
                continue
            rows, bad = [], None
            for a in range(n):
                v = Poly.of(out[0, a, a])
                if is_zero(v):
                    continue
                if is_zero(v - Poly.var(f"d{a}")):
                    rows.append(a)
                else:
                    bad = f"row {a} is integrated as {v} instead of d{a}"
            if bad:
                r.fail(f.qualname, f"weight{dim}", f.file, f.lineno, fname, f"dim {dim}: {bad}")
                kept[fname] = None
            else:
                kept[fname] = tuple(rows)
                r.ok(f"{fname} dim {dim}: integrates rows {tuple(rows)} of D")
        if kept.get("BeamBending") is None or kept.get("BeamShear") is None:
            continue
        f = repo.func(f"{BIL}.BeamShear")
        r.instance(fn=f.qualname)
        both = sorted(set(kept["BeamBending"]) & set(kept["BeamShear"]))
        none = [a for a in range(n) if a not in kept["BeamBending"] and a not in kept["BeamShear"]]
        if both or none:
            r.fail(f.qualname, "shear_rows", f.file, f.lineno, "BeamShear", f"dim {dim}: the bending operator integrates rows {kept['BeamBending']} and the shear operator rows {kept['BeamShear']}: " + (f"rows {both} are integrated twice" if both else f"rows {none} are never integrated"))
        else:
            r.ok(f"dim {dim}: bending rows {kept['BeamBending']} + shear rows {kept['BeamShear']} partition D")
        shear[dim] = kept["BeamShear"]
    # Isotropic.Get_D(True): diagonal, shear entries exactly at shear rows
    iso = repo.cls("EasyFEA.Models.Beam._beam.Isotropic")
    fD = repo.lookup_method(iso, "Get_D")
    I = Interp(repo)
    for dim in (2, 3):
        r.instance(fn=fD.qualname)
        obj = XObj(iso, dict(dim=dim, section=SimpleNamespace(area=Poly.var("A")), Iy=Poly.var("Iy"), Iz=Poly.var("Iz"), J=Poly.var("J"),
                             E=Poly.var("E"), mu=Poly.var("mu"), _ky=Poly.var("ky"), _kz=Poly.var("kz")))
        D = XArray.from_nested(I.call_function(fD, [True], self_obj=obj))
        n = D.shape[0]
        offdiag = [(i, j) for i in range(n) for j in range(n) if i != j and not is_zero(D[i, j])]
        rows = tuple(i for i in range(n) if any(v in ("ky", "kz") for v in Poly.of(D[i, i]).vars()))
        if offdiag:
            r.fail(fD.qualname, f"diag{dim}", fD.file, fD.lineno, "Isotropic.Get_D", f"dim {dim}: D has off-diagonal entries {offdiag}: the bending/shear split (which zeroes diagonal entries only) double counts them")
        elif rows != shear.get(dim):
            r.fail(fD.qualname, f"rows{dim}", fD.file, fD.lineno, "Isotropic.Get_D", f"dim {dim}: shear stiffness sits on rows {rows} of D but the operators treat rows {shear.get(dim)} as shear")
        else:
            r.ok(f"Get_D(True) dim {dim}: diagonal, shear terms on rows {rows}")
    # _Timoshenko.Get_beam_B_e_pg: rows that mix N (value) terms are the shear rows
    tim = repo.cls("EasyFEA.FEM.Elems._beam._Timoshenko")
    fB = tim.methods["Get_beam_B_e_pg"]
    for dim in (2, 3):
        r.instance(fn=fB.qualname)
        dof_n = 3 if dim == 2 else 6
        nPe = 2
        obj = XObj(tim, dict(nPe=nPe, Ne=1))
        obj.attrs["Get_N_pg"] = lambda mt=None: XArray((1, 1, nPe), [Poly.var(f"n{i}") for i in range(nPe)])
        obj.attrs["Get_dN_e_pg"] = lambda mt=None: XFe((1, 1, 1, nPe), [Poly.var(f"d{i}") for i in range(nPe)])
        obj.attrs["_Compute_P_e_pg"] = lambda beamStructure=None: XFe((1, 1, dof_n * nPe, dof_n * nPe), [Q(1) if i == j else Q(0) for i in range(dof_n * nPe) for j in range(dof_n * nPe)])
        I2 = Interp(repo)
        I2.call_hook = fe_hook_full
        bs = SimpleNamespace(dim=dim, dof_n=dof_n)
        B = XArray.from_nested(I2.call_function(fB, [bs, Opaque("mt")], self_obj=obj))
        ns = B.shape[2]
        rows = tuple(i for i in range(ns) if any(v.startswith("n") for c in range(B.shape[3]) for v in Poly.of(B[0, 0, i, c]).vars()))
        if rows == shear.get(dim):
            r.ok(f"_Timoshenko.Get_beam_B_e_pg dim {dim}: rows {rows} carry the v' - theta terms")
        else:
            r.fail(fB.qualname, f"rows{dim}", fB.file, fB.lineno, "_Timoshenko.Get_beam_B_e_pg", f"dim {dim}: shear strains are on rows {rows} of B but the operators integrate rows {shear.get(dim)} with the reduced rule")


def _face_nodes(lib, name):
    """node lists of the boundary faces (3D) / edges (2D) / end points (1D)"""
    ed = lib.get(name)
    if ed.dim == 1:
        return [[0], [1]]
    f = lib.repo.lookup_method(ed.cls, "faces")
    faces = XArray.from_nested(lib.I.call_function(f, [], self_obj=ed.obj))
    if ed.dim == 2:
        # contour list: consecutive vertices delimit the edges; nodes on an edge = those on the segment
        nv = ed.info["Nvertex"]
        out = []
        for k in range(nv):
            a, b = ed.coords[k], ed.coords[(k + 1) % nv]
            on = []
            for n, c in enumerate(ed.coords):
                cr = (b[0] - a[0]) * (c[1] - a[1]) - (b[1] - a[1]) * (c[0] - a[0])
                if cr == 0:
                    on.append(n)
            out.append(on)
        return out
    if faces.ndim == 2:
        return [[int(x) for x in row.data] for row in faces]
    return [[int(x) for x in row] for row in faces.data]


def _reflection(ed, nodes):
    """linear part and origin of the reflection through the face spanned by `nodes`"""
    dim = ed.dim
    p0 = ed.coords[nodes[0]]
    if dim == 1:
        n = [Q(1)]
    elif dim == 2:
        p1 = ed.coords[nodes[1]]
        t = [p1[0] - p0[0], p1[1] - p0[1]]
        n = [-t[1], t[0]]
    else:
        p1, p2 = ed.coords[nodes[1]], ed.coords[nodes[2]]
        u = [p1[k] - p0[k] for k in range(3)]
        v = [p2[k] - p0[k] for k in range(3)]
        n = [u[1] * v[2] - u[2] * v[1], u[2] * v[0] - u[0] * v[2], u[0] * v[1] - u[1] * v[0]]
    nn = sum(x * x for x in n)
    R = [[(Q(1) if i == j else Q(0)) - 2 * n[i] * n[j] / nn for j in range(dim)] for i in range(dim)]
    return R


def patch_rank(ctx, lib, gl, names=None, kinds=("mass", "thermal-K", "elastic-K")):
    """R2.3: exact rank of the constraint matrix of two reference elements
    glued along each face type (element B is the mirror image of A through the
    face).  Rank is invariant under invertible affine maps of each element, so
    the reference patch decides every affine two-element patch."""
    r = ctx.rule("R2.3", "exact rank (in Q / Q(sqrt d)) of the two-element reference patch equals dofs - physical kernel", min_instances=0)
    repo = ctx.repo
    fac = repo.method(GAUSS, "Gauss_factory")
    out = {}
    for name in names or lib.names((1, 2, 3)):
        ed = lib.get(name)
        dim = ed.dim
        N = [ed.tables["N"][1].data[a] for a in range(ed.nPe)]
        dN = ed.tables["dN"][1]
        faces = _face_nodes(lib, name)
        # one representative per face size
        reps = {}
        for fnodes in faces:
            reps.setdefault(len(fnodes), fnodes)
        for kind in kinds:
            if kind == "elastic-K" and dim == 1:
                continue
            mt = "mass" if kind == "mass" else "rigi"
            res = gl.factory(name, mt)
            if res[0] == "raise":
                continue
            if res[0] == "gl":
                continue  # segments: decided by the counting rule (Gauss-Legendre abscissae are not in a quadratic field)
            rule = gl.rule(res[1], res[2])
            for fsize, fnodes in reps.items():
                r.instance(fn=fac.qualname)
                R = _reflection(ed, fnodes)
                # global numbering: A nodes 0..nPe-1, B nodes on the face reuse, others appended
                gidB = {}
                nxt = ed.nPe
                for a in range(ed.nPe):
                    if a in fnodes:
                        gidB[a] = a
                    else:
                        gidB[a] = nxt
                        nxt += 1
                Nn = nxt
                dof_n = dim if kind == "elastic-K" else 1
                ncol = Nn * dof_n
                rows = []
                for elem in ("A", "B"):
                    gid = {a: a for a in range(ed.nPe)} if elem == "A" else gidB
                    for p in rule.pts:
                        env = dict(zip(ed.vars, p))
                        if kind == "mass":
                            row = [Q(0)] * ncol
                            for a in range(ed.nPe):
                                row[gid[a]] = N[a].eval(env)
                            rows.append(row)
                            continue
                        g = [[dN[a, k].eval(env) for k in range(dim)] for a in range(ed.nPe)]
                        if elem == "B":
                            g = [[sum(R[i][k] * ga[k] for k in range(dim)) for i in range(dim)] for ga in g]
                        if kind == "thermal-K":
                            for i in range(dim):
                                row = [Q(0)] * ncol
                                for a in range(ed.nPe):
                                    row[gid[a]] = g[a][i]
                                rows.append(row)
                        else:
                            comps = [(0, 0), (1, 1), (0, 1)] if dim == 2 else [(0, 0), (1, 1), (2, 2), (1, 2), (0, 2), (0, 1)]
                            for (i, j) in comps:
                                row = [Q(0)] * ncol
                                for a in range(ed.nPe):
                                    if i == j:
                                        row[gid[a] * dim + i] = g[a][i]
                                    else:
                                        row[gid[a] * dim + i] = g[a][j]
                                        row[gid[a] * dim + j] = g[a][i]
                                rows.append(row)
                rk = exact_rank(rows)
                kernel = {"mass": 0, "thermal-K": 1, "elastic-K": {2: 3, 3: 6}.get(dim, 1)}[kind]
                need = ncol - kernel
                out[f"{name}/{kind}/face{fsize}"] = dict(rank=rk, need=need, nPg=rule.n)
                con = f"{fac.qualname}[{name},{mt}]"
                if rk == need:
                    r.ok(f"{name} {kind} (face of {fsize} nodes): rank {rk} == {ncol} - {kernel}")
                else:
                    r.fail(con, f"rank-exact:{kind}", fac.file, fac.lineno, "Gauss.Gauss_factory",
                           f"{name}, MatrixType.{mt} -> {rule.n} Gauss points: the {kind} matrix of two elements sharing a {fsize}-node face has exact rank {rk} but {need} = dofs - physical kernel is required: {need - rk} spurious zero-energy mode(s)")
    ctx.extra["patch_rank"] = out


def run(ctx):
    from . import c14 as _c14m

    # 'M carries the mass': a memoised element matrix that reads state of the simulation (rho, thickness) outside its key
    ctx.attempt(_c14m.simu_memo_state_rule, ctx, 'R2.16')
    from ..shared import copy_out_rule as _cor

    # the K, C, M handed out stay symmetric / definite whatever the caller does with an earlier copy: whole copies, no shared index arrays
    ctx.attempt(_cor, ctx, 'R2.15', ['Get_K_C_M_F'], 'EasyFEA.Simulations._simu._Simu')
    from . import c11 as _c11s

    # 'M carries the mass rho * measure' after ANY change of a parameter: the parameter descriptors raise Need_Update on every assignment
    ctx.attempt(lambda: _c11s.descriptor_rule(ctx, ctx.rule('R2.14', 'parameter descriptors (rho, thickness, moduli): every assignment raises Need_Update on the owner, also a tiny change and an array edited in place and assigned again; __get__ hands out a copy', min_instances=2)))
    from . import e2e_rules as _e2e

    ctx.attempt(_e2e.heterogeneous_rule, ctx, 'R2.E3')
    ctx.attempt(_e2e.beam_rule, ctx, 'R2.E2')
    ctx.attempt(_e2e.operators_rule, ctx, 'R2.E1')
    from .c12 import coefficient_table_rule as _coefficient_table_rule

    ctx.attempt(_coefficient_table_rule, ctx, "R2.11")
    # 'K is PSD, M is SPD' on any connected mesh, mirrored parts included: the weighted Jacobian is |det F| element by element
    from . import c08 as _c08

    ctx.attempt(_c08.measure_rule, ctx)
    # 'beam mass matrices carry the correct translational mass, rigid-body motions are the kernel': orthonormal member frames
    from . import c10 as _c10

    ctx.attempt(_c10.stored_frame_rule, ctx)
    from ..shared import element_system_thickness_rule as _thick

    ctx.attempt(_thick, ctx, "R2.10", ["EasyFEA.Simulations._elastic.Elastic", "EasyFEA.Simulations._thermal.Thermal", "EasyFEA.Simulations._phasefield.PhaseField", "EasyFEA.Simulations._inelastic.InElastic", "EasyFEA.Simulations._weakforms.WeakForms"])
    ctx.attempt(_c10.fibre_derivative_rule, ctx)
    from ..shared import group_loop_leak_rule as _group_loop_leak_rule

    ctx.attempt(_group_loop_leak_rule, ctx, "R2.9", scope=lambda f, _s=("EasyFEA.Simulations",): f.module.name.startswith(_s), min_instances=8)
    ctx.level = "other"
    ctx.explanation = (
        "The spectrum of an assembled matrix is a run-time quantity and is NOT decided. Decided statically: (R2.1) each element operator of "
        "Operators/Bilinear.py, interpreted on one element with opaque geometric factors, is the congruence wJ*X^T S X in the interleaved dof layout "
        "(so symmetric PSD for symmetric PSD S); (R2.2) a sound necessary condition for the physical kernel: the number of Gauss points the factory "
        "selects bounds the rank of a two-element patch from above; (R2.4) factory rules have positive weights; (R2.6) the Timoshenko bending/shear "
        "split is a partition of a diagonal D. Thorough adds exact element-rank computations in Q(sqrt d)."
    )
    ctx.assume("constitutive matrices are symmetric positive definite (C11); the geometric factors wJ > 0")
    lib = ElemLib(ctx.repo)
    gl = GaussLib(ctx.repo)
    congruence_rules(ctx, lib)
    ctx.attempt(pointwise_inverse_rule, ctx, lib)
    ctx.attempt(structure_assignment_rule, ctx)
    rank_rules(ctx, lib, gl)
    weights_rule(ctx, gl, lib)
    beamops.rule(ctx, lib, "R2.7")
    thickness_guard_rule(ctx)
    # the beam frame block (global -> local) decides which motions are in ker K of an inclined beam: R10.1
    from . import c10

    c10.frame_rule(ctx)
    sri_rule(ctx, lib)
    if ctx.tier == "thorough":
        patch_rank(ctx, lib, gl)
    else:
        # cheap subset: every 2-D type and the small 3-D types
        patch_rank(ctx, lib, gl, names=[n for n in lib.names((2, 3)) if lib.get(n).nPe <= 15])


def thickness_guard_rule(ctx):
    """R2.8: the 2-D thickness factor of the element matrices is guarded by `self.dim == 2`, and _Simu.dim is the
    MODEL's dim: the guard must be satisfiable for the model class the simulation is built on."""
    repo = ctx.repo
    r = ctx.rule("R2.8", "thickness factor of K, C, M on 2-D problems: the guard `self.dim == 2` of the thickness rescale can hold for the simulation's model class (its `dim` parameter admits 2)", min_instances=3)
    simu = repo.cls("EasyFEA.Simulations._simu._Simu")
    finit = simu.methods["__init__"]
    # _Simu.dim is the model's dim
    src = [n for n in ast.walk(finit.node) if isinstance(n, (ast.Assign, ast.AnnAssign)) and "dim" in norm_text(n.targets[0] if isinstance(n, ast.Assign) else n.target) and norm_text(n.value) == "model.dim"]
    if not src:
        raise AnalysisError("_Simu.__init__ no longer takes its dim from model.dim: R2.8 anchor moved")

    def dim_domain(mc):
        for c in mc.mro:
            e = c.class_attrs.get("dim")
            if e is not None:
                if isinstance(e, ast.Call) and (dotted(e.func) or "").endswith("ParameterInValues") and e.args and isinstance(e.args[0], (ast.List, ast.Tuple)):
                    return [x.value for x in e.args[0].elts if isinstance(x, ast.Constant)]
                return None
            if "dim" in c.methods:
                return None
        return None

    for ci in sorted(repo.subclasses(simu), key=lambda c: c.qualname):
        init = ci.methods.get("__init__")
        if init is None or init.cls is not ci:
            continue
        ann = next((a.annotation for a in init.node.args.args if a.arg == "model"), None)
        mc = repo.resolve_name(ci.module, dotted(ann)) if ann is not None and dotted(ann) else None
        guards = []  # (function, node, guard subject)
        for nm, f in ci.methods.items():
            if f.cls is not ci or nm != f.node.name:
                continue
            loc = Locals(f.node)
            for n in ast.walk(f.node):
                if isinstance(n, (ast.If, ast.IfExp)) and isinstance(n.test, ast.Compare) and len(n.test.ops) == 1 and isinstance(n.test.ops[0], ast.Eq):
                    left = norm_text(loc.resolve(n.test.left))
                    right = n.test.comparators[0]
                    branches = (n.body + n.orelse) if isinstance(n, ast.If) else [n.body, n.orelse]
                    if left in ("self.dim", "self.mesh.dim", "self.mesh.inDim", "groupElem.dim", "groupElem.inDim") and isinstance(right, ast.Constant) and right.value in (2, 3) and any("thickness" in norm_text(b) for b in branches):
                        guards.append((f, n, left, right.value))
        def real_thickness(c):
            # a settable parameter, or a property that returns something other than a constant (BeamStructure returns None: sections carry the area)
            if "thickness" in c.class_attrs:
                return True
            m = c.methods.get("thickness")
            if m is None:
                return None
            rets = [x for x in ast.walk(m.node) if isinstance(x, ast.Return)]
            return any(x.value is not None and not isinstance(x.value, ast.Constant) for x in rets)

        has_thickness = False
        if mc is not None and hasattr(mc, "mro"):
            for c in mc.mro:
                t = real_thickness(c)
                if t is not None:
                    has_thickness = t
                    break
        builds = ci.methods.get("Construct_local_matrix_system")
        if not guards:
            if has_thickness and builds is not None and builds.cls is ci:
                r.instance(fn=builds.qualname)
                r.fail(builds.qualname, f"no-thickness:{ci.name}", builds.file, builds.lineno, f"{ci.name}.Construct_local_matrix_system", f"model {mc.name} carries a thickness but no method of {ci.name} applies it under a 2-D guard")
            continue
        selfdim = [g for g in guards if g[2] == "self.dim"]
        if not selfdim:
            f, n = guards[0][:2]
            r.instance(fn=f.qualname)
            r.ok(f"{ci.name}: thickness applied under a mesh-dimension guard ({guards[0][2]} == {guards[0][3]})")
            continue
        guards = [(g[0], g[1]) for g in selfdim]
        f, n = guards[0]
        r.instance(fn=f.qualname)
        dom = dim_domain(mc) if mc is not None and hasattr(mc, "mro") else None
        if dom is None:
            r.ok(f"{ci.name}: model dim is derived (not a literal domain); {len(guards)} thickness guard(s) on self.dim == 2")
        elif 2 in dom:
            r.ok(f"{ci.name}: model {mc.name}.dim in {dom}; {len(guards)} thickness guard(s) on self.dim == 2")
        else:
            r.fail(f.qualname, f"dead-thickness-guard:{ci.name}", f.file, n.lineno, f"{ci.name}.{f.name}", f"the thickness rescale is guarded by `self.dim == 2`, but _Simu.dim is {mc.name}.dim, which only takes the values {dom}: on a 2-D mesh K, C (and M) are never multiplied by the thickness while surface loads are - capacity sums to rho c area instead of rho c area thickness, and a flux load gives a temperature off by the factor thickness")


def anisotropic_operator_rule(ctx, lib, rid):
    """shared with C13 ('the same matrix as the built-in operator for that form'): Operators.Bilinear.GradU_A_GradV on an
    opaque element with a general (non-symmetric) tensor A is  k * wJ * sum_ij dN_ia A_ij dN_jb  -- the per-point meaning of
    the user form (u.grad @ A).dot(v.grad) that R13.8 checks on the form side (row = trial function, column = test)."""
    repo = ctx.repo
    r = ctx.rule(rid, "built-in anisotropic diffusion operator == k*wJ*sum_ij dN_ia A_ij dN_jb for a non-symmetric A (the meaning of the form (u.grad @ A).dot(v.grad))", min_instances=2)
    f = repo.func(BIL + ".GradU_A_GradV")
    for name in ("TRI3", "TETRA4"):
        g = OpaqueGroup(lib, name, nPe=2)
        dim, nPe = g.dim, g.nPe
        r.instance(fn=f.qualname)
        k = Poly.var("k")
        A = XArray((dim, dim), [Poly.var(f"A{i}{j}") for i in range(dim) for j in range(dim)])
        Ka = XArray.from_nested(g.call_func(f.qualname, g.obj, A, k, g.mt))
        bad = None
        for a in range(nPe):
            for b in range(nPe):
                want = Poly()
                for i in range(dim):
                    for j in range(dim):
                        want = want + g.d[i][a] * A[i, j] * g.d[j][b]
                want = want * k * g.wJ
                if not is_zero(Ka[0, a, b] - want):
                    bad = f"entry ({a},{b}) is {Ka[0, a, b]!r}, the form means {want!r}"
        if bad:
            r.fail(f.qualname, f"dim{dim}", f.file, f.lineno, "GradU_A_GradV", f"dim {dim}: {bad}: for a non-symmetric A the built-in operator integrates grad(u) . A^T . grad(v) (or another contraction), not the form it is documented for")
        else:
            r.ok(f"GradU_A_GradV dim {dim}: non-symmetric A, K_e[a,b] == k*wJ*dN_a . A . dN_b")


def pointwise_inverse_rule(ctx, lib, rid="R2.12"):
    """'no missing zero-energy mode': the physical gradient dN/dx = invF . dN/dxi uses, at EVERY integration point, the
    inverse of the Jacobian matrix AT THAT POINT.  Get_invF_e_pg is interpreted on curved (non-affine) TRI6 and TETRA10
    elements -- a mid-side node moved off its chord, where the Jacobian varies inside the element -- at two integration
    points: invF[e, p] . F[e, p] must be the identity at both.  (An inverse taken at one point and repeated keeps
    translations in the kernel of K but gives a rigid rotation strain energy.)"""
    from types import SimpleNamespace

    from ..femchain import Chain

    repo = ctx.repo
    f = repo.method("EasyFEA.FEM._group_elem._GroupElem", "Get_invF_e_pg")
    r = ctx.rule(rid, "Get_invF_e_pg is the point-wise inverse of Get_F_e_pg on curved simplex elements (invF[e,p] F[e,p] == I at every integration point)", min_instances=5)
    cases = {"TRI6": ([(Q(1, 6), Q(1, 6)), (Q(2, 3), Q(1, 6))], 3, (Q(1, 7), Q(-1, 9)), False), "TETRA10": ([(Q(1, 5), Q(1, 6), Q(1, 7)), (Q(1, 2), Q(1, 6), Q(1, 8))], 4, (Q(1, 7), Q(-1, 9), Q(1, 11)), False),
             # the same elements MIRRORED (x -> -x: det F < 0 everywhere, as after Mesh.Symmetry), and straight mirrored QUAD4 / HEXA8
             "TRI6 mirrored": ([(Q(1, 6), Q(1, 6)), (Q(2, 3), Q(1, 6))], 3, (Q(1, 7), Q(-1, 9)), True), "QUAD4 mirrored": ([(Q(-1, 2), Q(-1, 3)), (Q(1, 3), Q(1, 2))], None, None, True), "TETRA4 mirrored": ([(Q(1, 5), Q(1, 6), Q(1, 7))], None, None, True)}
    for label, (pts, moved, delta, mirror) in cases.items():
        name = label.split()[0]
        r.instance(fn=f.qualname)
        ch = Chain(lib, name, symbolic_vertices=False, fe=True)
        dim = ch.ed.dim
        a = ch.obj.attrs
        coord = a["coord"]
        rows = [[coord[n, k] for k in range(3)] for n in range(coord.shape[0])]
        for k in range(dim):
            if moved is not None:
                rows[moved][k] = rows[moved][k] + delta[k]  # the first mid-side node leaves its chord: a curved edge
        if mirror:
            rows = [[-row[0]] + row[1:] for row in rows]
        a["coord"] = XArray.from_nested(rows)
        nP = len(pts)
        a["Get_gauss"] = lambda mt=None, pts=pts, nP=nP, dim=dim: SimpleNamespace(coord=XArray((nP, dim), [v for p in pts for v in p]), nPg=nP, weights=XArray((nP,), [Q(1, 6)] * nP))
        a["Get_weight_pg"] = lambda mt=None, nP=nP: XArray((nP,), [Q(1, 6)] * nP)
        F = XArray.from_nested(ch.F())
        iF = XArray.from_nested(ch.invF())
        bad = None
        if iF.shape != F.shape:
            bad = f"shape {iF.shape} for F of shape {F.shape}"
        else:
            for p in range(nP):
                for i in range(dim):
                    for j in range(dim):
                        tot = sum((iF[0, p, i, k] * F[0, p, k, j] for k in range(dim)), Q(0))
                        if bad is None and not is_zero(Poly.of(tot) - (1 if i == j else 0)):
                            bad = f"(invF . F)[{i}][{j}] at integration point {p} is {tot}"
        if bad:
            r.fail(f.qualname, f"pointwise-inverse:{label}", f.file, f.lineno, "_GroupElem.Get_invF_e_pg", f"{'curved ' if moved is not None else ''}{label}{' (one mid-side node off its chord)' if moved is not None else ''}: {bad}: the inverse Jacobian is not taken at the integration point, dN/dx is not the physical gradient there and a rigid rotation stores strain energy (K loses a rigid-body mode on curved meshes)")
        else:
            r.ok(f"{label}: invF F == I at {nP} integration points")


def structure_assignment_rule(ctx, rid="R2.13"):
    """'beam mass matrices ... with the correct translational mass' / the stiffness law of every member: a BeamStructure
    writes, on the elements tagged with each member's name, THAT member's law.  Calc_D_e_pg, Calc_M_e_pg and Get_axis_e are
    interpreted on a structure of three members with distinct symbolic laws / axes and interleaved element tags: row e of
    the result is the law (axis) of the member that owns element e."""
    from types import SimpleNamespace

    from ..femchain import XFe, fe_hook_full

    repo = ctx.repo
    ci = repo.cls("EasyFEA.Models.Beam._beam.BeamStructure")
    r = ctx.rule(rid, "BeamStructure.Calc_D_e_pg / Calc_M_e_pg / Get_axis_e give every element the law / axes of the member that owns it (three members with distinct laws, interleaved elements)", min_instances=3)
    owner = [0, 2, 1, 0, 2]  # member of each of the 5 elements
    names = ["beam0", "beam1", "beam2"]

    def law(tag, k):
        return XArray((2, 2), [Poly.var(f"{tag}{k}_{i}{j}") for i in range(2) for j in range(2)])

    beams = [SimpleNamespace(name=names[k], Get_D=lambda t=False, k=k: law("D", k), Get_M=lambda k=k: law("M", k),
                             xAxis=XArray((3,), [Poly.var(f"x{k}{c}") for c in range(3)]), yAxis=XArray((3,), [Poly.var(f"y{k}{c}") for c in range(3)])) for k in range(3)]
    group = SimpleNamespace(Ne=5, dim=1, Get_gauss=lambda mt=None: SimpleNamespace(nPg=2), Get_Elements_Tag=lambda tag: XArray.from_nested([e for e, o in enumerate(owner) if names[o] == tag]))
    for mname, tag in (("Calc_D_e_pg", "D"), ("Calc_M_e_pg", "M"), ("Get_axis_e", "axis")):
        f = ci.methods[mname]
        r.instance(fn=f.qualname)
        obj = XObj(ci, {ci.mangle("__beams"): beams})
        I = Interp(repo, extra_builtins={"isinstance": lambda o, t: True})
        I.call_hook = fe_hook_full
        try:
            out = I.call_function(f, [group], self_obj=obj)
        except XRaise as e:
            r.fail(f.qualname, f"structure:{mname}", f.file, f.lineno, f"BeamStructure.{mname}", f"raises {e}")
            continue
        bad = None
        if tag == "axis":
            xa, ya = XArray.from_nested(out[0]), XArray.from_nested(out[1])
            for e, o in enumerate(owner):
                for c in range(3):
                    if bad is None and (xa[e, c] != beams[o].xAxis[c] or ya[e, c] != beams[o].yAxis[c]):
                        bad = f"element {e} (member {o}) gets the axes of another member"
        else:
            A = XArray.from_nested(out)
            for e, o in enumerate(owner):
                for p in range(2):
                    for i in range(2):
                        for j in range(2):
                            if bad is None and not is_zero(Poly.of(A[e, p, i, j]) - law(tag, o)[i, j]):
                                bad = f"element {e} belongs to member {o} but carries {A[e, p, i, j]!r} (expected {law(tag, o)[i, j]!r})"
        if bad:
            r.fail(f.qualname, f"structure:{mname}", f.file, f.lineno, f"BeamStructure.{mname}", f"three members with distinct laws, elements owned by members {owner}: {bad}: " + ("the mass operator of a structure with different sections does not carry the mass of its members" if tag == "M" else "members get each other's law"))
        else:
            r.ok(f"{mname}: each element carries its own member's {'axes' if tag == 'axis' else 'law'}")
