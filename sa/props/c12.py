"""C12 -- finite-element arrays: closed forms, contraction specifications,
reducer tables, broadcast table, FE-axis drop.  The run-time dispatch of
numpy's protocols on actual shapes is NOT decided."""

from __future__ import annotations

import ast

from ..alg import Poly, Q, Rat, is_zero
from ..repo import AnalysisError, dotted, norm_text, walk_no_nested
from ..xeval import Interp, XObj, XRaise
from ..xarray import XArray, einsum as x_einsum

LA = "EasyFEA.FEM._linalg"


def closed_forms(ctx):
    repo = ctx.repo
    r = ctx.rule("R12.1", "closed-form Det / Inv / Trace / Transpose / TensorProd equal the tensor operation at every (e, p) for symbolic entries", min_instances=8)
    I = Interp(repo)
    fdet, finv, ftr, ftp, ftens = (repo.func(f"{LA}.{n}") for n in ("Det", "Inv", "Trace", "Transpose", "TensorProd"))
    for n in (1, 2, 3):
        A = XArray((1, 1, n, n), [Poly.var(f"a{i}{j}") for i in range(n) for j in range(n)])
        # determinant (Leibniz)
        r.instance(fn=fdet.qualname)
        d = I.call_function(fdet, [A])
        d = d.data[0] if isinstance(d, XArray) else d
        import itertools

        want = Poly()
        for perm in itertools.permutations(range(n)):
            sgn = 1
            for i in range(n):
                for j in range(i + 1, n):
                    if perm[i] > perm[j]:
                        sgn = -sgn
            term = Poly.const(sgn)
            for i in range(n):
                term = term * A[0, 0, i, perm[i]]
            want = want + term
        if is_zero(d - want):
            r.ok(f"Det {n}x{n} == Leibniz determinant")
        else:
            r.fail(fdet.qualname, f"det{n}", fdet.file, fdet.lineno, "Det", f"{n}x{n}: closed form differs from the Leibniz determinant by {d - want!r}")
        # inverse: A @ Inv(A) == I
        r.instance(fn=finv.qualname)
        inv = XArray.from_nested(I.call_function(finv, [A]))
        bad = None
        if inv.shape != A.shape:
            bad = f"shape {inv.shape}"
        else:
            for i in range(n):
                for j in range(n):
                    tot = Rat.of(Poly())
                    for k in range(n):
                        tot = tot + Rat.of(A[0, 0, i, k]) * Rat.of(inv[0, 0, k, j])
                    if not is_zero(tot - (1 if i == j else 0)):
                        bad = f"(A . Inv(A))[{i},{j}]"
        if bad:
            r.fail(finv.qualname, f"inv{n}", finv.file, finv.lineno, "Inv", f"{n}x{n}: A . Inv(A) is not the identity as a rational identity in the entries ({bad})")
        else:
            r.ok(f"Inv {n}x{n}: A . Inv(A) == I identically")
        r.instance(fn=ftr.qualname)
        t = I.call_function(ftr, [A])
        t = t.data[0] if isinstance(t, XArray) else t
        if is_zero(t - sum((A[0, 0, i, i] for i in range(n)), Poly())):
            r.ok(f"Trace {n}x{n}")
        else:
            r.fail(ftr.qualname, f"trace{n}", ftr.file, ftr.lineno, "Trace", f"{n}x{n}: trace is {t!r}")
    # transpose
    r.instance(fn=ftp.qualname)
    A = XArray((1, 1, 2, 3), [Poly.var(f"a{i}{j}") for i in range(2) for j in range(3)])
    T = XArray.from_nested(I.call_function(ftp, [A]))
    if T.shape == (1, 1, 3, 2) and all(T[0, 0, j, i] == A[0, 0, i, j] for i in range(2) for j in range(3)):
        r.ok("Transpose swaps the two tensor axes")
    else:
        r.fail(ftp.qualname, "transpose", ftp.file, ftp.lineno, "Transpose", "does not swap the last two axes")
    # tensor products (plain arrays)
    a = XArray((2,), [Poly.var("u0"), Poly.var("u1")])
    b = XArray((2,), [Poly.var("w0"), Poly.var("w1")])
    r.instance(fn=ftens.qualname)
    res = XArray.from_nested(I.call_function(ftens, [a, b]))
    if res.shape == (2, 2) and all(res[i, j] == a[i] * b[j] for i in range(2) for j in range(2)):
        r.ok("TensorProd vectors: a_i b_j")
    else:
        r.fail(ftens.qualname, "vec", ftens.file, ftens.lineno, "TensorProd", "vector product is not a_i b_j")
    A = XArray((2, 2), [Poly.var(f"A{i}{j}") for i in range(2) for j in range(2)])
    B = XArray((2, 2), [Poly.var(f"B{i}{j}") for i in range(2) for j in range(2)])
    for symm in (False, True):
        r.instance(fn=ftens.qualname)
        res = XArray.from_nested(I.call_function(ftens, [A, B], dict(symmetric=symm)))
        bad = None
        for i in range(2):
            for j in range(2):
                for k in range(2):
                    for l in range(2):
                        want = (A[i, k] * B[j, l] + A[i, l] * B[j, k]) / 2 if symm else A[i, j] * B[k, l]
                        if not is_zero(res[i, j, k, l] - want):
                            bad = (i, j, k, l)
        if bad:
            r.fail(ftens.qualname, f"mat{symm}", ftens.file, ftens.lineno, "TensorProd", f"symmetric={symm}: entry {bad} is not {'1/2 (A_ik B_jl + A_il B_jk)' if symm else 'A_ij B_kl'}")
        else:
            r.ok(f"TensorProd matrices symmetric={symm}")


def parse_spec(spec):
    ins, out = spec.replace(" ", "").split("->")
    return [s.replace("...", "") for s in ins.split(",")], out.replace("...", "")


def canon(ins, out):
    """rename indices in order of first appearance"""
    m = {}
    for s in ins + [out]:
        for ch in s:
            m.setdefault(ch, chr(ord("a") + len(m)))
    return tuple("".join(m[c] for c in s) for s in ins), "".join(m[c] for c in out)


def subscripts(ctx):
    repo = ctx.repo
    r = ctx.rule("R12.3", "generated subscripts: dot contracts the last index of A with the first of B, ddot the last two with the first two, keeping the other indices in order", min_instances=12)
    fe = repo.cls(f"{LA}.FeArray")
    I = Interp(repo)
    for name, k in (("_dot_subscript", 1), ("_ddot_subscript", 2)):
        f = fe.methods[name]
        for n1 in (1, 2, 4):
            for n2 in (1, 2, 4):
                if n1 < k or n2 < k:
                    continue
                r.instance(fn=f.qualname)
                try:
                    spec = I.call_function(f, [n1, n2])
                except XRaise as e:
                    r.fail(f.qualname, f"{n1},{n2}", f.file, f.lineno, name, f"({n1},{n2}) raises {e}")
                    continue
                try:
                    ins, out = parse_spec(spec)
                    got = canon(ins, out)
                except Exception:
                    got = None
                A = [chr(ord("a") + i) for i in range(n1)]
                B = A[n1 - k :] + [chr(ord("a") + n1 + i) for i in range(n2 - k)]
                want = canon(["".join(A), "".join(B)], "".join(A[: n1 - k] + B[k:]))
                lead_ok = spec.count("...") == 3
                if got == want and lead_ok:
                    r.ok(f"{name}({n1},{n2}) = '{spec}'")
                else:
                    r.fail(f.qualname, f"{n1},{n2}", f.file, f.lineno, name, f"({n1},{n2}) gives '{spec}', expected a contraction equivalent to '...{want[0][0]},...{want[0][1]}->...{want[1]}'")
    # literal subscripts of __matmul__
    r2 = ctx.rule("R12.2", "literal einsum subscripts in FeArray.__matmul__ are the matrix-vector / vector-matrix products", min_instances=2)
    f = fe.methods["__matmul__"]
    want_by_ranks = {(1, 2): canon(["i", "ij"], "j"), (2, 1): canon(["ij", "j"], "i")}
    for n in ast.walk(f.node):
        if isinstance(n, ast.If):
            t = norm_text(n.test)
            for (a, b), want in want_by_ranks.items():
                if t == f"ndim1 == {a} and ndim2 == {b}":
                    r2.instance(fn=f.qualname)
                    specs = [c.args[0].value for c in ast.walk(ast.Module(body=n.body, type_ignores=[])) if isinstance(c, ast.Call) and (dotted(c.func) or "") == "np.einsum" and isinstance(c.args[0], ast.Constant)]
                    if specs and canon(*parse_spec(specs[0])) == want:
                        r2.ok(f"ranks ({a},{b}): '{specs[0]}'")
                    else:
                        r2.fail(f.qualname, f"ranks{a}{b}", f.file, n.lineno, "FeArray.__matmul__", f"ranks ({a},{b}) use {specs}, expected the product contracting the shared index")


def reducers(ctx):
    repo = ctx.repo
    r = ctx.rule("R12.4", "reducer tables agree: every wrapped reducing method has its np. function in _REDUCERS; _KeepsFeAxes treats negative axes relative to ndim", min_instances=12)
    mod = repo.module(LA)
    red = mod.assigns.get("_REDUCERS")
    names = {dotted(e).split(".")[-1] for e in ast.walk(red) if isinstance(e, ast.Attribute)} if red is not None else set()
    fe = repo.cls(f"{LA}.FeArray")
    wrapped = None
    for st in fe.node.body:
        if isinstance(st, ast.For) and isinstance(st.iter, ast.Tuple) and all(isinstance(e, ast.Constant) for e in st.iter.elts):
            wrapped = [e.value for e in st.iter.elts]
    if not wrapped or not names:
        raise AnalysisError("R12.4: reducer tables not found")
    alias = {"max": {"max", "amax"}, "min": {"min", "amin"}}
    for w in wrapped:
        if w == "ravel":
            continue
        r.instance(fn=f"{LA}.FeArray.{w}")
        if alias.get(w, {w}) <= names:
            r.ok(f"FeArray.{w} <-> np.{w} registered")
        else:
            r.fail(f"{LA}._REDUCERS", f"missing:{w}", mod.relpath, red.lineno, "_REDUCERS", f"method FeArray.{w} is wrapped but np.{w} is not in _REDUCERS: np.{w}(fe, axis=...) would keep the FeArray type after the (Ne, nPg) axes are consumed")
    f = repo.func(f"{LA}._KeepsFeAxes")
    I = Interp(repo)
    cases = [((None, 4), False), ((2, 4), True), ((1, 4), False), ((-1, 4), True), ((-2, 4), True), ((-3, 4), False), (((2, 3), 4), True), (((0, 3), 4), False), ((-1, 2), False)]
    for (axis, nd), want in cases:
        r.instance(fn=f.qualname)
        got = I.call_function(f, [axis, nd])
        if bool(got) == want:
            r.ok(f"_KeepsFeAxes({axis}, {nd}) = {want}")
        else:
            r.fail(f.qualname, f"axis:{axis},{nd}", f.file, f.lineno, "_KeepsFeAxes", f"_KeepsFeAxes({axis}, ndim={nd}) is {got}, expected {want}")

    # _FeShape: the (Ne, nPg) an operation runs at is the numpy broadcast of its FeArray operands' leading shapes
    from ..femchain import XFe
    from ..alg import Q as _Q

    g = repo.func(f"{LA}._FeShape")
    mk = lambda ne, npg, *t: XFe((ne, npg) + t, [_Q(0)] * (ne * npg * max(1, __import__("math").prod(t))))
    plain = XArray((2, 2), [_Q(0)] * 4)
    shape_cases = [
        ([mk(5, 1, 2), mk(1, 4, 2)], (5, 4)),
        ([mk(1, 4), mk(5, 1, 3, 3)], (5, 4)),
        ([mk(1, 1, 2), mk(5, 4, 2)], (5, 4)),
        ([mk(5, 4), mk(5, 4, 2, 2)], (5, 4)),
        ([mk(5, 1), mk(5, 4), mk(1, 1)], (5, 4)),
        ([plain, [mk(1, 3), (mk(2, 1, 2),)]], (2, 3)),
        ([plain, 1], ()),
    ]
    for ops, want in shape_cases:
        r.instance(fn=g.qualname)
        desc = ", ".join(str(getattr(o, "shape", "..")) for o in ops)
        got = I.call_function(g, [ops])
        if tuple(got) == want:
            r.ok(f"_FeShape({desc}) = {want}")
        else:
            r.fail(g.qualname, f"feshape:{desc}", g.file, g.lineno, "_FeShape", f"_FeShape of operands with shapes ({desc}) is {tuple(got)}, expected the broadcast {want}: a per-element field combined with a per-point field through a non-elementwise route comes back as a plain ndarray (or with the wrong leading shape) and is re-read as a constant tensor")


def broadcast_rule(ctx):
    repo = ctx.repo
    r = ctx.rule("R12.5", "tensor coefficients are broadcast with tensor_ndim=2 at every call site (disambiguates (Ne,n,n) from (Ne,nPg,n))", min_instances=6)
    tensor_names = {"C", "A", "S", "sqrtC", "sqrtS", "D", "c", "s"}
    n_sites = 0
    for f in repo.all_functions():
        for n in walk_no_nested(f.node):
            if isinstance(n, ast.Call) and (dotted(n.func) or "") == "FeArray.broadcast" and n.args:
                a0 = n.args[0]
                if isinstance(a0, ast.Name) and a0.id in tensor_names:
                    # only the matrix-valued uses: the target keeps the same name (C = FeArray.broadcast(C, ...))
                    r.instance(fn=f.qualname)
                    n_sites += 1
                    tn = next((k.value for k in n.keywords if k.arg == "tensor_ndim"), n.args[3] if len(n.args) > 3 else None)
                    if tn is not None and isinstance(tn, ast.Constant) and tn.value == 2:
                        r.ok(f"{f.qualname}: {norm_text(n)}")
                    else:
                        r.fail(f.qualname, f"broadcast:{a0.id}", f.file, n.lineno, f.name, f"matrix coefficient `{a0.id}` is broadcast without tensor_ndim=2: {norm_text(n)}")
    # broadcast branch table
    fb = repo.cls(f"{LA}.FeArray").methods["broadcast"]
    r.instance(fn=fb.qualname)
    leads = []
    for n in ast.walk(fb.node):
        if isinstance(n, ast.Compare) and isinstance(n.left, ast.Name) and n.left.id == "lead":
            leads.append(norm_text(n.comparators[0]))
    if sorted(leads) == sorted(["(Ne, nPg)", "(Ne,)", "()"]):
        r.ok("FeArray.broadcast(tensor_ndim>0) accepts exactly the leading shapes (), (Ne,), (Ne, nPg)")
    else:
        r.fail(fb.qualname, "lead-table", fb.file, fb.lineno, "FeArray.broadcast", f"leading-shape table is {leads}")


def fe_axis_drop(ctx):
    """R12.6: a value produced as FeArray and subscripted with scalar indices in both
    leading positions must go through np.asarray before arithmetic."""
    repo = ctx.repo
    r = ctx.rule("R12.6", "FE-axis drop: `<FeArray>[e, p]` with two scalar leading indices is used in arithmetic only through np.asarray (otherwise its tensor axes are re-read as (Ne, nPg))", min_instances=1)
    fe_producers = ("Get_invF_e_pg", "Get_F_e_pg", "Get_dN_e_pg", "Get_B_e_pg", "Get_jacobian_e_pg", "Get_weightedJacobian_e_pg", "Get_leftDispPart_e_pg", "Get_ReactionPart_e_pg", "Get_DiffusePart_e_pg", "Get_SourcePart_e_pg", "Get_ddN_e_pg", "Get_GaussCoordinates_e_pg", "Get_normals_e_pg")
    for f in repo.all_functions():
        fevars = set()
        for n in ast.walk(f.node):
            if isinstance(n, ast.Assign) and isinstance(n.value, ast.Call) and isinstance(n.targets[0], ast.Name):
                d = dotted(n.value.func) or ""
                if d.split(".")[-1] in fe_producers or d in ("FeArray.asfearray", "FeArray.zeros", "FeArray.ones"):
                    fevars.add(n.targets[0].id)
        if not fevars:
            continue
        parents = {}
        for p in ast.walk(f.node):
            for c in ast.iter_child_nodes(p):
                parents[c] = p
        for n in ast.walk(f.node):
            if isinstance(n, ast.Subscript) and isinstance(n.value, ast.Name) and n.value.id in fevars and isinstance(n.ctx, ast.Load) and isinstance(n.slice, ast.Tuple) and len(n.slice.elts) == 2:
                e0, e1 = n.slice.elts
                loopnames = set()
                for lp in ast.walk(f.node):
                    if isinstance(lp, (ast.For, ast.comprehension)):
                        loopnames |= {x.id for x in ast.walk(lp.target) if isinstance(x, ast.Name)}
                scalar = lambda e: (isinstance(e, ast.Constant) and isinstance(e.value, int)) or (isinstance(e, ast.Name) and e.id in loopnames)
                if not (scalar(e0) and scalar(e1)):
                    continue
                # only loop indices / literals count as scalars: e must be a for-loop target or int constant
                r.instance(fn=f.qualname)
                p = parents.get(n)
                wrapped = isinstance(p, ast.Call) and (dotted(p.func) or "") in ("np.asarray", "np.array")
                in_arith = isinstance(p, ast.BinOp)
                if in_arith and not wrapped:
                    r.fail(f.qualname, f"fe-drop:{norm_text(n)}", f.file, n.lineno, f.name, f"`{norm_text(n)}` is still a FeArray view whose remaining axes are re-read as (Ne, nPg) in `{norm_text(p)}`: wrap it in np.asarray")
                else:
                    r.ok(f"{f.qualname}: {norm_text(p) if p is not None else norm_text(n)}")


def run(ctx):
    ctx.level = "other"
    ctx.explanation = (
        "The protocol dispatch of FeArray depends on run-time shapes and is NOT decided. Decided: the closed-form Det/Inv/Trace/Transpose/TensorProd are the tensor operation "
        "for symbolic entries (polynomial / rational identities); the generated and literal einsum subscripts are folded over their finite rank domain and compared with the "
        "contraction they are for; the reducer tables agree; matrix coefficients are broadcast with tensor_ndim=2 everywhere; a FeArray subscripted by two scalar leading indices "
        "is not used in arithmetic without np.asarray."
    )
    closed_forms(ctx)
    subscripts(ctx)
    reducers(ctx)
    broadcast_rule(ctx)
    fe_axis_drop(ctx)
